#!/usr/bin/env python3
"""Behaviour-preserving changes (refactorings written by independent sub-agents that saw only the property text): the
checks must stay quiet on them.

  tools/neutral.py import <id> <dir>   verify in a scratch worktree that the patch applies and the suite equals the baseline;
                                       keep it as neutral/<id>/{patch.diff, meta.json}
  tools/neutral.py run <id> [props..]  apply neutral/<id>/patch.diff to /repo, run the quick check of its property (or the
                                       given ones), undo it, record neutral/<id>/result.json; exit 1 if a check alarmed
  tools/neutral.py runall
"""
import json
import os
import shutil
import sys

sys.path.insert(0, os.path.dirname(os.path.abspath(__file__)))
from seeded import sh, suite_ok, ROOT, REPO, SCRATCH    # noqa


def do_import(nid, src):
    os.makedirs(SCRATCH, exist_ok=True)
    wt = os.path.join(SCRATCH, 'nwt_' + nid)
    sh(f'git -C {REPO} worktree remove --force {wt}')
    sh(f'git -C {REPO} worktree add -q --detach {wt} HEAD')
    try:
        patch = os.path.join(src, 'patch.diff')
        rc, out = sh(f'git -C {wt} apply {patch}')
        if rc:
            print('patch does not apply:', out[-300:])
            return 1
        missing = suite_ok(wt)
        print(f'{nid}: suite missing={missing[:3]}')
        if missing:
            return 1
        dst = os.path.join(ROOT, 'neutral', nid)
        os.makedirs(dst, exist_ok=True)
        shutil.copy(patch, os.path.join(dst, 'patch.diff'))
        try:
            meta = json.load(open(os.path.join(src, 'meta.json')))
        except Exception as ex:      # noqa
            meta = {'note': f'meta.json unreadable: {ex}'}
        json.dump(meta, open(os.path.join(dst, 'meta.json'), 'w'), indent=1)
        return 0
    finally:
        sh(f'git -C {REPO} worktree remove --force {wt}')
        shutil.rmtree(wt, ignore_errors=True)


def do_run(nid, props=None):
    dst = os.path.join(ROOT, 'neutral', nid)
    meta = json.load(open(os.path.join(dst, 'meta.json')))
    props = props or meta.get('properties') or [meta.get('property', nid.split('-')[0])]
    rc, out = sh(f'git -C {REPO} status --porcelain')
    if out.strip():
        print('refusing: /repo has uncommitted changes')
        return 1
    rc, out = sh(f'git -C {REPO} apply {os.path.join(dst, "patch.diff")}')
    if rc:
        print('patch does not apply to /repo:', out[-300:])
        return 1
    results, alarm = {}, False
    try:
        for p in props:
            rc, out = sh(f'./check {p} --tier quick', cwd=ROOT, timeout=3000)
            lines = out.splitlines()
            viol = [l for l in lines if l.startswith('VIOLATION')]
            summ = [l for l in lines if l.startswith('SUMMARY')][-1:]
            results[p] = dict(exit=rc, violations=viol[:10], summary=summ,
                              checker_errors=[l[:300] for l in lines if l.startswith('CHECKER-ERROR')][:5],
                              regressions=len([l for l in lines if l.startswith('UNDECIDED-REGRESSION')]))
            alarm = alarm or rc != 0
            print(nid, p, 'exit', rc, summ[0][len('SUMMARY '):] if summ else '', [v[:200] for v in viol[:2]], results[p]['checker_errors'][:1])
    finally:
        sh(f'git -C {REPO} checkout -- .')
    json.dump(results, open(os.path.join(dst, 'result.json'), 'w'), indent=1)
    return 1 if alarm else 0


if __name__ == '__main__':
    cmd = sys.argv[1]
    if cmd == 'import':
        sys.exit(do_import(sys.argv[2], sys.argv[3]))
    if cmd == 'run':
        sys.exit(do_run(sys.argv[2], sys.argv[3:] or None))
    if cmd == 'runall':
        bad = 0
        for nid in sorted(os.listdir(os.path.join(ROOT, 'neutral'))):
            if os.path.exists(os.path.join(ROOT, 'neutral', nid, 'patch.diff')):
                bad += do_run(nid)
        sys.exit(1 if bad else 0)
