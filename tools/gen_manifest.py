#!/usr/bin/env python3
"""Regenerates MANIFEST.json from contracts/registry.py (so that the manifest is always valid and current)."""
import json, os, sys
ROOT = os.path.dirname(os.path.dirname(os.path.abspath(__file__)))
sys.path.insert(0, ROOT)
from contracts import registry

props = [json.loads(l)['id'] for l in open(os.path.join(ROOT, 'properties.jsonl'))]
checks = []
na = []
for pid in props:
    cfg = registry.PROPS.get(pid)
    if cfg is None or cfg.get('not_applicable'):
        na.append(dict(property_id=pid, reason=(cfg or {}).get('not_applicable', 'check not built yet (work in progress; see DESIGN.md section 7)')))
        continue
    checks.append(dict(
        property_id=pid,
        quick_cmd=f'./check {pid} --tier quick',
        thorough_cmd=f'./check {pid} --tier thorough',
        evidence_file=f'evidence/{pid}.json',
        replay_cmd_template='./check --replay {path}',
        engine='pyvc',
        level_claimed=dict(category=cfg.get('level', 'other'), text=cfg['level_text'], design_ref=cfg.get('design_ref', f'DESIGN.md section 7 ({pid})')),
        level_note=cfg['level_note'],
        technique=cfg.get('technique', 'contract-based deductive verification: sidecar contracts on the real functions, VCs generated from the real source AST (pyvc), discharged by z3/cvc5; run-time-checked contracts as the bounded stand-in'),
    ))
m = dict(
    version=1,
    setup_cmd='./setup.sh',
    hooks=dict(guard='XLCALCULATOR_VERIF', enable='no source hooks are needed: contracts are sidecar files under /verif/contracts, monitors are installed inside the check process', baseline_off_cmd='cd /repo && /venv/bin/python -m pytest -ra -q -p no:cacheprovider --timeout=900 --continue-on-collection-errors', source_commits=[], add_only=True),
    engines=[
        dict(name='pyvc', path='pyvc/', serves_properties=[c['property_id'] for c in checks], kind_free_text='self-built deductive verifier: AST interpreter over the real /repo source with symbolic leaves -> per-path verification conditions -> z3 5.1.0 (API), /usr/bin/cvc5, z3-new; counterexamples replayed on the real code'),
        dict(name='pyvc.bounded', path='pyvc/bounded.py', serves_properties=[c['property_id'] for c in checks], kind_free_text='run-time-checked contracts on the real entry points over enumerated domains (bounded stand-in, never counted as proved)'),
    ],
    checks=checks,
    notes='Fixes committed to /repo are listed in known_findings.json under "fixed". See DESIGN.md.',
    not_applicable=na,
)
json.dump(m, open(os.path.join(ROOT, 'MANIFEST.json'), 'w'), indent=1)
print('checks', [c['property_id'] for c in checks], 'n/a', [n['property_id'] for n in na])
