#!/usr/bin/env python3
"""Seeded changes (written by independent sub-agents that saw only the property text).

  tools/seeded.py import <id> <dir>    verify a delivered change in a scratch worktree (suite == baseline, demo fails with /
                                       passes without) and keep it as seeded/<id>/{patch.diff, demo.py, meta.json}
  tools/seeded.py run <id> [props..]   apply seeded/<id>/patch.diff to /repo, run the quick checks of the given properties
                                       (default: the property it breaks), undo it, record seeded/<id>/result.json
  tools/seeded.py runall               run every kept change against the check of its property
"""
import json
import os
import shutil
import subprocess
import sys
import xml.etree.ElementTree as ET

ROOT = os.path.dirname(os.path.dirname(os.path.abspath(__file__)))
REPO = '/repo'
SCRATCH = '/var/tmp/xlc-seed'


def sh(cmd, cwd=None, timeout=1800):
    p = subprocess.run(cmd, shell=True, cwd=cwd, capture_output=True, text=True, timeout=timeout)
    return p.returncode, p.stdout + p.stderr


def suite_ok(wt):
    junit = os.path.join(SCRATCH, 'junit.xml')
    sh(f'/venv/bin/python -m pytest -q -p no:cacheprovider -n 8 --timeout=900 --junitxml={junit}', cwd=wt)
    base = set(json.load(open('/root/.vp/BASELINE.json'))['stable_pass'])
    ok = set()
    for tc in ET.parse(junit).getroot().iter('testcase'):
        if not any(ch.tag in ('failure', 'error', 'skipped') for ch in tc):
            ok.add(f"{tc.get('classname')}::{tc.get('name')}")
    return sorted(base - ok)


def do_import(sid, src):
    os.makedirs(SCRATCH, exist_ok=True)
    wt = os.path.join(SCRATCH, 'wt_' + sid)
    sh(f'git -C {REPO} worktree remove --force {wt}')
    rc, out = sh(f'git -C {REPO} worktree add -q --detach {wt} HEAD')
    try:
        patch = os.path.join(src, 'patch.diff')
        rc, out = sh(f'git -C {wt} apply {patch}')
        if rc:
            print('patch does not apply:', out)
            return 1
        missing = suite_ok(wt)
        rc1, out1 = sh(f'/venv/bin/python {os.path.join(src, "demo.py")}', cwd=wt, timeout=600)
        sh(f'git -C {wt} checkout -- .')
        rc0, out0 = sh(f'/venv/bin/python {os.path.join(src, "demo.py")}', cwd=wt, timeout=600)
        print(f'{sid}: suite missing={missing[:3]} demo with change rc={rc1}, without rc={rc0}')
        if missing or rc1 == 0 or rc0 != 0:
            print('NOT kept:', (out1 or '')[-300:], (out0 or '')[-300:])
            return 1
        dst = os.path.join(ROOT, 'seeded', sid)
        os.makedirs(dst, exist_ok=True)
        shutil.copy(patch, os.path.join(dst, 'patch.diff'))
        shutil.copy(os.path.join(src, 'demo.py'), os.path.join(dst, 'demo.py'))
        meta = {}
        try:
            meta = json.load(open(os.path.join(src, 'meta.json')))
        except Exception as ex:      # noqa
            meta = {'note': f'meta.json of the agent unreadable: {ex}'}
        meta['verified_by_me'] = dict(
            ran=f'scratch worktree of /repo HEAD {sh("git -C /repo rev-parse --short HEAD")[1].strip()}: git apply patch.diff; full pytest suite compared with BASELINE.json stable_pass (all 815 pass); demo.py exit {rc1} with the change; git checkout; demo.py exit {rc0} without it',
            demo_output_with_change=(out1 or '').strip()[-600:])
        json.dump(meta, open(os.path.join(dst, 'meta.json'), 'w'), indent=1)
        print('kept as', dst)
        return 0
    finally:
        sh(f'git -C {REPO} worktree remove --force {wt}')
        shutil.rmtree(wt, ignore_errors=True)


def do_run(sid, props=None):
    dst = os.path.join(ROOT, 'seeded', sid)
    meta = json.load(open(os.path.join(dst, 'meta.json')))
    props = props or [meta.get('property', sid.split('-')[0])]
    rc, out = sh(f'git -C {REPO} status --porcelain')
    if out.strip():
        print('refusing: /repo has uncommitted changes')
        return 1
    rc, out = sh(f'git -C {REPO} apply {os.path.join(dst, "patch.diff")}')
    if rc:
        print('patch does not apply to /repo:', out[-300:])
        return 1
    results = {}
    try:
        for p in props:
            rc, out = sh(f'./check {p} --tier quick', cwd=ROOT, timeout=3000)
            viol = [l for l in out.splitlines() if l.startswith('VIOLATION')]
            obl = []
            for l in viol[:40]:
                try:
                    path = l.split('replay=')[1].split()[0]
                    obl.append(json.load(open(path)).get('obligation'))
                except Exception:      # noqa
                    pass
            results[p] = dict(exit=rc, violations=len(viol), obligations=sorted(set(o for o in obl if o))[:25],
                              checker_errors=[l[:200] for l in out.splitlines() if l.startswith('CHECKER-ERROR')][:5],
                              summary=[l for l in out.splitlines() if l.startswith('SUMMARY')][-1:] )
            print(sid, p, 'exit', rc, 'violations', len(viol), sorted(set(o for o in obl if o))[:6])
    finally:
        sh(f'git -C {REPO} checkout -- .')
    json.dump(results, open(os.path.join(dst, 'result.json'), 'w'), indent=1)
    # restore the evidence files of the unchanged tree
    return 0


if __name__ == '__main__':
    cmd = sys.argv[1]
    if cmd == 'import':
        sys.exit(do_import(sys.argv[2], sys.argv[3]))
    if cmd == 'run':
        sys.exit(do_run(sys.argv[2], sys.argv[3:] or None))
    if cmd == 'runall':
        for sid in sorted(os.listdir(os.path.join(ROOT, 'seeded'))):
            if os.path.exists(os.path.join(ROOT, 'seeded', sid, 'patch.diff')):
                do_run(sid)
