#!/usr/bin/env python3
"""Write baseline/discharged.json: per property, the ids of the proof obligations discharged on the CURRENT tree.
Run by hand on the reference tree (clean /repo) and committed; checks only read it."""
import json
import os
import subprocess
import sys
import tempfile

ROOT = os.path.dirname(os.path.dirname(os.path.abspath(__file__)))
sys.path.insert(0, ROOT)
from contracts import registry    # noqa

out = {}
if subprocess.run(['git', '-C', '/repo', 'status', '--porcelain'], capture_output=True, text=True).stdout.strip():
    sys.exit('refusing: /repo has uncommitted changes')
for pid in sorted(registry.PROPS):
    with tempfile.NamedTemporaryFile(suffix='.json', delete=False) as t:
        path = t.name
    env = dict(os.environ, PYVC_DUMP_PROVED=path)
    r = subprocess.run([os.path.join(ROOT, 'check'), pid, '--tier', 'quick'], env=env, capture_output=True, text=True)
    ids = json.load(open(path)) if os.path.getsize(path) else []
    os.unlink(path)
    out[pid] = ids
    print(pid, 'exit', r.returncode, len(ids), 'discharged')
os.makedirs(os.path.join(ROOT, 'baseline'), exist_ok=True)
meta = dict(repo_head=subprocess.run(['git', '-C', '/repo', 'rev-parse', 'HEAD'], capture_output=True, text=True).stdout.strip())
out['_meta'] = meta
json.dump(out, open(os.path.join(ROOT, 'baseline', 'discharged.json'), 'w'), indent=0, sort_keys=True)
