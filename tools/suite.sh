#!/bin/bash
# Runs the repository's own test suite (guard OFF) and compares with the baseline: 815 pass, the same 12 always-fail.
cd /repo && env -u XLCALCULATOR_VERIF /venv/bin/python -m pytest -q -p no:cacheprovider -n 8 --timeout=900 "$@" 2>&1 | tail -4
