#!/bin/bash
# exact comparison with the baseline: every stable_pass test must pass (exit 1 otherwise)
mkdir -p /verif/scratch
cd /repo && env -u XLCALCULATOR_VERIF /venv/bin/python -m pytest -q -p no:cacheprovider -n 8 --timeout=900 --junitxml=/verif/scratch/junit.xml >/dev/null 2>&1
python3 - <<'PY'
import json, sys, xml.etree.ElementTree as ET
b=set(json.load(open('/root/.vp/BASELINE.json'))['stable_pass'])
ok=set()
for tc in ET.parse('/verif/scratch/junit.xml').getroot().iter('testcase'):
    if not any(ch.tag in ('failure','error','skipped') for ch in tc):
        ok.add(f"{tc.get('classname')}::{tc.get('name')}")
missing=sorted(b-ok)
print('baseline', len(b), 'passing now', len(ok & b), 'MISSING', missing[:10])
sys.exit(1 if missing else 0)
PY
