"""Throwaway spike: AST interpreter over real objects with symbolic leaves.
Goal: push text.RIGHT and operator.OP_LT through the real validate_args wrapper."""
import ast, inspect, sys, types, builtins, textwrap, operator as pyop
import z3

REPO = '/repo'

class Sym:
    __slots__ = ('t', 'k')
    def __init__(self, t, k): self.t, self.k = t, k      # k in int real bool str
    def __repr__(self): return f'Sym<{self.k}:{self.t}>'

def is_sym(x): return isinstance(x, Sym)
def lift(x):
    if is_sym(x): return x
    if isinstance(x, bool): return Sym(z3.BoolVal(x), 'bool')
    if isinstance(x, int): return Sym(z3.IntVal(x), 'int')
    if isinstance(x, float): return Sym(z3.RealVal(repr(x)), 'real')
    if isinstance(x, str): return Sym(z3.StringVal(x), 'str')
    raise Unsupported(f'lift {type(x)}')

class Unsupported(Exception): pass
class ReturnEx(Exception):
    def __init__(self, v): self.v = v
class RaiseEx(Exception):
    def __init__(self, exc): self.exc = exc
class BreakEx(Exception): pass
class ContinueEx(Exception): pass
class PathDead(Exception): pass

class InterpFunction:
    def __init__(self, node, env, interp, name): self.node, self.env, self.interp, self.name = node, env, interp, name

class Path:
    def __init__(self, prefix): self.prefix = list(prefix); self.i = 0; self.pc = []; self.taken = []

_ast_cache = {}
def func_ast(f):
    code = f.__code__
    key = (code.co_filename, code.co_firstlineno, code.co_name)
    if key not in _ast_cache:
        src = open(code.co_filename).read()
        tree = ast.parse(src)
        for n in ast.walk(tree):
            if isinstance(n, (ast.FunctionDef, ast.Lambda)):
                # decorators shift co_firstlineno to first decorator line
                first = min([d.lineno for d in getattr(n, 'decorator_list', [])] + [n.lineno])
                if first == code.co_firstlineno and getattr(n, 'name', '<lambda>') == code.co_name:
                    _ast_cache[key] = n
        if key not in _ast_cache: raise Unsupported(f'no ast for {key}')
    return _ast_cache[key]

class Interp:
    def __init__(self):
        self.work = [[]]; self.results = []; self.solver = z3.Solver(); self.depth = 0
    # ---- path exploration by re-execution
    def explore(self, thunk):
        while self.work:
            prefix = self.work.pop()
            self.path = Path(prefix)
            try:
                out = ('ret', thunk())
            except RaiseEx as e:
                out = ('raise', e.exc)
            except PathDead:
                continue
            except Unsupported as e:
                out = ('unsupported', str(e))
            self.results.append((list(self.path.pc), out))
        return self.results
    def feasible(self, extra):
        s = self.solver; s.push(); s.add(*self.path.pc); s.add(extra); r = s.check(); s.pop(); return r != z3.unsat
    def branch(self, cond):
        """cond: python bool or Sym bool -> python bool (forks)"""
        if not is_sym(cond): return bool(cond)
        c = z3.simplify(cond.t)
        if z3.is_true(c): return True
        if z3.is_false(c): return False
        p = self.path
        if p.i < len(p.prefix):
            d = p.prefix[p.i]
        else:
            ft, ff = self.feasible(c), self.feasible(z3.Not(c))
            if ft and ff:
                self.work.append(p.taken + [False]); d = True
            elif ft: d = True
            elif ff: d = False
            else: raise PathDead()
            p.prefix.append(d)
        p.i += 1; p.taken.append(d)
        p.pc.append(c if d else z3.Not(c))
        return d
    # ---- truthiness
    def truth(self, v):
        if is_sym(v):
            if v.k == 'bool': return v
            if v.k in ('int', 'real'): return Sym(v.t != 0, 'bool')
            if v.k == 'str': return Sym(z3.Length(v.t) > 0, 'bool')
        if isinstance(v, (bool, int, float, str, type(None), list, tuple, dict, set)): return bool(v)
        tb = self.lookup_special(v, '__bool__')
        if tb is not None: return self.truth(self.call(tb, [v], {}))
        return bool(v)
    def lookup_special(self, obj, name):
        for c in type(obj).__mro__:
            if name in c.__dict__:
                f = c.__dict__[name]
                if c is object: return None
                return f
        return None
    # ---- calls
    def is_repo_func(self, f):
        return isinstance(f, types.FunctionType) and f.__code__.co_filename.startswith(REPO)
    def call(self, f, args, kwargs):
        self.depth += 1
        if self.depth > 60: raise Unsupported('depth')
        try:
            return self._call(f, args, kwargs)
        finally:
            self.depth -= 1
    def _call(self, f, args, kwargs):
        if isinstance(f, InterpFunction): return self.run_function(f.node, f.env, args, kwargs, f)
        if isinstance(f, types.MethodType): return self.call(f.__func__, [f.__self__] + list(args), kwargs)
        if isinstance(f, (classmethod, staticmethod)): raise Unsupported('raw descriptor')
        if self.is_repo_func(f):
            node = func_ast(f)
            env = {}
            if f.__closure__:
                for name, cell in zip(f.__code__.co_freevars, f.__closure__):
                    try: env[name] = cell.cell_contents
                    except ValueError: pass
            return self.run_function(node, env, args, kwargs, f)
        m = BUILTIN_MODELS.get(f)
        if m is not None: return m(self, *args, **kwargs)
        if isinstance(f, type):
            return self.instantiate(f, args, kwargs)
        anysym = any(is_sym(a) for a in args) or any(is_sym(a) for a in kwargs.values())
        if anysym and not getattr(f, '__module__', '') in ('inspect', 'functools'):
            raise Unsupported(f'native call with Sym: {f}')
        try:
            return f(*args, **kwargs)
        except Exception as e:
            raise RaiseEx(e)
    def instantiate(self, cls, args, kwargs):
        new = None
        for c in cls.__mro__:
            if '__new__' in c.__dict__:
                new = c.__dict__['__new__']; break
        if isinstance(new, staticmethod): new = new.__func__
        if self.is_repo_func(new):
            inst = self.call(new, [cls] + list(args), kwargs)
        elif issubclass(cls, BaseException) or not any(is_sym(a) for a in args):
            try: return cls(*args, **kwargs)
            except Exception as e: raise RaiseEx(e)
        else:
            inst = object.__new__(cls)
        if isinstance(inst, cls):
            for c in cls.__mro__:
                if '__init__' in c.__dict__:
                    init = c.__dict__['__init__']
                    if self.is_repo_func(init): self.call(init, [inst] + list(args), kwargs)
                    break
        return inst
    def run_function(self, node, closure_env, args, kwargs, f):
        if isinstance(f, InterpFunction):
            sig = sig_from_ast(node); g = f.env; closure_env = {}
        else:
            sig = inspect.signature(f, follow_wrapped=False); g = None
        try:
            ba = sig.bind(*args, **kwargs); ba.apply_defaults()
        except TypeError as e:
            raise RaiseEx(e)
        env = Env(dict(ba.arguments), closure_env, f.__globals__ if g is None else None, parent=g, func=f)
        if isinstance(node, ast.Lambda): return self.ev(node.body, env)
        try:
            self.block(node.body, env)
        except ReturnEx as r:
            return r.v
        return None
    # ---- statements
    def block(self, stmts, env):
        for s in stmts: self.stmt(s, env)
    def stmt(self, s, env):
        m = getattr(self, 's_' + type(s).__name__, None)
        if m is None: raise Unsupported('stmt ' + type(s).__name__)
        return m(s, env)
    def s_Expr(self, s, env): self.ev(s.value, env)
    def s_Return(self, s, env): raise ReturnEx(self.ev(s.value, env) if s.value else None)
    def s_Pass(self, s, env): pass
    def s_Assign(self, s, env):
        v = self.ev(s.value, env)
        for t in s.targets: self.assign(t, v, env)
    def s_AugAssign(self, s, env):
        cur = self.ev(ast.copy_location(ast.Name(s.target.id, ast.Load()), s.target), env) if isinstance(s.target, ast.Name) else self.ev(s.target, env)
        self.assign(s.target, self.binop(type(s.op), cur, self.ev(s.value, env)), env)
    def assign(self, t, v, env):
        if isinstance(t, ast.Name): env.set(t.id, v)
        elif isinstance(t, ast.Attribute): setattr(self.ev(t.value, env), t.attr, v)
        elif isinstance(t, ast.Subscript):
            self.ev(t.value, env)[self.ev(t.slice, env)] = v
        elif isinstance(t, (ast.Tuple, ast.List)):
            v = list(v)
            for a, b in zip(t.elts, v): self.assign(a, b, env)
        else: raise Unsupported('assign target')
    def s_If(self, s, env):
        if self.branch(self.truth(self.ev(s.test, env))): self.block(s.body, env)
        else: self.block(s.orelse, env)
    def s_For(self, s, env):
        it = self.ev(s.iter, env)
        if is_sym(it): raise Unsupported('for over Sym')
        for x in list(it):
            self.assign(s.target, x, env)
            try: self.block(s.body, env)
            except BreakEx: break
            except ContinueEx: continue
        else:
            self.block(s.orelse, env)
    def s_Break(self, s, env): raise BreakEx()
    def s_Continue(self, s, env): raise ContinueEx()
    def s_Raise(self, s, env):
        e = self.ev(s.exc, env)
        if isinstance(e, type): e = e()
        raise RaiseEx(e)
    def s_Assert(self, s, env):
        if not self.branch(self.truth(self.ev(s.test, env))):
            raise RaiseEx(AssertionError())
    def s_Try(self, s, env):
        try:
            try:
                self.block(s.body, env)
            except RaiseEx as r:
                for h in s.handlers:
                    et = self.ev(h.type, env) if h.type else BaseException
                    if isinstance(r.exc, et):
                        if h.name: env.set(h.name, r.exc)
                        self.block(h.body, env); break
                else: raise
            else:
                self.block(s.orelse, env)
        finally:
            self.block(s.finalbody, env)
    def s_FunctionDef(self, s, env):
        env.set(s.name, InterpFunction(s, env, self, s.name))
    # ---- expressions
    def ev(self, e, env):
        m = getattr(self, 'e_' + type(e).__name__, None)
        if m is None: raise Unsupported('expr ' + type(e).__name__)
        return m(e, env)
    def e_Constant(self, e, env): return e.value
    def e_Name(self, e, env): return env.get(e.id)
    def e_Tuple(self, e, env): return tuple(self.elts(e.elts, env))
    def e_List(self, e, env): return list(self.elts(e.elts, env))
    def elts(self, elts, env):
        out = []
        for x in elts:
            if isinstance(x, ast.Starred): out.extend(self.ev(x.value, env))
            else: out.append(self.ev(x, env))
        return out
    def e_Dict(self, e, env): return {self.ev(k, env): self.ev(v, env) for k, v in zip(e.keys, e.values)}
    def e_Attribute(self, e, env):
        o = self.ev(e.value, env)
        if is_sym(o): return SymAttr(o, e.attr)
        # properties defined in repo must be interpreted
        for c in type(o).__mro__ if not isinstance(o, type) else ():
            if e.attr in c.__dict__:
                d = c.__dict__[e.attr]
                if isinstance(d, property) and self.is_repo_func(d.fget): return self.call(d.fget, [o], {})
                break
        try: return getattr(o, e.attr)
        except AttributeError as ex: raise RaiseEx(ex)
    def e_JoinedStr(self, e, env):
        parts = []
        for v in e.values:
            if isinstance(v, ast.Constant): parts.append(v.value)
            else:
                x = self.ev(v.value, env)
                if is_sym(x) or has_sym(x): parts.append('<sym>')
                else: parts.append(format(x) if v.conversion == -1 else repr(x))
        return ''.join(parts)
    def e_Call(self, e, env):
        f = self.ev(e.func, env)
        args = self.elts(e.args, env)
        kwargs = {}
        for k in e.keywords:
            if k.arg is None: kwargs.update(self.ev(k.value, env))
            else: kwargs[k.arg] = self.ev(k.value, env)
        if f is builtins.super and not args:
            cls = env.defining_class(); return super(cls, env.first_arg())
        if isinstance(f, SymAttr): return f.call(self, args, kwargs)
        return self.call(f, args, kwargs)
    def e_BoolOp(self, e, env):
        isand = isinstance(e.op, ast.And)
        v = None
        for x in e.values:
            v = self.ev(x, env)
            t = self.branch(self.truth(v))
            if isand and not t: return v
            if not isand and t: return v
        return v
    def e_UnaryOp(self, e, env):
        v = self.ev(e.operand, env)
        if isinstance(e.op, ast.Not):
            t = self.truth(v); return Sym(z3.Not(t.t), 'bool') if is_sym(t) else (not t)
        if isinstance(e.op, ast.USub):
            if is_sym(v): return Sym(-v.t, v.k)
            sp = self.lookup_special(v, '__neg__') if not isinstance(v, (int, float)) else None
            return self.call(sp, [v], {}) if sp else -v
        raise Unsupported('unary')
    def e_IfExp(self, e, env):
        return self.ev(e.body, env) if self.branch(self.truth(self.ev(e.test, env))) else self.ev(e.orelse, env)
    def e_BinOp(self, e, env): return self.binop(type(e.op), self.ev(e.left, env), self.ev(e.right, env))
    BIN = {ast.Add: ('__add__', '__radd__', pyop.add), ast.Sub: ('__sub__', '__rsub__', pyop.sub), ast.Mult: ('__mul__', '__rmul__', pyop.mul),
           ast.Div: ('__truediv__', '__rtruediv__', pyop.truediv), ast.Mod: ('__mod__', '__rmod__', pyop.mod), ast.Pow: ('__pow__', '__rpow__', pyop.pow),
           ast.BitAnd: ('__and__', '__rand__', pyop.and_), ast.BitOr: ('__or__', '__ror__', pyop.or_), ast.FloorDiv: ('__floordiv__', '__rfloordiv__', pyop.floordiv),
           ast.LShift: ('__lshift__', '__rlshift__', pyop.lshift)}
    def binop(self, op, a, b):
        d, r, nat = self.BIN[op]
        if is_sym(a) or is_sym(b):
            if not (is_prim(a) and is_prim(b)):
                # user object on one side
                obj, name, other = (b, r, a) if is_sym(a) or is_prim(a) else (a, d, b)
                f = self.lookup_special(obj, name)
                if f is None: raise RaiseEx(TypeError('binop'))
                return self.call(f, [obj, other], {})
            return sym_arith(op, lift(a), lift(b))
        if is_prim(a) and is_prim(b):
            try: return nat(a, b)
            except Exception as ex: raise RaiseEx(ex)
        f = self.lookup_special(a, d) if not is_prim(a) else None
        if f is not None: return self.call(f, [a, b], {})
        f = self.lookup_special(b, r) if not is_prim(b) else None
        if f is not None: return self.call(f, [b, a], {})
        try: return nat(a, b)
        except Exception as ex: raise RaiseEx(ex)
    CMP = {ast.Lt: ('__lt__', '__gt__'), ast.Gt: ('__gt__', '__lt__'), ast.LtE: ('__le__', '__ge__'), ast.GtE: ('__ge__', '__le__'), ast.Eq: ('__eq__', '__eq__'), ast.NotEq: ('__ne__', '__ne__')}
    def e_Compare(self, e, env):
        left = self.ev(e.left, env); res = True
        for op, rn in zip(e.ops, e.comparators):
            right = self.ev(rn, env)
            res = self.compare(type(op), left, right)
            if len(e.ops) > 1 and not self.branch(self.truth(res)): return res
            left = right
        return res
    def compare(self, op, a, b):
        if op is ast.Is: return a is b
        if op is ast.IsNot: return a is not b
        if op in (ast.In, ast.NotIn):
            if is_sym(b) and b.k == 'str': r = Sym(z3.Contains(b.t, lift(a).t), 'bool')
            elif isinstance(b, (tuple, list, set, dict)) and (is_sym(a) or has_sym(b)):
                r = False
                for x in b:
                    c = self.compare(ast.Eq, a, x)
                    if self.branch(self.truth(c)): r = True; break
            else: r = a in b
            if op is ast.NotIn: return Sym(z3.Not(r.t), 'bool') if is_sym(r) else (not r)
            return r
        if is_prim(a) and is_prim(b):
            if is_sym(a) or is_sym(b): return sym_cmp(op, a, b)
            try: return {ast.Lt: pyop.lt, ast.Gt: pyop.gt, ast.LtE: pyop.le, ast.GtE: pyop.ge, ast.Eq: pyop.eq, ast.NotEq: pyop.ne}[op](a, b)
            except Exception as ex: raise RaiseEx(ex)
        if isinstance(a, tuple) and isinstance(b, tuple): return self.tuple_cmp(op, a, b)
        d, r = self.CMP[op]
        f = self.lookup_special(a, d) if not is_prim(a) else None
        if f is not None:
            out = self.call(f, [a, b], {})
            if out is not NotImplemented: return out
        f = self.lookup_special(b, r) if not is_prim(b) else None
        if f is not None:
            out = self.call(f, [b, a], {})
            if out is not NotImplemented: return out
        if op is ast.Eq: return a is b
        if op is ast.NotEq: return a is not b
        raise RaiseEx(TypeError(f'unorderable {type(a)} {type(b)}'))
    def tuple_cmp(self, op, a, b):
        for x, y in zip(a, b):
            eq = self.compare(ast.Eq, x, y)
            if not self.branch(self.truth(eq)):
                if op is ast.Eq: return False
                if op is ast.NotEq: return True
                return self.compare(op, x, y)
        return {ast.Lt: pyop.lt, ast.Gt: pyop.gt, ast.LtE: pyop.le, ast.GtE: pyop.ge, ast.Eq: pyop.eq, ast.NotEq: pyop.ne}[op](len(a), len(b))
    def e_Subscript(self, e, env):
        o = self.ev(e.value, env)
        if isinstance(e.slice, ast.Slice):
            lo = self.ev(e.slice.lower, env) if e.slice.lower else None
            hi = self.ev(e.slice.upper, env) if e.slice.upper else None
            if e.slice.step: raise Unsupported('step')
            if is_sym(o) or is_sym(lo) or is_sym(hi): return sym_slice(lift(o), lo, hi)
            return o[lo:hi]
        i = self.ev(e.slice, env)
        if is_sym(o) or is_sym(i): raise Unsupported('sym index')
        try: return o[i]
        except Exception as ex: raise RaiseEx(ex)
    def e_ListComp(self, e, env):
        if len(e.generators) != 1: raise Unsupported('comp')
        g = e.generators[0]; out = []
        for x in list(self.ev(g.iter, env)):
            sub = Env({}, {}, None, parent=env, func=env.func)
            self.assign(g.target, x, sub)
            if all(self.branch(self.truth(self.ev(c, sub))) for c in g.ifs): out.append(self.ev(e.elt, sub))
        return out
    def e_Lambda(self, e, env): return InterpFunction(e, env, self, '<lambda>')

def sig_from_ast(node):
    a = node.args; P = inspect.Parameter; ps = []
    nd = len(a.defaults); npos = len(a.args)
    for i, x in enumerate(a.args):
        ps.append(P(x.arg, P.POSITIONAL_OR_KEYWORD, default=(P.empty if i < npos - nd else None)))
    if a.vararg: ps.append(P(a.vararg.arg, P.VAR_POSITIONAL))
    return inspect.Signature(ps)

class Env:
    def __init__(self, loc, clo, glob, parent=None, func=None): self.loc, self.clo, self.glob, self.parent, self.func = loc, clo, glob, parent, func
    def get(self, n):
        e = self
        while e is not None:
            if n in e.loc: return e.loc[n]
            if n in e.clo: return e.clo[n]
            if e.glob is not None and n in e.glob: return e.glob[n]
            e = e.parent
        if hasattr(builtins, n): return getattr(builtins, n)
        raise RaiseEx(NameError(n))
    def set(self, n, v): self.loc[n] = v
    def first_arg(self):
        e = self
        while e.func is None or isinstance(e.func, InterpFunction): e = e.parent
        return next(iter(e.loc.values()))
    def defining_class(self):
        e = self
        while e.func is None or isinstance(e.func, InterpFunction): e = e.parent
        qn = e.func.__qualname__.split('.')[:-1]
        o = sys.modules[e.func.__module__]
        for p in qn: o = getattr(o, p)
        return o

def is_prim(x): return is_sym(x) or isinstance(x, (int, float, str, bool))
def has_sym(x):
    if is_sym(x): return True
    if isinstance(x, (tuple, list)): return any(has_sym(y) for y in x)
    return False
def to_real(s): return z3.ToReal(s.t) if s.k == 'int' else s.t
def sym_arith(op, a, b):
    if a.k == 'str' and b.k == 'str' and op is ast.Add: return Sym(z3.Concat(a.t, b.t), 'str')
    if a.k == 'bool': a = Sym(z3.If(a.t, 1, 0), 'int')
    if b.k == 'bool': b = Sym(z3.If(b.t, 1, 0), 'int')
    if a.k == 'int' and b.k == 'int' and op in (ast.Add, ast.Sub, ast.Mult):
        return Sym({ast.Add: a.t + b.t, ast.Sub: a.t - b.t, ast.Mult: a.t * b.t}[op], 'int')
    x, y = to_real(a), to_real(b)
    if op is ast.Add: return Sym(x + y, 'real')
    if op is ast.Sub: return Sym(x - y, 'real')
    if op is ast.Mult: return Sym(x * y, 'real')
    if op is ast.Div: return Sym(x / y, 'real')
    raise Unsupported('arith')
def sym_cmp(op, a, b):
    a, b = lift(a), lift(b)
    if a.k == 'str' and b.k == 'str':
        x, y = a.t, b.t
        return Sym({ast.Lt: x < y, ast.LtE: x <= y, ast.Gt: y < x, ast.GtE: y <= x, ast.Eq: x == y, ast.NotEq: x != y}[op], 'bool')
    if (a.k == 'str') != (b.k == 'str'):
        if op is ast.Eq: return False
        if op is ast.NotEq: return True
        raise RaiseEx(TypeError('str vs num'))
    if a.k == 'bool' and b.k == 'bool' and op in (ast.Eq, ast.NotEq):
        return Sym(a.t == b.t if op is ast.Eq else a.t != b.t, 'bool')
    if a.k == 'bool': a = Sym(z3.If(a.t, 1, 0), 'int')
    if b.k == 'bool': b = Sym(z3.If(b.t, 1, 0), 'int')
    x, y = (a.t, b.t) if a.k == b.k else (to_real(a), to_real(b))
    return Sym({ast.Lt: x < y, ast.LtE: x <= y, ast.Gt: x > y, ast.GtE: x >= y, ast.Eq: x == y, ast.NotEq: x != y}[op], 'bool')
def clip(i, ln): return z3.If(i < 0, z3.If(i + ln < 0, 0, i + ln), z3.If(i > ln, ln, i))
def sym_slice(o, lo, hi):
    L = z3.Length(o.t)
    a = z3.IntVal(0) if lo is None else clip(lift(lo).t, L)
    b = L if hi is None else clip(lift(hi).t, L)
    return Sym(z3.If(b > a, z3.SubString(o.t, a, b - a), z3.StringVal('')), 'str')

STRNUM = z3.Function('py_str_num', z3.RealSort(), z3.StringSort())
UP = z3.Function('py_upper', z3.StringSort(), z3.StringSort())
class SymAttr:
    def __init__(self, o, attr): self.o, self.attr = o, attr
    def call(self, it, args, kwargs):
        if self.o.k == 'str' and self.attr == 'upper': return Sym(UP(self.o.t), 'str')
        if self.o.k == 'real' and self.attr == '__neg__': return Sym(-self.o.t, 'real')
        raise Unsupported(f'Sym method {self.attr}')

def m_isinstance(it, v, cls):
    if is_sym(v):
        pyt = {'int': int, 'real': float, 'bool': bool, 'str': str}[v.k]
        return isinstance(pyt(), cls) if pyt is not bool else isinstance(True, cls)
    return isinstance(v, cls)
def m_type(it, v):
    if is_sym(v): return {'int': int, 'real': float, 'bool': bool, 'str': str}[v.k]
    return type(v)
def m_len(it, v):
    if is_sym(v): return Sym(z3.Length(v.t), 'int')
    return len(v)
def m_str(it, v=''):
    if is_sym(v):
        if v.k == 'str': return v
        if v.k == 'bool': return Sym(z3.If(v.t, z3.StringVal('True'), z3.StringVal('False')), 'str')
        return Sym(STRNUM(to_real(v)), 'str')
    f = it.lookup_special(v, '__str__') if not is_prim(v) else None
    if f is not None and it.is_repo_func(f): return it.call(f, [v], {})
    return str(v)
def m_int(it, v, base=None):
    if is_sym(v):
        if v.k == 'int': return v
        if v.k == 'bool': return Sym(z3.If(v.t, 1, 0), 'int')
        if v.k == 'real':  # trunc toward zero
            t = v.t; return Sym(z3.If(t >= 0, z3.ToInt(t), -z3.ToInt(-t)), 'int')
        raise Unsupported('int(str)')
    f = it.lookup_special(v, '__int__') if not is_prim(v) else None
    if f is not None and it.is_repo_func(f): return it.call(f, [v], {})
    try: return int(v) if base is None else int(v, base)
    except Exception as ex: raise RaiseEx(ex)
def m_float(it, v):
    if is_sym(v):
        if v.k in ('int', 'real'): return Sym(to_real(v), 'real')
        raise Unsupported('float(str)')
    f = it.lookup_special(v, '__float__') if not is_prim(v) else None
    if f is not None and it.is_repo_func(f): return it.call(f, [v], {})
    try: return float(v)
    except Exception as ex: raise RaiseEx(ex)
def m_bool(it, v=False):
    t = it.truth(v); return t
def m_getattr(it, o, name, *d):
    try: return getattr(o, name, *d)
    except AttributeError as ex: raise RaiseEx(ex)
def m_tuple(it, v=()): return tuple(v)
def m_list(it, v=()): return list(v)
BUILTIN_MODELS = {isinstance: m_isinstance, type: m_type, len: m_len, str: m_str, int: m_int, float: m_float, bool: m_bool, getattr: m_getattr, tuple: m_tuple, list: m_list}

# ---------------------------------------------------------------- experiments
if __name__ == '__main__':
    import time
    sys.path.insert(0, REPO)
    import xlcalculator
    from xlcalculator.xlfunctions import text, operator as xop, func_xltypes as T, xlerrors
    def mk(cls, name):
        if cls is T.Text: v = Sym(z3.String(name), 'str')
        elif cls is T.Number: v = Sym(z3.Real(name), 'real')
        elif cls is T.Boolean: v = Sym(z3.Bool(name), 'bool')
        o = object.__new__(cls); o.value = v; return o
    # 1. RIGHT through validate_args
    t0 = time.time()
    it = Interp()
    s = mk(T.Text, 's'); n = Sym(z3.Int('n'), 'int')
    res = it.explore(lambda: it.call(text.RIGHT, [s, n], {}))
    print('RIGHT paths', len(res), round(time.time() - t0, 2))
    sv, nv = s.value.t, n.t
    L = z3.Length(sv); m = z3.If(nv > L, L, nv)
    spec = z3.SubString(sv, L - m, m)
    for pc, out in res:
        kind, v = out
        if kind == 'ret' and isinstance(v, T.Text):
            for hyp, label in ((nv >= 1, 'n>=1'), (nv >= 0, 'n>=0')):
                sol = z3.Solver(); sol.add(*pc); sol.add(hyp); sol.add(v.value.t != spec)
                r = sol.check(); print('  RIGHT', label, 'proved' if r == z3.unsat else (r, sol.model() if r == z3.sat else ''))
        else: print('  path outcome', kind, repr(v)[:100])
    # 2. OP_LT / OP_GT antisymmetry over class pairs
    for ca in (T.Number, T.Text, T.Boolean):
        for cb in (T.Number, T.Text, T.Boolean):
            t0 = time.time()
            def term(fn, x, y):
                it = Interp(); rs = it.explore(lambda: it.call(fn, [x, y], {}))
                acc = None; bad = []
                for pc, (k, v) in rs:
                    if k != 'ret' or not isinstance(v, T.Boolean): bad.append((k, repr(v)[:80])); continue
                    val = v.value.t if is_sym(v.value) else z3.BoolVal(v.value)
                    c = z3.And(*pc) if pc else z3.BoolVal(True)
                    acc = z3.And(c, val) if acc is None else z3.Or(acc, z3.And(c, val))
                return acc, bad, len(rs)
            a, b = mk(ca, 'a'), mk(cb, 'b')
            lt, bad1, n1 = term(xop.OP_LT, a, b); gt, bad2, n2 = term(xop.OP_GT, b, a)
            if bad1 or bad2 or lt is None or gt is None: print(ca.__name__, cb.__name__, 'non-boolean outcomes', bad1[:1], bad2[:1]); continue
            sol = z3.Solver(); sol.add(lt != gt); r = sol.check()
            print(f'a<b == b>a  {ca.__name__:8s}{cb.__name__:8s} paths {n1}+{n2}', 'proved' if r == z3.unsat else f'REFUTED {sol.model()}', round(time.time() - t0, 2))
