import z3, time
# 1. order laws over tagged values with strings; upper as uninterpreted fn
V = z3.Datatype('V')
V.declare('num', ('n', z3.RealSort()))
V.declare('txt', ('s', z3.StringSort()))
V.declare('boo', ('b', z3.BoolSort()))
V = V.create()
up = z3.Function('up', z3.StringSort(), z3.StringSort())
def prec(v): return z3.If(V.is_num(v), 0, z3.If(V.is_txt(v), 1, 2))
def b2i(b): return z3.If(b,1,0)
# sort-key comparison as the *intended* spec: (prec, value) lexicographic
def lt(a,b):
    return z3.Or(prec(a)<prec(b), z3.And(prec(a)==prec(b),
       z3.If(V.is_num(a), V.n(a)<V.n(b), z3.If(V.is_txt(a), up(V.s(a))<up(V.s(b)), b2i(V.b(a))<b2i(V.b(b))))))
def eq(a,b):
    return z3.And(prec(a)==prec(b),
       z3.If(V.is_num(a), V.n(a)==V.n(b), z3.If(V.is_txt(a), up(V.s(a))==up(V.s(b)), V.b(a)==V.b(b))))
a,b,c = z3.Consts('a b c', V)
def prove(name, f, to=20000):
    s=z3.Solver(); s.set('timeout',to); s.add(z3.Not(f)); t=time.time(); r=s.check(); print(name, 'proved' if r==z3.unsat else r, round(time.time()-t,2))
    if r==z3.sat: print(s.model())
ex1 = lambda x,y,z: z3.Or(z3.And(x,z3.Not(y),z3.Not(z)), z3.And(z3.Not(x),y,z3.Not(z)), z3.And(z3.Not(x),z3.Not(y),z))
prove('trichotomy', ex1(lt(a,b), eq(a,b), lt(b,a)))
prove('transitive', z3.Implies(z3.And(lt(a,b), lt(b,c)), lt(a,c)))
# the real Text.__lt__: self.value.upper() < str(other).upper() regardless of type -> asymmetry
strof = z3.Function('strof', V, z3.StringSort())
def real_lt(a,b):  # dispatch on left class
    return z3.If(V.is_txt(a), up(V.s(a)) < up(z3.If(V.is_txt(b), V.s(b), strof(b))), lt(a,b))
def real_gt(a,b):
    return z3.If(V.is_txt(a), up(V.s(a)) > up(z3.If(V.is_txt(b), V.s(b), strof(b))), lt(b,a))
prove('real a<b == b>a', real_lt(a,b) == real_gt(b,a))
