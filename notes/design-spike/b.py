import z3, time
S=z3.StringSort()
def prove(name, f, hyp=[], to=30000):
    s=z3.Solver(); s.set('timeout',to); s.add(*hyp); s.add(z3.Not(f)); t=time.time(); r=s.check(); print(name, 'proved' if r==z3.unsat else r, round(time.time()-t,2))
    if r==z3.sat: print('   ', s.model())
    return r
s,t_=z3.Strings('s t'); n,p,k=z3.Ints('n p k')
L=z3.Length
def clip(i, ln):  # python slice index normalisation for start/stop
    return z3.If(i<0, z3.If(i+ln<0, 0, i+ln), z3.If(i>ln, ln, i))
def pyslice(x, lo, hi):  # x[lo:hi] with python semantics; lo/hi may be None => pass explicit
    a=clip(lo,L(x)); b=clip(hi,L(x))
    return z3.If(b>a, z3.SubString(x,a,b-a), z3.StringVal(''))
def left(x,n): return pyslice(x, z3.IntVal(0), n)          # str(text)[:int(n)]
def right(x,n): return pyslice(x, -n, L(x))                  # str(text)[-int(n):]  (stop None == len)
def mid(x,p,k): return pyslice(x, p-1, p-1+k)
# spec
def sleft(x,n): return z3.SubString(x,0,z3.If(n>L(x),L(x),n))
def sright(x,n): 
    m=z3.If(n>L(x),L(x),n); return z3.SubString(x,L(x)-m,m)
prove('LEFT==spec n>=0', left(s,n)==sleft(s,n), [n>=0])
prove('RIGHT==spec n>=1', right(s,n)==sright(s,n), [n>=1])
prove('RIGHT==spec n>=0 (expect cex n=0)', right(s,n)==sright(s,n), [n>=0])
prove('LEFT&RIGHT=s', z3.Concat(left(s,n), right(s,L(s)-n))==s, [n>=0,n<L(s)])
prove('MID(s,1,n)=LEFT(s,n)', mid(s,1,n)==left(s,n), [n>=0])
prove('LEN(a&b)', L(z3.Concat(s,t_))==L(s)+L(t_))
# REPLACE spec: LEFT(s,p-1)&t&MID(s,p+k,LEN(s))
spec_rep = z3.Concat(left(s,p-1), t_, mid(s,p+k,L(s)))
real_rep = z3.Replace(s, pyslice(s,p-1,p-1+k), t_)   # python str.replace replaces ALL; z3 Replace = first only
prove('REPLACE first-occurrence model vs spec (expect cex)', real_rep==spec_rep, [p>=1,k>=0])
# FIND
def find(tx, w, st): # index(find, start)+1 ; start = st-1 if st>0 else st
    st0 = z3.If(st>0, st-1, st)
    return z3.IndexOf(w, tx, clip(st0, L(w)))+1
r=z3.Int('r')
prove('FIND first position >= p', z3.Implies(z3.And(find(t_,s,p)==r, r>0), z3.And(r>=p, z3.SubString(s,r-1,L(t_))==t_)), [p>=1, p<=L(s)])
