"""Spike 3: DEC2HEX / HEX2DEC through the real validate_args + convert_bases + conversion."""
from spike import *
import spike
FMT = {hex: z3.Function('fmt16', z3.IntSort(), z3.StringSort()), oct: z3.Function('fmt8', z3.IntSort(), z3.StringSort()), bin: z3.Function('fmt2', z3.IntSort(), z3.StringSort())}
PFX = {hex: '0x', oct: '0o', bin: '0b'}
for f in (hex, oct, bin):
    BUILTIN_MODELS[f] = (lambda f: lambda it, v: Sym(z3.Concat(z3.StringVal(PFX[f]), FMT[f](lift(v).t)), 'str') if is_sym(v) else f(v))(f)
PARSE = z3.Function('parse', z3.StringSort(), z3.IntSort(), z3.IntSort())
_m_int = BUILTIN_MODELS[int]
def m_int2(it, v, base=None):
    if is_sym(v) and v.k == 'str': return Sym(PARSE(v.t, z3.IntVal(base or 10)), 'int')
    return _m_int(it, v, base)
BUILTIN_MODELS[int] = m_int2
ZFILL = z3.Function('zfill', z3.StringSort(), z3.IntSort(), z3.StringSort())
_sa = SymAttr.call
def sa(self, it, args, kwargs):
    if self.o.k == 'str' and self.attr == 'zfill': return Sym(ZFILL(self.o.t, lift(args[0]).t), 'str')
    if self.o.k == 'real' and self.attr == 'is_integer': return Sym(z3.IsInt(self.o.t), 'bool')
    return _sa(self, it, args, kwargs)
SymAttr.call = sa
# bit ops on Sym ints with concrete power-of-two masks
import operator as pyop
_sym_arith = spike.sym_arith
def sym_arith2(op, a, b):
    if op is ast.BitAnd and a.k == 'int' and b.k == 'int' and z3.is_int_value(z3.simplify(b.t)):
        m = z3.simplify(b.t).as_long()
        if m > 0 and m & (m - 1) == 0:      # single bit
            return Sym(z3.If((a.t / m) % 2 == 1, m, 0), 'int')
        if m < 0 and (~m) & ((~m) - 1) == 0:   # ~single bit
            k = ~m; return Sym(a.t - z3.If((a.t / k) % 2 == 1, k, 0), 'int')
    return _sym_arith(op, a, b)
spike.sym_arith = sym_arith2
_unary = Interp.e_UnaryOp
def e_UnaryOp(self, e, env):
    if isinstance(e.op, ast.Invert):
        v = self.ev(e.operand, env)
        return Sym(-v.t - 1, 'int') if is_sym(v) else ~v
    return _unary(self, e, env)
Interp.e_UnaryOp = e_UnaryOp
def m_set(it, v=()):
    if is_sym(v): raise Unsupported('set(Sym str)')
    return set(v)
BUILTIN_MODELS[set] = m_set

if __name__ == '__main__':
    import time
    sys.path.insert(0, REPO)
    import xlcalculator
    from xlcalculator.xlfunctions import engineering as E, func_xltypes as T, xlerrors
    v = z3.Int('v')
    num = object.__new__(T.Number); num.value = Sym(v, 'int')
    for fn, W, B in ((E.DEC2HEX, 40, 39), (E.DEC2OCT, 30, 29), (E.DEC2BIN, 10, 9)):
        t0 = time.time(); it = Interp()
        res = it.explore(lambda: it.call(fn, [num], {}))
        dst = {E.DEC2HEX: hex, E.DEC2OCT: oct, E.DEC2BIN: bin}[fn]
        wrap = z3.If(v < 0, v + 2**W, v)
        spec_txt = UP(z3.SubString(z3.Concat(z3.StringVal(PFX[dst]), FMT[dst](wrap)), 2, z3.Length(FMT[dst](wrap))))
        ok = True; kinds = []
        for pc, (k, out) in res:
            inwin = z3.And(v >= -2**B, v < 2**B)
            s = z3.Solver(); s.add(*pc)
            if k == 'ret' and isinstance(out, xlerrors.NumExcelError):
                s.add(inwin); r = s.check(); kinds.append(('#NUM', str(r)))         # error only outside the window
                ok &= (r == z3.unsat)
            elif k == 'ret' and isinstance(out, T.Text):
                s.push(); s.add(z3.Not(inwin)); r1 = s.check(); s.pop()              # text only inside the window
                s.add(out.value.t != spec_txt); r2 = s.check(); kinds.append(('Text', str(r1), str(r2)))
                ok &= (r1 == z3.unsat and r2 == z3.unsat)
            else:
                kinds.append((k, repr(out)[:80])); ok = False
        print(fn.__name__, 'paths', len(res), kinds, 'PROVED' if ok else 'NOT PROVED', round(time.time() - t0, 2))
