"""Spike 2: loop cut + closures + opaque objects: index safety of tokenizer.getTokens main loop body."""
from spike import *
import re, itertools

class Opaque:
    def __init__(self, name): object.__setattr__(self, '_n', name)
    def __repr__(self): return f'<Opaque {self._n}>'
class OpaqueMethod:
    def __init__(self, o, name): self.o, self.name = o, name
_fresh = itertools.count()
def fresh(kind, hint='h'):
    n = f'{hint}!{next(_fresh)}'
    return Sym({'str': z3.String, 'int': z3.Int, 'bool': z3.Bool, 'real': z3.Real}[kind](n), kind)

_e_Attribute = Interp.e_Attribute
def e_Attribute(self, e, env):
    o = self.ev(e.value, env)
    if isinstance(o, Opaque): return OpaqueMethod(o, e.attr)
    if is_sym(o): return SymAttr(o, e.attr)
    if isinstance(o, str) and e.attr == 'find': return StrFind(o)
    return _e_Attribute(self, e, env)
Interp.e_Attribute = e_Attribute
class StrFind:
    def __init__(self, s): self.s = s
_call0 = Interp._call
def _call(self, f, args, kwargs):
    if isinstance(f, OpaqueMethod):
        if f.name in ('type', 'value', 'subtype'): return fresh('str', f.name)
        return Opaque(f.name)
    if isinstance(f, StrFind):
        return Sym(z3.IndexOf(z3.StringVal(f.s), lift(args[0]).t, 0), 'int')
    if f is re.match: return fresh('bool', 'rematch')
    return _call0(self, f, args, kwargs)
Interp._call = _call
_SymAttr_call = SymAttr.call
def symattr_call(self, it, args, kwargs):
    if self.o.k == 'str' and self.attr == 'find': return Sym(z3.IndexOf(self.o.t, lift(args[0]).t, 0), 'int')
    return _SymAttr_call(self, it, args, kwargs)
SymAttr.call = symattr_call

def e_Subscript(self, e, env):
    o = self.ev(e.value, env)
    if isinstance(e.slice, ast.Slice):
        lo = self.ev(e.slice.lower, env) if e.slice.lower else None
        hi = self.ev(e.slice.upper, env) if e.slice.upper else None
        if is_sym(o) or is_sym(lo) or is_sym(hi): return sym_slice(lift(o), lo, hi)
        return o[lo:hi]
    i = self.ev(e.slice, env)
    if is_sym(o) and o.k == 'str':
        i = lift(i); L = z3.Length(o.t)
        if self.branch(Sym(z3.And(i.t >= -L, i.t < L), 'bool')):
            return Sym(z3.SubString(o.t, z3.If(i.t < 0, i.t + L, i.t), 1), 'str')
        raise RaiseEx(IndexError('string index out of range'))
    try: return o[i]
    except Exception as ex: raise RaiseEx(ex)
Interp.e_Subscript = e_Subscript

class LoopCutDone(Exception): pass
def assigned_names(stmts):
    out = set()
    for s in stmts:
        for n in ast.walk(s):
            if isinstance(n, (ast.Assign, ast.AugAssign)):
                for t in (n.targets if isinstance(n, ast.Assign) else [n.target]):
                    if isinstance(t, ast.Name): out.add(t.id)
    return out
def s_While(self, s, env):
    # generic cut: havoc assigned names, assume invariant, evaluate guard, run body once, check invariant, stop path
    inv = self.invariant
    if not self.check_inv(inv(env), 'inv-on-entry'): pass
    for n in assigned_names(s.body):
        cur = env.get(n)
        if is_sym(cur) or isinstance(cur, (int, str, bool)):
            env.set_existing(n, fresh(lift(cur).k, n))
    self.path.pc.append(inv(env))
    if self.branch(self.truth(self.ev(s.test, env))):
        try: self.block(s.body, env)
        except ContinueEx: pass
        except BreakEx: return
        self.check_inv(inv(env), 'inv-preserved')
        raise PathDead()
    # exit: continue after loop with havoc'd state
def check_inv(self, f, label):
    sol = z3.Solver(); sol.add(*self.path.pc); sol.add(z3.Not(f))
    r = sol.check()
    self.obl.append((label, r, sol.model() if r == z3.sat else None))
    return r == z3.unsat
Interp.s_While = s_While; Interp.check_inv = check_inv
def set_existing(self, n, v):
    e = self
    while e is not None:
        if n in e.loc: e.loc[n] = v; return
        e = e.parent
    self.loc[n] = v
Env.set_existing = set_existing

if __name__ == '__main__':
    import time
    sys.path.insert(0, REPO)
    from xlcalculator import tokenizer
    fn = tokenizer.ExcelParser.getTokens
    node = func_ast(fn)
    main = [n for n in node.body if isinstance(n, ast.While)][1]      # loop ordinal 1: `while not EOF()`
    print('loop header:', ast.unparse(main.test), 'body stmts', len(main.body))
    t0 = time.time()
    it = Interp(); it.obl = []
    F = z3.String('formula')
    def inv(env): 
        off = lift(env.get('offset')).t
        return z3.And(off >= 0, off <= z3.Length(lift(env.get('formula')).t))
    it.invariant = inv
    def run():
        parser = tokenizer.ExcelParser()
        env = Env({'self': parser, 'formula': Sym(F, 'str')}, {}, fn.__globals__, func=fn)
        for st in node.body:                      # define the closures by interpreting the real FunctionDefs
            if isinstance(st, ast.FunctionDef): it.stmt(st, env)
        env.set('tokens', Opaque('tokens')); env.set('tokenStack', Opaque('tokenStack'))
        env.set('offset', Sym(z3.Int('offset'), 'int')); env.set('token', Sym(z3.String('token'), 'str'))
        for b in ('inString', 'inPath', 'inRange', 'inError'): env.set(b, Sym(z3.Bool(b), 'bool'))
        it.path.pc.append(inv(env))
        if not it.branch(it.truth(it.ev(main.test, env))): return 'exit'
        try: it.block(main.body, env)
        except ContinueEx: pass
        ok = it.check_inv(inv(env), 'main-inv-preserved')
        return 'iter-ok' if ok else 'iter-INV-BROKEN'
    res = it.explore(run)
    from collections import Counter
    c = Counter()
    for pc, (k, v) in res:
        c[(k, type(v).__name__ if k == 'raise' else str(v)[:60])] += 1
    print('paths', len(res), 'time', round(time.time() - t0, 1))
    for k, v in c.items(): print('  ', v, k)
    for pc, (k, v) in res:
        if k == 'raise':
            sol = z3.Solver(); sol.add(*pc); sol.check(); m = sol.model()
            print('  COUNTEREXAMPLE', type(v).__name__, 'formula=', m.eval(F, True), 'offset=', m[z3.Int('offset')], 'flags', [ (b, m[z3.Bool(b)]) for b in ('inString','inPath','inRange','inError')]); break
    print('obligations', Counter((l, str(r)) for l, r, m in it.obl))
