import z3, subprocess, time
s,t_=z3.Strings('s t'); p,r=z3.Ints('p r')
L=z3.Length
st0=p-1
f = z3.IndexOf(s, t_, st0)+1
goal = z3.Implies(z3.And(f==r, r>0), z3.And(r>=p, z3.SubString(s,r-1,L(t_))==t_))
sol=z3.Solver(); sol.add(p>=1, p<=L(s), z3.Not(goal))
smt = "(set-logic ALL)\n"+sol.to_smt2()
open('/tmp/proto/find.smt2','w').write(smt)
for cmd in (['cvc5','--strings-exp','--tlimit=30000','/tmp/proto/find.smt2'],['z3-new','-T:30','/tmp/proto/find.smt2']):
    t=time.time(); o=subprocess.run(cmd,capture_output=True,text=True); print(cmd[0], o.stdout.strip()[:80], o.stderr.strip()[:80], round(time.time()-t,1))
# minimality: no earlier occurrence at j in [p, r)
j=z3.Int('j')
goal2 = z3.Implies(z3.And(f==r, r>0, j>=p, j<r), z3.SubString(s,j-1,L(t_))!=t_)
sol=z3.Solver(); sol.add(p>=1, p<=L(s), L(t_)>=1, z3.Not(goal2))
open('/tmp/proto/find2.smt2','w').write("(set-logic ALL)\n"+sol.to_smt2())
for cmd in (['cvc5','--strings-exp','--tlimit=30000','/tmp/proto/find2.smt2'],['z3-new','-T:30','/tmp/proto/find2.smt2']):
    t=time.time(); o=subprocess.run(cmd,capture_output=True,text=True); print(cmd[0], o.stdout.strip()[:80], o.stderr.strip()[:80], round(time.time()-t,1))
