import z3, time
def prove(name, f, hyp=[], to=30000):
    s=z3.Solver(); s.set('timeout',to); s.add(*hyp); s.add(z3.Not(f)); t=time.time(); r=s.check(); print(name, 'proved' if r==z3.unsat else r, round(time.time()-t,2))
    if r==z3.sat: print('   ', s.model())
# python ints as Int; & with mask = 2^(W-1) on as_int in [0,2^W): model via div/mod (exact)
v,a=z3.Ints('v a')
for W in (10,30,40):
    M=2**(W-1)
    band_mask = z3.If((a/ M)%2==1, M, 0)        # a & mask   (a>=0)
    band_nmask = a - band_mask                  # a & ~mask
    unwrap = band_nmask - band_mask
    wrap = z3.If(v<0, v+2**W, v)
    prove(f'unwrap(wrap(v))==v W={W}', z3.substitute(unwrap,(a,wrap))==v, [v>=-M, v<M])
    prove(f'wrap(unwrap(a))==a W={W}', z3.substitute(wrap,(v,unwrap))==a, [a>=0, a<2**W])
    prove(f'unwrap range W={W}', z3.And(unwrap>=-M, unwrap<M), [a>=0, a<2**W])
# BV variant: exact python semantics for & ~ on BV64 with no-overflow side conditions
x=z3.BitVec('x',64)
W=40; mask=z3.BitVecVal(1<<(W-1),64)
val=(x & ~mask) - (x & mask)
y=z3.BitVec('y',64)
prove('BV unwrap∘wrap W=40', z3.substitute(val,(x, z3.If(y<0, y+(1<<W), y)))==y, [y>=-(1<<(W-1)), y<(1<<(W-1))])
# num2col / col2num loop invariants (nonlinear 26**i) — check z3 can do inductive step with ghost power p
q,r,acc,pw,n=z3.Ints('q r acc pw n')
# invariant: n == q*pw + acc_val where acc_val = col2num(s) and pw = 26**len(s), 0<=? ; step: (q',r)=divmod(q,26); if r==0: q'-=1; r=26 ; s' = chr(r)+s => acc' = r*pw+acc ; pw'=26*pw
q2=z3.If(q%26==0, q/26-1, q/26); r2=z3.If(q%26==0, 26, q%26)
prove('num2col inv step', n==q2*(26*pw)+(r2*pw+acc), [n==q*pw+acc, q>0, pw>=1])
prove('num2col digits range', z3.And(r2>=1,r2<=26,q2>=0,q2<q), [q>0])
