"""known_findings.json: genuine defects of /repo that are recorded rather than repaired (DESIGN.md section 4).

An entry names the obligation (unit id, or driver id) and a *region*: a Python expression over the obligation's
input names.  For units the region is (a) conjoined negated to `requires` of the proof obligation (carve-out
re-check: everything outside the region must still be proved), (b) evaluated on concrete inputs by the bounded
layer to classify a failing input.  The file is committed and never written at run time.
"""
import json
import os

ROOT = os.path.dirname(os.path.dirname(os.path.abspath(__file__)))
PATH = os.path.join(ROOT, 'known_findings.json')


def load():
    if not os.path.exists(PATH):
        return {'findings': [], 'fixed': []}
    with open(PATH) as f:
        return json.load(f)


def _namespace():
    from . import spec, sym as S
    from xlcalculator.xlfunctions import func_xltypes, xlerrors
    ns = dict(spec=spec, S=S, And=S.And, Or=S.Or, Not=S.Not, Implies=S.Implies, Ite=S.Ite, T=func_xltypes,
              E=xlerrors, isinstance=isinstance, len=S.length, length=S.length)
    return ns


def compile_region(expr, names):
    ns = _namespace()
    code = compile(expr, '<known-finding region>', 'eval')

    def fn(*args):
        env = dict(ns)
        env.update(dict(zip(names, args)))
        return eval(code, env)          # noqa: S307 - committed file, not run-time input
    return fn


def attach_regions(units):
    kf = load()
    by = {}
    for e in kf.get('findings', []):
        if e.get('kind', 'unit') == 'unit':
            by.setdefault(e['obligation'], []).append(e)
    for u in units:
        regs = []
        for e in by.get(u.id, []):
            names = [n for n, _ in u.inputs]
            try:
                regs.append(dict(id=e['id'], fn=compile_region(e['region'], names), region=e['region'], entry=e))
            except Exception as ex:
                regs.append(dict(id=e['id'], fn=None, region=e['region'], entry=e, error=str(ex)))
        u.kf_regions = regs


def case_region(entry):
    """for driver-level findings: predicate over the case dict"""
    ns = _namespace()
    code = compile(entry['region'], '<known-finding region>', 'eval')

    def fn(case):
        env = dict(ns)
        env.update(case if isinstance(case, dict) else {'case': case})
        env['case'] = case
        import re
        env['re'] = re
        try:
            return bool(eval(code, env))     # noqa: S307
        except Exception:
            return False
    return fn


def driver_regions(driver_id):
    out = []
    for e in load().get('findings', []):
        if e.get('kind') == 'driver' and e['obligation'] == driver_id:
            out.append(dict(id=e['id'], fn=case_region(e), entry=e))
    return out
