"""Discharge of one verification condition: z3 (python API) first, then /usr/bin/cvc5 and the z3-new CLI with a
different seed for anything z3 leaves `unknown` (DESIGN.md section 2.5)."""
import os
import subprocess
import tempfile
import time

import z3

CVC5 = '/usr/bin/cvc5'
Z3CLI = 'z3-new'


class Result:
    __slots__ = ('status', 'backend', 'time_s', 'model', 'solver', 'detail')

    def __init__(self, status, backend, time_s, model=None, solver=None, detail=''):
        self.status, self.backend, self.time_s, self.model, self.solver, self.detail = \
            status, backend, time_s, model, solver, detail


def _smt2(assertions):
    s = z3.Solver()
    s.add(*assertions)
    txt = s.to_smt2()
    return '(set-logic ALL)\n' + txt


def _run_cli(cmd, smt, timeout_s):
    with tempfile.NamedTemporaryFile('w', suffix='.smt2', dir=os.environ.get('PYVC_TMP', None), delete=False) as f:
        f.write(smt)
        fn = f.name
    try:
        p = subprocess.run(cmd + [fn], capture_output=True, text=True, timeout=timeout_s + 5)
        out = (p.stdout or '').strip().splitlines()
        return out[0].strip() if out else 'unknown'
    except subprocess.TimeoutExpired:
        return 'unknown'
    finally:
        try:
            os.unlink(fn)
        except OSError:
            pass


def solve(assertions, timeout_ms=10000, want_model=True, other_backends=True, seed=0):
    """-> Result(status in {'unsat','sat','unknown'})"""
    t0 = time.time()
    s = z3.Solver()
    s.set('timeout', timeout_ms)
    if seed:
        s.set('random_seed', seed)
    s.add(*assertions)
    r = s.check()
    if r == z3.unsat:
        return Result('unsat', 'z3', time.time() - t0, solver=s)
    if r == z3.sat:
        return Result('sat', 'z3', time.time() - t0, model=s.model(), solver=s)
    if not other_backends:
        return Result('unknown', 'z3', time.time() - t0, detail=s.reason_unknown())
    smt = _smt2(assertions)
    if os.environ.get('PYVC_DUMP'):
        with open(os.path.join(os.environ['PYVC_DUMP'], f'q{int(time.time()*1000)}.smt2'), 'w') as f:
            f.write(smt)
    to = max(5, timeout_ms // 1000 * 2)
    r2 = _run_cli([CVC5, '--strings-exp', f'--tlimit={to * 1000}'], smt, to)
    if r2 == 'unsat':
        return Result('unsat', 'cvc5', time.time() - t0)
    r3 = _run_cli([Z3CLI, 'smt.random_seed=7', f'-T:{to}'], smt, to)
    if r3 == 'unsat':
        return Result('unsat', 'z3-new(seed 7)', time.time() - t0)
    if r2 == 'sat' or r3 == 'sat':
        # a model is needed for replay: retry the API with another seed and a longer budget
        s2 = z3.Solver()
        s2.set('timeout', timeout_ms * 2)
        s2.set('random_seed', 11)
        s2.add(*assertions)
        if s2.check() == z3.sat:
            return Result('sat', 'z3(seed 11)', time.time() - t0, model=s2.model(), solver=s2)
        return Result('unknown', 'cvc5/z3-new', time.time() - t0,
                      detail='sat reported by a CLI back end but no model obtained through the API')
    return Result('unknown', 'z3+cvc5+z3-new', time.time() - t0, detail=f'z3:{s.reason_unknown()} cvc5:{r2} z3-new:{r3}')
