"""Symbolic model of decimal.Decimal as used by xlfunctions/math.py: exact arithmetic over the reals.

`Decimal(str(x))` of a float is the real number x (assumption A-float: the shortest decimal rendering of a double is
identified with the double), `a / b`, `a * b`, `to_integral_value(rounding=...)`, `round(d, n)` under the rounding mode of
the innermost `decimal.localcontext()` and `float(d)` are exact: the seven rounding modes are encoded with floor / ceiling
of a real.  Precision (`prec`) is ignored - the repository sets it to 400 digits precisely so that it never matters.
"""
import ast
import decimal as _dec
import fractions

import z3

from .sym import Sym, Unsupported, is_sym, lift, to_real, Ite
from . import sym as S
from .interp import SymObject, RaiseEx
from . import models as M

CTX_STACK = []


class ModelContext:
    """what `decimal.localcontext()` hands out: the rounding mode is read by round() / to_integral_value()"""

    def __init__(self):
        object.__setattr__(self, '_real_cm', None)
        object.__setattr__(self, '_real', None)
        object.__setattr__(self, 'rounding', _dec.ROUND_HALF_EVEN)
        object.__setattr__(self, 'prec', 28)

    def __setattr__(self, name, value):
        object.__setattr__(self, name, value)
        if self._real is not None and name in ('rounding', 'prec'):
            setattr(self._real, name, value)          # concrete Decimals computed inside the block see the same context

    def __enter__(self):
        CTX_STACK.append(self)
        object.__setattr__(self, '_real_cm', _dec.localcontext())
        object.__setattr__(self, '_real', self._real_cm.__enter__())
        return self

    def __exit__(self, *a):
        if CTX_STACK and CTX_STACK[-1] is self:
            CTX_STACK.pop()
        if self._real_cm is not None:
            self._real_cm.__exit__(None, None, None)
        return False


def current_rounding():
    return CTX_STACK[-1].rounding if CTX_STACK else _dec.ROUND_HALF_EVEN


def _floor(y):
    return z3.ToReal(z3.ToInt(y))


def _ceil(y):
    return -z3.ToReal(z3.ToInt(-y))


def round_real(y, mode):
    """the integer (as a real term) that `mode` rounds the real term y to"""
    half = z3.RealVal('1/2')
    if mode == _dec.ROUND_CEILING:
        return _ceil(y)
    if mode == _dec.ROUND_FLOOR:
        return _floor(y)
    if mode == _dec.ROUND_DOWN:
        return z3.If(y >= 0, _floor(y), _ceil(y))
    if mode == _dec.ROUND_UP:
        return z3.If(y >= 0, _ceil(y), _floor(y))
    if mode == _dec.ROUND_HALF_UP:
        return z3.If(y >= 0, _floor(y + half), _ceil(y - half))
    if mode == _dec.ROUND_HALF_DOWN:
        return z3.If(y >= 0, _ceil(y - half), _floor(y + half))
    if mode == _dec.ROUND_HALF_EVEN:
        f = _floor(y)
        d = y - f
        even = z3.ToInt(f) % 2 == 0
        return z3.If(d < half, f, z3.If(d > half, f + 1, z3.If(even, f, f + 1)))
    raise Unsupported(f'decimal rounding mode {mode}')


def _as_real(x):
    if isinstance(x, SymDecimal):
        return x.t
    if isinstance(x, _dec.Decimal):
        fr = fractions.Fraction(x)
        return z3.RealVal(f'{fr.numerator}/{fr.denominator}')
    if is_sym(x):
        return to_real(x)
    if isinstance(x, bool) or not isinstance(x, int):
        raise RaiseEx(TypeError('unsupported operand type(s) for Decimal'))
    return z3.RealVal(x)


class SymDecimal(SymObject):
    py_type = _dec.Decimal

    def __init__(self, t):
        self.t = t                                 # a z3 real term

    def __repr__(self):
        return f'<SymDecimal {self.t}>'

    def binop(self, it, op, other, reflected):
        a, b = (_as_real(other), self.t) if reflected else (self.t, _as_real(other))
        if op is ast.Add:
            return SymDecimal(a + b)
        if op is ast.Sub:
            return SymDecimal(a - b)
        if op is ast.Mult:
            return SymDecimal(a * b)
        if op is ast.Div:
            if it.branch(Sym(b == 0, 'bool')):
                raise RaiseEx(_dec.DivisionByZero())
            return SymDecimal(a / b)
        raise Unsupported(f'Decimal operator {op.__name__}')

    def compare(self, it, op, other):
        return S.cmp(op, Sym(self.t, 'real'), Sym(_as_real(other), 'real'))

    def m_to_integral_value(self, it, rounding=None, context=None):
        return SymDecimal(round_real(self.t, rounding if rounding is not None else current_rounding()))

    m_to_integral = m_to_integral_value

    def m___round__(self, it, n=None):
        mode = current_rounding()
        if n is None:
            return Sym(z3.ToInt(round_real(self.t, _dec.ROUND_HALF_EVEN)), 'int')
        if is_sym(n):
            raise Unsupported('round(Decimal, n) with a symbolic digit count')
        scale = fractions.Fraction(10) ** int(n)
        sc = z3.RealVal(f'{scale.numerator}/{scale.denominator}')
        return SymDecimal(round_real(self.t * sc, mode) / sc)

    def m___float__(self, it):
        return Sym(self.t, 'real')

    def m___neg__(self, it):
        return SymDecimal(-self.t)

    def m___abs__(self, it):
        return SymDecimal(z3.If(self.t >= 0, self.t, -self.t))


def m_decimal(it, value='0', context=None):
    """decimal.Decimal(x)"""
    if isinstance(value, SymDecimal):
        return value
    if is_sym(value):
        if value.k in ('int', 'real', 'bool'):
            return SymDecimal(to_real(value))
        t = value.t
        if z3.is_app(t) and t.decl().name() in ('py_str_float', 'py_str_int') and t.num_args() == 1:
            a = t.arg(0)
            return SymDecimal(z3.ToReal(a) if a.sort() == z3.IntSort() else a)      # Decimal(str(x)) is x (A-float)
        raise Unsupported('Decimal() of a symbolic text that is not str(number)')
    return it.native(_dec.Decimal, [value], {})


M.CLASS_MODELS[_dec.Decimal] = m_decimal
M.BUILTIN_MODELS[_dec.localcontext] = lambda it, ctx=None, **kw: ModelContext()
