"""Symbolic leaves and the SMT encoding of Python scalar semantics (DESIGN.md section 2.4).

A `Sym` carries a z3 term and a *kind* naming the Python type it stands for:

    'int'   Python int          -> Int (unbounded, exact)
    'real'  Python float        -> Real (machine arithmetic treated as mathematical: ASSUMPTION A-float)
    'bool'  Python bool         -> Bool
    'str'   Python str          -> String (Seq of code points)

Everything that ordinary Python would do with such a value *natively* (truth test, str(), hashing into a
dict, iteration ...) raises `SymLeak`: a symbolic leaf that escapes into uninterpreted native code can never
silently produce a wrong concrete answer; the path is reported `unsupported` instead.
Arithmetic / comparison operators are defined so that contract clauses can be written in ordinary Python
syntax; they build terms through the same functions the interpreter uses for the real code.
"""
import ast
import fractions
import itertools
import z3


class Unsupported(Exception):
    """The interpreter met a construct outside its subset: the *path* is undecided, never a violation."""


class SymLeak(Unsupported):
    pass


KINDS = ('int', 'real', 'bool', 'str')
PYTYPE = {'int': int, 'real': float, 'bool': bool, 'str': str}
_fresh = itertools.count()


def _leak(name):
    def f(self, *a, **k):
        raise SymLeak(f'symbolic value used natively via {name}: {self!r}')
    f.__name__ = name
    return f


class Sym:
    __slots__ = ('t', 'k')

    def __init__(self, t, k):
        assert k in KINDS, k
        self.t, self.k = t, k

    def __repr__(self):
        return f'Sym<{self.k}:{self.t}>'

    # ---- native uses are leaks
    __bool__ = _leak('__bool__')
    __str__ = _leak('__str__')
    __int__ = _leak('__int__')
    __float__ = _leak('__float__')
    __index__ = _leak('__index__')
    __len__ = _leak('__len__')
    __iter__ = _leak('__iter__')
    __format__ = _leak('__format__')
    __contains__ = _leak('__contains__')

    def __hash__(self):
        return id(self)

    # ---- operator sugar for contract clauses (same encoders as the interpreter)
    def __add__(self, o): return arith(ast.Add, self, o)
    def __radd__(self, o): return arith(ast.Add, o, self)
    def __sub__(self, o): return arith(ast.Sub, self, o)
    def __rsub__(self, o): return arith(ast.Sub, o, self)
    def __mul__(self, o): return arith(ast.Mult, self, o)
    def __rmul__(self, o): return arith(ast.Mult, o, self)
    def __truediv__(self, o): return arith(ast.Div, self, o)
    def __rtruediv__(self, o): return arith(ast.Div, o, self)
    def __mod__(self, o): return arith(ast.Mod, self, o)
    def __floordiv__(self, o): return arith(ast.FloorDiv, self, o)
    def __neg__(self): return arith(ast.Sub, 0, self)
    def __lt__(self, o): return cmp(ast.Lt, self, o)
    def __le__(self, o): return cmp(ast.LtE, self, o)
    def __gt__(self, o): return cmp(ast.Gt, self, o)
    def __ge__(self, o): return cmp(ast.GtE, self, o)
    def __eq__(self, o): return cmp(ast.Eq, self, o)
    def __ne__(self, o): return cmp(ast.NotEq, self, o)
    def __and__(self, o): return And(self, o)
    def __rand__(self, o): return And(o, self)
    def __or__(self, o): return Or(self, o)
    def __ror__(self, o): return Or(o, self)
    def __invert__(self): return Not(self)
    def __getitem__(self, i):
        if isinstance(i, slice):
            if i.step is not None:
                raise Unsupported('slice step')
            return slice_(self, i.start, i.stop)
        raise Unsupported('Sym index in contract')


def is_sym(x):
    return isinstance(x, Sym)


def is_prim(x):
    return isinstance(x, (Sym, int, float, str, bool))


def fresh(kind, hint='v'):
    n = f'{hint}!{next(_fresh)}'
    return Sym({'str': z3.String, 'int': z3.Int, 'bool': z3.Bool, 'real': z3.Real}[kind](n), kind)


def var(kind, name):
    return Sym({'str': z3.String, 'int': z3.Int, 'bool': z3.Bool, 'real': z3.Real}[kind](name), kind)


def real_val(x):
    fr = fractions.Fraction(x)          # exact value of the binary64
    return z3.RealVal(f'{fr.numerator}/{fr.denominator}')


def lift(x):
    if isinstance(x, Sym):
        return x
    if isinstance(x, bool):
        return Sym(z3.BoolVal(x), 'bool')
    if isinstance(x, int):
        return Sym(z3.IntVal(x), 'int')
    if isinstance(x, float):
        if x != x or x in (float('inf'), float('-inf')):
            raise Unsupported('nan/inf literal')
        return Sym(real_val(x), 'real')
    if isinstance(x, str):
        return Sym(z3.StringVal(x), 'str')
    import numpy
    if isinstance(x, numpy.bool_):
        return Sym(z3.BoolVal(bool(x)), 'bool')
    if isinstance(x, numpy.integer):
        return Sym(z3.IntVal(int(x)), 'int')
    if isinstance(x, numpy.floating):
        return lift(float(x))
    raise Unsupported(f'lift {type(x).__name__}')


def to_real(s):
    if s.k == 'real':
        return s.t
    if s.k == 'int':
        return z3.ToReal(s.t)
    if s.k == 'bool':
        return z3.If(s.t, z3.RealVal(1), z3.RealVal(0))
    raise Unsupported('to_real(str)')


def to_int(s):
    if s.k == 'int':
        return s.t
    if s.k == 'bool':
        return z3.If(s.t, z3.IntVal(1), z3.IntVal(0))
    raise Unsupported(f'to_int({s.k})')


def num(s):
    """numeric view of a bool"""
    if s.k == 'bool':
        return Sym(to_int(s), 'int')
    return s


def B(x):
    """z3 Bool term of a python bool / Sym bool"""
    if isinstance(x, Sym):
        if x.k != 'bool':
            raise Unsupported(f'expected bool, got {x.k}')
        return x.t
    if isinstance(x, bool):
        return z3.BoolVal(x)
    if z3.is_expr(x):
        return x
    raise Unsupported(f'B({type(x).__name__})')


def _concrete(*xs):
    return not any(isinstance(x, Sym) for x in xs)


def And(*xs):
    syms = []
    for x in xs:
        if isinstance(x, Sym):
            syms.append(x)
        elif not x:
            return False
    if not syms:
        return True
    return syms[0] if len(syms) == 1 and syms[0].k == 'bool' else Sym(z3.And(*[B(x) for x in syms]), 'bool')


def Or(*xs):
    syms = []
    for x in xs:
        if isinstance(x, Sym):
            syms.append(x)
        elif x:
            return True
    if not syms:
        return False
    return syms[0] if len(syms) == 1 and syms[0].k == 'bool' else Sym(z3.Or(*[B(x) for x in syms]), 'bool')


def Not(x):
    if _concrete(x):
        return not x
    return Sym(z3.Not(B(x)), 'bool')


def Implies(a, b):
    if _concrete(a, b):
        return (not a) or bool(b)
    if not isinstance(a, Sym):
        return b if a else True
    if not isinstance(b, Sym):
        return True if b else Not(a)
    return Sym(z3.Implies(B(a), B(b)), 'bool')


def Ite(c, a, b):
    if _concrete(c):
        return a if c else b
    a, b = lift(a), lift(b)
    if a.k != b.k:
        if {a.k, b.k} == {'int', 'bool'}:
            return Sym(z3.If(B(c), to_int(a), to_int(b)), 'int')
        if a.k in ('int', 'real', 'bool') and b.k in ('int', 'real', 'bool'):
            return Sym(z3.If(B(c), to_real(a), to_real(b)), 'real')
        raise Unsupported('Ite kinds')
    return Sym(z3.If(B(c), a.t, b.t), a.k)


def floor_real(t):
    return z3.ToInt(t)                  # SMT-LIB to_int is floor


def trunc_real(t):
    return z3.If(t >= 0, z3.ToInt(t), -z3.ToInt(-t))


def py_int_mod(a, b):
    # Python: result has the sign of the divisor.  SMT-LIB mod is always >= 0.
    return z3.If(b > 0, a % b, -((-a) % (-b)))


def py_int_floordiv(a, b):
    # a // b = (a - a % b) / b  exactly
    m = py_int_mod(a, b)
    return z3.If(b > 0, (a - m) / b, (a - m) / b)


POW = z3.Function('py_pow', z3.RealSort(), z3.RealSort(), z3.RealSort())      # (registered as a UF with axioms in models.POWF)


def _const_int(s):
    t = z3.simplify(s.t)
    if s.k == 'int' and z3.is_int_value(t):
        return t.as_long()
    return None


def arith(op, a, b):
    """Python binary arithmetic on primitive operands, at least one symbolic. Division by zero is *not*
    checked here (the interpreter branches on it before calling)."""
    a, b = lift(a), lift(b)
    if a.k == 'str' or b.k == 'str':
        if a.k == 'str' and b.k == 'str' and op is ast.Add:
            return Sym(z3.Concat(a.t, b.t), 'str')
        if op is ast.Mult:
            raise Unsupported('str * n')
        raise TypeError(f'unsupported operand kinds {a.k} {b.k}')
    a, b = num(a), num(b)
    both_int = a.k == 'int' and b.k == 'int'
    if op in (ast.Add, ast.Sub, ast.Mult):
        if both_int:
            x, y = a.t, b.t
            return Sym({ast.Add: x + y, ast.Sub: x - y, ast.Mult: x * y}[op], 'int')
        x, y = to_real(a), to_real(b)
        return Sym({ast.Add: x + y, ast.Sub: x - y, ast.Mult: x * y}[op], 'real')
    if op is ast.Div:
        return Sym(to_real(a) / to_real(b), 'real')
    if op is ast.Mod:
        if both_int:
            return Sym(py_int_mod(a.t, b.t), 'int')
        x, y = to_real(a), to_real(b)
        return Sym(x - y * z3.ToReal(floor_real(x / y)), 'real')
    if op is ast.FloorDiv:
        if both_int:
            return Sym(py_int_floordiv(a.t, b.t), 'int')
        return Sym(z3.ToReal(floor_real(to_real(a) / to_real(b))), 'real')
    if op is ast.Pow:
        cb = _const_int(b)
        if cb is not None and 0 <= cb <= 8:
            kind = 'int' if both_int else 'real'
            x = a.t if both_int else to_real(a)
            acc = z3.IntVal(1) if both_int else z3.RealVal(1)
            for _ in range(cb):
                acc = acc * x
            return Sym(acc, kind)
        return Sym(POW(to_real(a), to_real(b)), 'real')
    if op in (ast.BitAnd, ast.BitOr, ast.LShift, ast.RShift, ast.BitXor):
        return bitop(op, a, b)
    raise Unsupported(f'arith {op.__name__}')


def bitop(op, a, b):
    if not (a.k == 'int' and b.k == 'int'):
        raise Unsupported('bit op on non-int')
    cb = _const_int(b)
    ca = _const_int(a)
    if op is ast.LShift and cb is not None and cb >= 0:
        return Sym(a.t * (2 ** cb), 'int')
    if op is ast.RShift and cb is not None and cb >= 0:
        return Sym(py_int_floordiv(a.t, z3.IntVal(2 ** cb)), 'int')
    if op is ast.BitAnd:
        if ca is not None and cb is None:
            a, b, ca, cb = b, a, cb, ca
        if cb is not None:
            m = cb
            if m > 0 and m & (m - 1) == 0:                 # single bit 2^k: exact on unbounded ints
                return Sym(z3.If(py_int_mod(py_int_floordiv(a.t, z3.IntVal(m)), z3.IntVal(2)) == 1, m, 0), 'int')
            if m > 0 and (m + 1) & m == 0:                 # low mask 2^k - 1
                return Sym(py_int_mod(a.t, z3.IntVal(m + 1)), 'int')
            if m < 0 and (~m) > 0 and (~m) & ((~m) - 1) == 0:   # ~single bit
                k = ~m
                return Sym(a.t - z3.If(py_int_mod(py_int_floordiv(a.t, z3.IntVal(k)), z3.IntVal(2)) == 1, k, 0), 'int')
    raise Unsupported('bit op shape')


def cmp(op, a, b):
    a, b = lift(a), lift(b)
    if a.k == 'str' and b.k == 'str':
        x, y = a.t, b.t
        return Sym({ast.Lt: x < y, ast.LtE: x <= y, ast.Gt: y < x, ast.GtE: y <= x,
                    ast.Eq: x == y, ast.NotEq: x != y}[op], 'bool')
    if (a.k == 'str') != (b.k == 'str'):
        if op is ast.Eq:
            return False
        if op is ast.NotEq:
            return True
        raise TypeError('ordering str against number')
    if a.k == 'bool' and b.k == 'bool' and op in (ast.Eq, ast.NotEq):
        return Sym(a.t == b.t if op is ast.Eq else a.t != b.t, 'bool')
    a, b = num(a), num(b)
    x, y = (a.t, b.t) if a.k == b.k else (to_real(a), to_real(b))
    return Sym({ast.Lt: x < y, ast.LtE: x <= y, ast.Gt: x > y, ast.GtE: x >= y,
                ast.Eq: x == y, ast.NotEq: x != y}[op], 'bool')


def clip_index(i, ln):
    """Python slice-bound normalisation for step 1."""
    return z3.If(i < 0, z3.If(i + ln < 0, z3.IntVal(0), i + ln), z3.If(i > ln, ln, i))


def slice_(o, lo, hi):
    o = lift(o)
    if o.k != 'str':
        raise Unsupported('slice of non-str Sym')
    L = z3.Length(o.t)
    a = z3.IntVal(0) if lo is None else clip_index(to_int(lift(lo)), L)
    b = L if hi is None else clip_index(to_int(lift(hi)), L)
    return Sym(z3.If(b > a, z3.SubString(o.t, a, b - a), z3.StringVal('')), 'str')


def length(s):
    if isinstance(s, Sym):
        return Sym(z3.Length(s.t), 'int')
    return len(s)


def concat(*xs):
    if _concrete(*xs):
        return ''.join(xs)
    return Sym(z3.Concat(*[lift(x).t for x in xs]) if len(xs) > 1 else lift(xs[0]).t, 'str')


def substr(s, start, n):
    """0-based substring with SMT-LIB semantics restricted to 0 <= start, n >= 0 (callers guarantee it)."""
    if _concrete(s, start, n):
        return s[start:start + n]
    return Sym(z3.SubString(lift(s).t, to_int(lift(start)), to_int(lift(n))), 'str')


def minimum(a, b):
    if _concrete(a, b):
        return min(a, b)
    return Ite(cmp(ast.Lt, a, b), a, b)


def maximum(a, b):
    if _concrete(a, b):
        return max(a, b)
    return Ite(cmp(ast.Gt, a, b), a, b)


# ---------------------------------------------------------------------------------------------------
# Uninterpreted Python builtins with native meaning (for counterexample-guided instantiation)
# ---------------------------------------------------------------------------------------------------
class UF:
    """An uninterpreted function standing for a Python builtin.  `native` computes the true value on
    concrete arguments; it is used (a) to instantiate facts when a model depends on an application and
    (b) to sanity-test every axiom natively on each run."""
    registry = {}

    def __init__(self, name, arg_kinds, ret_kind, native):
        sort = {'int': z3.IntSort(), 'real': z3.RealSort(), 'bool': z3.BoolSort(), 'str': z3.StringSort()}
        self.name, self.arg_kinds, self.ret_kind, self.native = name, arg_kinds, ret_kind, native
        self.f = z3.Function(name, *[sort[k] for k in arg_kinds], sort[ret_kind])
        UF.registry[name] = self

    def __call__(self, *args):
        if _concrete(*args):
            return self.native(*args)
        ts = []
        for a, k in zip(args, self.arg_kinds):
            a = lift(a)
            if k == 'real':
                ts.append(to_real(a))
            elif k == 'int':
                ts.append(to_int(a))
            else:
                if a.k != k:
                    raise Unsupported(f'{self.name}: kind {a.k} for {k}')
                ts.append(a.t)
        return Sym(self.f(*ts), self.ret_kind)


def py_val(term, kind):
    """concrete python value of a z3 *value* term"""
    term = z3.simplify(term)
    if kind == 'int':
        return term.as_long()
    if kind == 'bool':
        return z3.is_true(term)
    if kind == 'str':
        return term.as_string() if not hasattr(term, 'py_value') else term.py_value()
    if kind == 'real':
        if z3.is_rational_value(term):
            return fractions.Fraction(term.numerator_as_long(), term.denominator_as_long())
        if z3.is_algebraic_value(term):
            return fractions.Fraction(term.approx(20).numerator_as_long(), term.approx(20).denominator_as_long())
    raise Unsupported(f'py_val {kind} {term}')
