"""Symbolic model of datetime.datetime / datetime.timedelta on whole days plus a second-of-day
(DESIGN.md 2.4: day ordinal Int + second-of-day Int; proleptic Gregorian field functions are uninterpreted with
their native meaning - ASSUMED contracts on the stdlib, listed in the evidence).

Exact: ordinal arithmetic, timedelta normalisation, comparison, weekday() == (ordinal + 6) mod 7.
Uninterpreted (native meaning datetime.date.fromordinal): year / month / day / ISO week of an ordinal.
"""
import ast
import datetime as _dt

import z3

from .sym import Sym, Unsupported, is_sym, lift, to_int, to_real, Ite, And, Or, Not, cmp, arith
from . import sym as S
from .interp import SymObject, RaiseEx
from . import models as M

MIN_ORD, MAX_ORD = 1, 3652059           # 0001-01-01 .. 9999-12-31
DAY = 86400


def _ok_ord(o):
    return MIN_ORD <= o <= MAX_ORD


def _field(name, fn):
    return M.uf(f'greg_{name}', ['int'], 'int', lambda o: fn(_dt.date.fromordinal(o)) if _ok_ord(o) else 0)


def _ax_ymd(lo, hi):
    def ax(args, res):
        return z3.And(res.t >= lo, res.t <= hi)
    return ax


YEAR_OF = M.uf('greg_year', ['int'], 'int', lambda o: _dt.date.fromordinal(o).year if _ok_ord(o) else 0, axiom=(
    'year of an ordinal in 1..3652059 is in 1..9999; ordinals from 693596 (1900-01-01) on have year >= 1900',
    lambda a, r: z3.And(z3.Implies(z3.And(a[0].t >= MIN_ORD, a[0].t <= MAX_ORD), z3.And(r.t >= 1, r.t <= 9999)),
                        z3.Implies(z3.And(a[0].t >= 693596, a[0].t <= MAX_ORD), r.t >= 1900)),
    lambda a, r: not _ok_ord(a[0]) or (1 <= r <= 9999 and (a[0] < 693596 or r >= 1900)), [[1], [693595], [693596], [3652059]]))
MONTH_OF = M.uf('greg_month', ['int'], 'int', lambda o: _dt.date.fromordinal(o).month if _ok_ord(o) else 0, axiom=(
    'month of an ordinal is in 1..12', lambda a, r: z3.Implies(z3.And(a[0].t >= MIN_ORD, a[0].t <= MAX_ORD), z3.And(r.t >= 1, r.t <= 12)),
    lambda a, r: not _ok_ord(a[0]) or 1 <= r <= 12, [[1], [693596], [3652059]]))
DAY_OF = M.uf('greg_day', ['int'], 'int', lambda o: _dt.date.fromordinal(o).day if _ok_ord(o) else 0, axiom=(
    'day of an ordinal is in 1..31', lambda a, r: z3.Implies(z3.And(a[0].t >= MIN_ORD, a[0].t <= MAX_ORD), z3.And(r.t >= 1, r.t <= 31)),
    lambda a, r: not _ok_ord(a[0]) or 1 <= r <= 31, [[1], [693596], [3652059]]))
ISOWEEK_OF = M.uf('greg_isoweek', ['int'], 'int', lambda o: _dt.date.fromordinal(o).isocalendar()[1] if _ok_ord(o) else 0)
ISOYEAR_OF = M.uf('greg_isoyear', ['int'], 'int', lambda o: _dt.date.fromordinal(o).isocalendar()[0] if _ok_ord(o) else 0)


import collections as _collections
_IsoCalendarDate = _collections.namedtuple('IsoCalendarDate', 'year week weekday')


def _simp(x):
    if is_sym(x):
        t = z3.simplify(x.t)
        if x.k == 'int' and z3.is_int_value(t):
            return t.as_long()
        if x.k == 'real' and z3.is_rational_value(t) and t.denominator_as_long() == 1:
            return t.numerator_as_long()
        return Sym(t, x.k)
    return x


class TaggedStr(Sym):
    """a symbolic string known to be the decimal rendering of an integer term (strftime fields)"""
    __slots__ = ('int_value',)

    def __init__(self, t, int_value):
        super().__init__(t, 'str')
        self.int_value = int_value


class SymTimedelta(SymObject):
    py_type = _dt.timedelta

    def __init__(self, days, seconds=0):
        days, seconds = _simp(days), _simp(seconds)
        if is_sym(seconds) and seconds.k != 'int':
            raise Unsupported('timedelta with a symbolic fractional second count (time of day is bounded-only)')
        if not is_sym(seconds):
            if seconds != int(seconds):
                raise Unsupported('fractional seconds')
            seconds = int(seconds)
            carry, seconds = divmod(seconds, DAY)
            days = days + carry if carry else days
        else:
            # python normalises 0 <= seconds < 86400
            total = seconds
            carry = arith(ast.FloorDiv, total, DAY)
            seconds = arith(ast.Mod, total, DAY)
            days = days + carry
        if is_sym(days) and days.k != 'int':
            raise Unsupported('timedelta days not an int')
        self.days, self.seconds = days, seconds

    def a_days(self, it):
        return self.days

    def a_seconds(self, it):
        return self.seconds

    def a_microseconds(self, it):
        return 0

    def m_total_seconds(self, it):
        return arith(ast.Add, arith(ast.Mult, self.days, DAY), self.seconds) if is_sym(self.days) or is_sym(self.seconds) \
            else float(self.days * DAY + self.seconds)

    def binop(self, it, op, other, reflected):
        if isinstance(other, _dt.timedelta):
            other = SymTimedelta(other.days, other.seconds)
        if isinstance(other, SymTimedelta) and op in (ast.Add, ast.Sub):
            a, b = (other, self) if reflected else (self, other)
            if op is ast.Add:
                return SymTimedelta(a.days + b.days, a.seconds + b.seconds)
            return SymTimedelta(a.days - b.days, a.seconds - b.seconds)
        if isinstance(other, (_dt.datetime, SymDateTime)) and op is ast.Add:
            return _as_sym(other).plus(it, self)
        if isinstance(other, (_dt.datetime, SymDateTime)) and op is ast.Sub and reflected:
            return _as_sym(other).plus(it, SymTimedelta(0 - self.days, 0 - self.seconds))
        if op is ast.Div and not reflected and (is_sym(other) or isinstance(other, (int, float))):
            return arith(ast.Div, self.m_total_seconds(it), other)
        return NotImplemented

    def compare(self, it, op, other, reflected):
        if isinstance(other, _dt.timedelta):
            other = SymTimedelta(other.days, other.seconds)
        if not isinstance(other, SymTimedelta):
            return NotImplemented
        a, b = (other, self) if reflected else (self, other)
        return cmp(op, a.days * DAY + a.seconds, b.days * DAY + b.seconds)


def _as_sym(d):
    if isinstance(d, SymDateTime):
        return d
    return SymDateTime(d.toordinal(), d.hour * 3600 + d.minute * 60 + d.second)


class SymDateTime(SymObject):
    py_type = _dt.datetime

    def __init__(self, ordinal, sec=0):
        self.ord, self.sec = _simp(ordinal), _simp(sec)

    def plus(self, it, td):
        total = self.sec + td.seconds
        if is_sym(total):
            carry = arith(ast.FloorDiv, total, DAY)
            sec = arith(ast.Mod, total, DAY)
        else:
            carry, sec = divmod(total, DAY)
        o = self.ord + td.days + carry
        if is_sym(o):
            if not it.branch(And(o >= MIN_ORD, o <= MAX_ORD)):
                raise RaiseEx(OverflowError('date value out of range'))
        elif not _ok_ord(o):
            raise RaiseEx(OverflowError('date value out of range'))
        return SymDateTime(o, sec)

    def binop(self, it, op, other, reflected):
        if isinstance(other, (_dt.datetime, SymDateTime)) and op is ast.Sub:
            a, b = (_as_sym(other), self) if reflected else (self, _as_sym(other))
            return SymTimedelta(a.ord - b.ord, a.sec - b.sec)
        if isinstance(other, _dt.timedelta):
            other = SymTimedelta(other.days, other.seconds)
        if isinstance(other, SymTimedelta):
            if op is ast.Add:
                return self.plus(it, other)
            if op is ast.Sub and not reflected:
                return self.plus(it, SymTimedelta(0 - other.days, 0 - other.seconds))
        if type(other).__name__ == 'relativedelta':
            raise Unsupported('relativedelta arithmetic on a symbolic date (assumed contract; bounded layer)')
        return NotImplemented

    def compare(self, it, op, other, reflected):
        if not isinstance(other, (_dt.datetime, SymDateTime)):
            if op is ast.Eq:
                return False
            if op is ast.NotEq:
                return True
            return NotImplemented
        o = _as_sym(other)
        a, b = (o, self) if reflected else (self, o)
        return cmp(op, a.ord * DAY + a.sec, b.ord * DAY + b.sec)

    # fields
    def a_year(self, it):
        return YEAR_OF(self.ord)

    def a_month(self, it):
        return MONTH_OF(self.ord)

    def a_day(self, it):
        return DAY_OF(self.ord)

    def m_weekday(self, it):
        return arith(ast.Mod, self.ord + 6, 7)          # ordinal 1 (0001-01-01) is a Monday: exact

    def m_isoweekday(self, it):
        return arith(ast.Mod, self.ord + 6, 7) + 1

    def m_isocalendar(self, it):
        # (a named tuple as in CPython >= 3.9: .year / .week / .weekday as well as [0] / [1] / [2])
        return _IsoCalendarDate(ISOYEAR_OF(self.ord), ISOWEEK_OF(self.ord), self.m_isoweekday(it))

    def m_toordinal(self, it):
        return self.ord

    def m_strftime(self, it, fmt):
        f = {'%d': DAY_OF, '%m': MONTH_OF, '%Y': YEAR_OF}.get(fmt)
        if f is None:
            raise Unsupported(f'strftime({fmt!r}) on a symbolic date')
        v = f(self.ord)
        return TaggedStr(M.STR_INT(v).t, v)

    def m_isoformat(self, it, *a):
        from .sym import fresh
        return fresh('str', 'isoformat')

    def m_replace(self, it, **kw):
        raise Unsupported('datetime.replace on a symbolic date')

    def m___str__(self, it):
        from .sym import fresh
        return fresh('str', 'datestr')


def m_timedelta(it, days=0, seconds=0, microseconds=0, milliseconds=0, minutes=0, hours=0, weeks=0):
    args = (days, seconds, microseconds, milliseconds, minutes, hours, weeks)
    if not any(is_sym(a) for a in args):
        return it.native(_dt.timedelta, [], dict(days=days, seconds=seconds, microseconds=microseconds,
                                                milliseconds=milliseconds, minutes=minutes, hours=hours, weeks=weeks))
    if any((is_sym(a) or a != 0) for a in (microseconds, milliseconds, minutes, hours, weeks)):
        raise Unsupported('timedelta fields other than days/seconds symbolic')
    d, s = _simp(days), _simp(seconds)
    if is_sym(d) and d.k == 'real':
        raise Unsupported('timedelta(days=float)')
    if is_sym(s) and s.k == 'real':
        raise Unsupported('timedelta(seconds=symbolic float): time of day is decided by the bounded layer')
    if not is_sym(s) and isinstance(s, float):
        if s != int(s):
            raise Unsupported('fractional seconds')
        s = int(s)
    return SymTimedelta(d, s)


M.CLASS_MODELS[_dt.timedelta] = m_timedelta
