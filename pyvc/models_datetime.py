"""Symbolic model of datetime.datetime / datetime.timedelta on whole days plus a second-of-day
(DESIGN.md 2.4: day ordinal Int + second-of-day Int; proleptic Gregorian field functions are uninterpreted with
their native meaning - ASSUMED contracts on the stdlib, listed in the evidence).

Exact: ordinal arithmetic, timedelta normalisation, comparison, weekday() == (ordinal + 6) mod 7.
Uninterpreted (native meaning datetime.date.fromordinal): year / month / day / ISO week of an ordinal.
"""
import ast
import datetime as _dt

import z3

from .sym import Sym, Unsupported, is_sym, lift, to_int, to_real, Ite, And, Or, Not, cmp, arith
from . import sym as S
from .interp import SymObject, RaiseEx
from . import models as M

MIN_ORD, MAX_ORD = 1, 3652059           # 0001-01-01 .. 9999-12-31
DAY = 86400


def _ok_ord(o):
    return MIN_ORD <= o <= MAX_ORD


def _field(name, fn):
    return M.uf(f'greg_{name}', ['int'], 'int', lambda o: fn(_dt.date.fromordinal(o)) if _ok_ord(o) else 0)


def _ax_ymd(lo, hi):
    def ax(args, res):
        return z3.And(res.t >= lo, res.t <= hi)
    return ax



# ---- the proleptic Gregorian calendar, exactly (linear integer arithmetic with division by constants) ----------------------------------------
_DBM = [0, 31, 59, 90, 120, 151, 181, 212, 243, 273, 304, 334]


def z_leap(y):
    return z3.And(y % 4 == 0, z3.Or(y % 100 != 0, y % 400 == 0))


def z_dbm(m):
    e = z3.IntVal(_DBM[11])
    for i in range(10, -1, -1):
        e = z3.If(m == i + 1, z3.IntVal(_DBM[i]), e)
    return e


def z_dim(y, m):
    """days in month m of year y"""
    return z3.If(m == 2, z3.If(z_leap(y), z3.IntVal(29), z3.IntVal(28)), z3.If(z3.Or(m == 4, m == 6, m == 9, m == 11), z3.IntVal(30), z3.IntVal(31)))


def z_ord(y, m, d):
    """ordinal of the date y-m-d (0001-01-01 is 1)"""
    y1 = y - 1
    return 365 * y1 + y1 / 4 - y1 / 100 + y1 / 400 + z_dbm(m) + z3.If(z3.And(m > 2, z_leap(y)), z3.IntVal(1), z3.IntVal(0)) + d


def py_ord(y, m, d):
    """the same formula on Python ints (tested against datetime.date.toordinal on every run)"""
    y1 = y - 1
    leap = y % 4 == 0 and (y % 100 != 0 or y % 400 == 0)
    return 365 * y1 + y1 // 4 - y1 // 100 + y1 // 400 + _DBM[m - 1] + (1 if m > 2 and leap else 0) + d


def py_dim(y, m):
    leap = y % 4 == 0 and (y % 100 != 0 or y % 400 == 0)
    return (29 if leap else 28) if m == 2 else (30 if m in (4, 6, 9, 11) else 31)


def _zi(x):
    return x.t if is_sym(x) else z3.IntVal(int(x))


def _cal_ax(o):
    """the year / month / day of an ordinal ARE its calendar fields: a valid date whose ordinal it is (this determines them - the triple of
    a given ordinal is unique, which z3 proves in under a second)"""
    Y, Mo, D = YEAR_OF.u.f(o), MONTH_OF.u.f(o), DAY_OF.u.f(o)
    return z3.Implies(z3.And(o >= MIN_ORD, o <= MAX_ORD),
                      z3.And(Y >= 1, Y <= 9999, Mo >= 1, Mo <= 12, D >= 1, D <= z_dim(Y, Mo), o == z_ord(Y, Mo, D)))


def _cal_native(o):
    if not _ok_ord(o):
        return True
    d = _dt.date.fromordinal(o)
    return py_ord(d.year, d.month, d.day) == o and 1 <= d.day <= py_dim(d.year, d.month) and \
        py_dim(d.year, d.month) == ((_dt.date(d.year + (d.month == 12), d.month % 12 + 1, 1) - _dt.date(d.year, d.month, 1)).days if d.year < 9999 else py_dim(d.year, d.month))


YEAR_OF = M.uf('greg_year', ['int'], 'int', lambda o: _dt.date.fromordinal(o).year if _ok_ord(o) else 0, axiom=(
    'year of an ordinal in 1..3652059 is in 1..9999; ordinals from 693596 (1900-01-01) on have year >= 1900',
    lambda a, r: z3.And(z3.Implies(z3.And(a[0].t >= MIN_ORD, a[0].t <= MAX_ORD), z3.And(r.t >= 1, r.t <= 9999)),
                        z3.Implies(z3.And(a[0].t >= 693596, a[0].t <= MAX_ORD), r.t >= 1900), _cal_ax(a[0].t)),
    lambda a, r: not _ok_ord(a[0]) or (1 <= r <= 9999 and (a[0] < 693596 or r >= 1900) and _cal_native(a[0])),
    [[1], [693595], [693596], [3652059], [730179], [730180], [767010], [693655]]))
MONTH_OF = M.uf('greg_month', ['int'], 'int', lambda o: _dt.date.fromordinal(o).month if _ok_ord(o) else 0, axiom=(
    'month of an ordinal is in 1..12; (year, month, day) is the valid date with this ordinal',
    lambda a, r: z3.And(z3.Implies(z3.And(a[0].t >= MIN_ORD, a[0].t <= MAX_ORD), z3.And(r.t >= 1, r.t <= 12)), _cal_ax(a[0].t)),
    lambda a, r: not _ok_ord(a[0]) or (1 <= r <= 12 and _cal_native(a[0])), [[1], [693596], [3652059], [730179], [730180]]))
DAY_OF = M.uf('greg_day', ['int'], 'int', lambda o: _dt.date.fromordinal(o).day if _ok_ord(o) else 0, axiom=(
    'day of an ordinal is in 1..31; (year, month, day) is the valid date with this ordinal',
    lambda a, r: z3.And(z3.Implies(z3.And(a[0].t >= MIN_ORD, a[0].t <= MAX_ORD), z3.And(r.t >= 1, r.t <= 31)), _cal_ax(a[0].t)),
    lambda a, r: not _ok_ord(a[0]) or (1 <= r <= 31 and _cal_native(a[0])), [[1], [693596], [3652059], [730179], [730180]]))
ISOWEEK_OF = M.uf('greg_isoweek', ['int'], 'int', lambda o: _dt.date.fromordinal(o).isocalendar()[1] if _ok_ord(o) else 0)
ISOYEAR_OF = M.uf('greg_isoyear', ['int'], 'int', lambda o: _dt.date.fromordinal(o).isocalendar()[0] if _ok_ord(o) else 0)


import collections as _collections
_IsoCalendarDate = _collections.namedtuple('IsoCalendarDate', 'year week weekday')


def _simp(x):
    if is_sym(x):
        t = z3.simplify(x.t)
        if x.k == 'int' and z3.is_int_value(t):
            return t.as_long()
        if x.k == 'real' and z3.is_rational_value(t) and t.denominator_as_long() == 1:
            return t.numerator_as_long()
        return Sym(t, x.k)
    return x


class TaggedStr(Sym):
    """a symbolic string known to be the decimal rendering of an integer term (strftime fields)"""
    __slots__ = ('int_value',)

    def __init__(self, t, int_value):
        super().__init__(t, 'str')
        self.int_value = int_value


class SymTimedelta(SymObject):
    py_type = _dt.timedelta

    def __init__(self, days, seconds=0):
        days, seconds = _simp(days), _simp(seconds)
        if is_sym(seconds) and seconds.k != 'int':
            raise Unsupported('timedelta with a symbolic fractional second count (time of day is bounded-only)')
        if not is_sym(seconds):
            if seconds != int(seconds):
                raise Unsupported('fractional seconds')
            seconds = int(seconds)
            carry, seconds = divmod(seconds, DAY)
            days = days + carry if carry else days
        else:
            # python normalises 0 <= seconds < 86400
            total = seconds
            carry = arith(ast.FloorDiv, total, DAY)
            seconds = arith(ast.Mod, total, DAY)
            days = days + carry
        if is_sym(days) and days.k != 'int':
            raise Unsupported('timedelta days not an int')
        self.days, self.seconds = days, seconds

    def a_days(self, it):
        return self.days

    def a_seconds(self, it):
        return self.seconds

    def a_microseconds(self, it):
        return 0

    def m_total_seconds(self, it):
        return arith(ast.Add, arith(ast.Mult, self.days, DAY), self.seconds) if is_sym(self.days) or is_sym(self.seconds) \
            else float(self.days * DAY + self.seconds)

    def binop(self, it, op, other, reflected):
        if isinstance(other, _dt.timedelta):
            other = SymTimedelta(other.days, other.seconds)
        if isinstance(other, SymTimedelta) and op in (ast.Add, ast.Sub):
            a, b = (other, self) if reflected else (self, other)
            if op is ast.Add:
                return SymTimedelta(a.days + b.days, a.seconds + b.seconds)
            return SymTimedelta(a.days - b.days, a.seconds - b.seconds)
        if isinstance(other, (_dt.datetime, SymDateTime)) and op is ast.Add:
            return _as_sym(other).plus(it, self)
        if isinstance(other, (_dt.datetime, SymDateTime)) and op is ast.Sub and reflected:
            return _as_sym(other).plus(it, SymTimedelta(0 - self.days, 0 - self.seconds))
        if op is ast.Div and not reflected and (is_sym(other) or isinstance(other, (int, float))):
            return arith(ast.Div, self.m_total_seconds(it), other)
        return NotImplemented

    def compare(self, it, op, other, reflected):
        if isinstance(other, _dt.timedelta):
            other = SymTimedelta(other.days, other.seconds)
        if not isinstance(other, SymTimedelta):
            return NotImplemented
        a, b = (other, self) if reflected else (self, other)
        return cmp(op, a.days * DAY + a.seconds, b.days * DAY + b.seconds)


def _as_sym(d):
    if isinstance(d, SymDateTime):
        return d
    return SymDateTime(d.toordinal(), d.hour * 3600 + d.minute * 60 + d.second)


class SymDateTime(SymObject):
    py_type = _dt.datetime

    def __init__(self, ordinal, sec=0):
        self.ord, self.sec = _simp(ordinal), _simp(sec)

    def plus(self, it, td):
        total = self.sec + td.seconds
        if is_sym(total):
            carry = arith(ast.FloorDiv, total, DAY)
            sec = arith(ast.Mod, total, DAY)
        else:
            carry, sec = divmod(total, DAY)
        o = self.ord + td.days + carry
        if is_sym(o):
            if not it.branch(And(o >= MIN_ORD, o <= MAX_ORD)):
                raise RaiseEx(OverflowError('date value out of range'))
        elif not _ok_ord(o):
            raise RaiseEx(OverflowError('date value out of range'))
        return SymDateTime(o, sec)

    def binop(self, it, op, other, reflected):
        if isinstance(other, (_dt.datetime, SymDateTime)) and op is ast.Sub:
            a, b = (_as_sym(other), self) if reflected else (self, _as_sym(other))
            return SymTimedelta(a.ord - b.ord, a.sec - b.sec)
        if isinstance(other, _dt.timedelta):
            other = SymTimedelta(other.days, other.seconds)
        if isinstance(other, SymTimedelta):
            if op is ast.Add:
                return self.plus(it, other)
            if op is ast.Sub and not reflected:
                return self.plus(it, SymTimedelta(0 - other.days, 0 - other.seconds))
        if type(other).__name__ == 'relativedelta':
            other = SymRelDelta.of_native(other)
        if isinstance(other, SymRelDelta):
            if op is ast.Add:
                return other.add_to(it, self)
            if op is ast.Sub and not reflected:
                return other.negated().add_to(it, self)
        return NotImplemented

    def compare(self, it, op, other, reflected):
        if not isinstance(other, (_dt.datetime, SymDateTime)):
            if op is ast.Eq:
                return False
            if op is ast.NotEq:
                return True
            return NotImplemented
        o = _as_sym(other)
        a, b = (o, self) if reflected else (self, o)
        return cmp(op, a.ord * DAY + a.sec, b.ord * DAY + b.sec)

    # fields
    ymd = None      # (year, month, day) when the date was MADE from valid fields: they are the fields of its ordinal (the triple is unique)

    def fields(self):
        if self.ymd is not None:
            return self.ymd
        return YEAR_OF(self.ord), MONTH_OF(self.ord), DAY_OF(self.ord)

    def a_year(self, it):
        return self.fields()[0]

    def a_month(self, it):
        return self.fields()[1]

    def a_day(self, it):
        return self.fields()[2]

    def m_weekday(self, it):
        return arith(ast.Mod, self.ord + 6, 7)          # ordinal 1 (0001-01-01) is a Monday: exact

    def m_isoweekday(self, it):
        return arith(ast.Mod, self.ord + 6, 7) + 1

    def m_isocalendar(self, it):
        # (a named tuple as in CPython >= 3.9: .year / .week / .weekday as well as [0] / [1] / [2])
        return _IsoCalendarDate(ISOYEAR_OF(self.ord), ISOWEEK_OF(self.ord), self.m_isoweekday(it))

    def m_toordinal(self, it):
        return self.ord

    def m_strftime(self, it, fmt):
        f = {'%d': DAY_OF, '%m': MONTH_OF, '%Y': YEAR_OF}.get(fmt)
        if f is None:
            raise Unsupported(f'strftime({fmt!r}) on a symbolic date')
        v = f(self.ord)
        return TaggedStr(M.STR_INT(v).t, v)

    def m_isoformat(self, it, *a):
        from .sym import fresh
        return fresh('str', 'isoformat')

    def m_replace(self, it, **kw):
        if set(kw) - {'year', 'month', 'day'}:
            raise Unsupported('datetime.replace of time fields on a symbolic date')
        f = self.fields()
        y, m, d = kw.get('year', f[0]), kw.get('month', f[1]), kw.get('day', f[2])
        return _make_date(it, y, m, d, self.sec)

    def m___str__(self, it):
        from .sym import fresh
        return fresh('str', 'datestr')


def m_timedelta(it, days=0, seconds=0, microseconds=0, milliseconds=0, minutes=0, hours=0, weeks=0):
    args = (days, seconds, microseconds, milliseconds, minutes, hours, weeks)
    if not any(is_sym(a) for a in args):
        return it.native(_dt.timedelta, [], dict(days=days, seconds=seconds, microseconds=microseconds,
                                                milliseconds=milliseconds, minutes=minutes, hours=hours, weeks=weeks))
    if any((is_sym(a) or a != 0) for a in (microseconds, milliseconds, minutes, hours, weeks)):
        raise Unsupported('timedelta fields other than days/seconds symbolic')
    d, s = _simp(days), _simp(seconds)
    if is_sym(d) and d.k == 'real':
        raise Unsupported('timedelta(days=float)')
    if is_sym(s) and s.k == 'real':
        # a whole serial carried as a float has no time of day: decide that on the path (the other branch - a real fraction of a day - is
        # outside the model and stays undecided if it is feasible)
        if it.branch(cmp(ast.Eq, s, 0)):
            s = 0
        else:
            raise Unsupported('timedelta(seconds=symbolic float): time of day is decided by the bounded layer')
    if not is_sym(s) and isinstance(s, float):
        if s != int(s):
            raise Unsupported('fractional seconds')
        s = int(s)
    return SymTimedelta(d, s)


M.CLASS_MODELS[_dt.timedelta] = m_timedelta


# ---- dates from fields, dateutil.relativedelta (years / months / days / day) - exact ---------------------------------------------------------------
def _int_like(x, what):
    if is_sym(x):
        if x.k != 'int':
            raise Unsupported(f'{what}: a symbolic non-integer')
        return x
    if isinstance(x, bool) or not isinstance(x, int):
        if isinstance(x, float) and x == int(x):
            return int(x)
        raise Unsupported(f'{what}: {type(x).__name__}')
    return x


def _make_date(it, y, m, d, sec=0):
    """datetime(y, m, d) / replace(...): ValueError unless it is a date of the calendar"""
    y, m, d = _int_like(y, 'year'), _int_like(m, 'month'), _int_like(d, 'day')
    if not any(is_sym(x) for x in (y, m, d)):
        try:
            return SymDateTime(_dt.date(y, m, d).toordinal(), sec)
        except ValueError as ex:
            raise RaiseEx(ex)
    zy, zm, zd = _zi(y), _zi(m), _zi(d)
    ok = Sym(z3.And(zy >= 1, zy <= 9999, zm >= 1, zm <= 12, zd >= 1, zd <= z_dim(zy, zm)), 'bool')
    if not it.branch(ok):
        raise RaiseEx(ValueError('date fields out of range'))
    out = SymDateTime(Sym(z_ord(zy, zm, zd), 'int'), sec)
    out.ymd = (y, m, d)
    return out


class SymRelDelta(SymObject):
    """relativedelta(years=, months=, days=, day=) - the relative fields are added month-wise (the day clipped to the month's end),
    then the days; `day` is the absolute day of the month (clipped).  As dateutil: year = y0 + years, month carried, day = min(..)."""
    try:
        from dateutil.relativedelta import relativedelta as _rd
        py_type = _rd
    except Exception:      # noqa
        pass

    def __init__(self, years=0, months=0, days=0, day=None):
        self.years, self.months, self.days = _int_like(years, 'years'), _int_like(months, 'months'), _int_like(days, 'days')
        self.day = None if day is None else _int_like(day, 'day')

    @classmethod
    def of_native(cls, rd):
        if any(getattr(rd, f) for f in ('hours', 'minutes', 'seconds', 'microseconds', 'leapdays')) or \
                any(getattr(rd, f) is not None for f in ('year', 'month', 'weekday', 'hour', 'minute', 'second', 'microsecond')):
            raise Unsupported('relativedelta fields other than years / months / days / day on a symbolic date')
        return cls(rd.years, rd.months, rd.days, rd.day)

    def negated(self):
        return SymRelDelta(0 - self.years, 0 - self.months, 0 - self.days, self.day)

    def add_to(self, it, d):
        d = _as_sym(d)
        y0, m0, d0 = d.fields()
        idx = (y0 + self.years) * 12 + (m0 - 1) + self.months
        if is_sym(idx):
            y, m = arith(ast.FloorDiv, idx, 12), arith(ast.Mod, idx, 12) + 1
        else:
            y, m = idx // 12, idx % 12 + 1
        in_range = And(y >= 1, y <= 9999) if is_sym(y) else (1 <= y <= 9999)
        if not (it.branch(in_range) if is_sym(in_range) else in_range):
            raise RaiseEx(ValueError('year is out of range'))
        dd = d0 if self.day is None else self.day
        zy, zm, zdd = _zi(y), _zi(m), _zi(dd)
        day = z3.If(zdd > z_dim(zy, zm), z_dim(zy, zm), zdd)
        if self.day is not None and (is_sym(self.day) or self.day < 1):
            if not (it.branch(Sym(zdd >= 1, 'bool'))):
                raise RaiseEx(ValueError('day is out of range for month'))
        base = SymDateTime(Sym(z_ord(zy, zm, day), 'int'), d.sec)
        base.ymd = (y, m, Sym(day, 'int'))
        if is_sym(self.days) or self.days != 0:
            return base.plus(it, SymTimedelta(self.days, 0))
        return base

    def binop(self, it, op, other, reflected):
        if op is ast.Add and isinstance(other, (_dt.datetime, SymDateTime)):
            return self.add_to(it, other)
        if op is ast.Sub and reflected and isinstance(other, (_dt.datetime, SymDateTime)):
            return self.negated().add_to(it, other)
        return NotImplemented


def m_relativedelta(it, dt1=None, dt2=None, **kw):
    from dateutil.relativedelta import relativedelta as _rd
    # a whole-number Excel Number is taken for its value (dateutil reads it through int() and the arithmetic dunders)
    kw = {k: (v.value if type(v).__name__ == 'Number' and hasattr(v, 'value') and (is_sym(v.value) or isinstance(v.value, int)) else v) for k, v in kw.items()}
    if dt1 is None and dt2 is None and set(kw) <= {'years', 'months', 'days', 'day'} and any(is_sym(v) for v in kw.values()):
        for f in ('years', 'months'):
            v = kw.get(f, 0)
            if is_sym(v) and v.k != 'int':
                raise Unsupported(f'relativedelta({f}=symbolic float)')
        return SymRelDelta(**kw)
    if any(is_sym(v) for v in kw.values()) or isinstance(dt1, SymDateTime) or isinstance(dt2, SymDateTime):
        raise Unsupported('relativedelta with symbolic fields other than years / months / days / day')
    return it.native(_rd, [dt1, dt2], kw)


try:
    from dateutil.relativedelta import relativedelta as _rd_cls
    M.CLASS_MODELS[_rd_cls] = m_relativedelta
except Exception:      # noqa
    pass


def m_datetime(it, *args, **kw):
    if not any(is_sym(a) for a in list(args) + list(kw.values())):
        return it.native(_dt.datetime, list(args), kw)
    names = ['year', 'month', 'day', 'hour', 'minute', 'second', 'microsecond']
    f = dict(zip(names, args))
    f.update(kw)
    if any(is_sym(f.get(n)) or f.get(n, 0) for n in names[3:]) or set(f) - set(names):
        raise Unsupported('datetime(...) with symbolic or non-zero time fields')
    return _make_date(it, f['year'], f['month'], f['day'])


M.CLASS_MODELS[_dt.datetime] = m_datetime
