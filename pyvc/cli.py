"""./check <property> [--tier quick|thorough]   |   ./check --replay <file>

Exit codes: 0 property held on everything explored (possibly with KNOWN-FINDING lines)
            1 violation (line `VIOLATION property=<id> replay=<path>` on stdout)
            3 checker error (crash, zero obligations, vacuous contract, canary not refuted, interpreter/CPython
              disagreement) - never a verdict about the repository.
"""
import argparse
import concurrent.futures as cf
import hashlib
import importlib
import inspect
import json
import multiprocessing
import os
import signal
import subprocess
import sys
import time
import traceback

ROOT = os.path.dirname(os.path.dirname(os.path.abspath(__file__)))
sys.path.insert(0, ROOT)
os.environ.setdefault('PYVC_TMP', os.path.join(ROOT, 'scratch'))
os.makedirs(os.environ['PYVC_TMP'], exist_ok=True)

REPO = os.environ.get('PYVC_REPO', '/repo')
WORKERS = int(os.environ.get('PYVC_WORKERS', '16'))


class JobTimeout(Exception):
    pass


def _alarm(sig, frm):
    raise JobTimeout()


def _load_units(modname):
    from . import findings
    mod = importlib.import_module(modname)
    units = list(mod.UNITS)
    findings.attach_regions(units)
    return mod, units


def job_proof(modname, ui, ii, tier, seed, limit_s):
    from . import engine
    t0 = time.time()
    try:
        mod, units = _load_units(modname)
        unit = units[ui]
        inst = list(unit.instances())[ii]
    except Exception as ex:
        return dict(kind='proof', error=f'load: {type(ex).__name__}: {ex}\n{traceback.format_exc(limit=6)}', results=[], meta={})
    signal.signal(signal.SIGALRM, _alarm)
    signal.alarm(int(limit_s))
    try:
        results, meta = engine.run_instance(inst, tier=tier, seed=seed)
        signal.alarm(0)
        cross = engine.crosscheck_instance(inst, n=4 if tier == 'quick' else 12, seed=seed)
        meta['wall_s'] = round(time.time() - t0, 3)
        return dict(kind='proof', results=results, meta=meta, cross=cross)
    except JobTimeout:
        return dict(kind='proof', results=[dict(id=f'{inst.id}/*', unit=unit.id, instance=inst.label, case='*', target=unit.target,
                                                 verdict='undecided', reasons=[f'job time limit {limit_s}s'], paths=0, queries=0,
                                                 backends={}, covered=False, witness=None, is_canary=False, time_s=limit_s)],
                    meta=dict(instance=inst.id, target=unit.target, wall_s=limit_s, interpreted=[], ufs=[], outcomes={}), cross=None)
    except Exception as ex:
        signal.alarm(0)
        return dict(kind='proof', error=f'{inst.id}: {type(ex).__name__}: {ex}\n{traceback.format_exc(limit=8)}', results=[], meta={})
    finally:
        signal.alarm(0)


def job_bounded(modname, ui, ii, tier, seed):
    from . import engine
    try:
        mod, units = _load_units(modname)
        inst = list(units[ui].instances())[ii]
        cap = units[ui].bounded_domain_cap if tier == 'quick' else units[ui].bounded_domain_cap * 5
        r = engine.bounded_instance(inst, cap=cap, seed=seed)
        r['unit'] = units[ui].id
        r['ii'] = ii
        return dict(kind='bounded', result=r)
    except Exception as ex:
        return dict(kind='bounded', error=f'{type(ex).__name__}: {ex}\n{traceback.format_exc(limit=6)}')


def job_driver(modname, di, chunk, nchunks, tier, seed, budget_s):
    from . import bounded
    try:
        mod = importlib.import_module(modname)
        drv = mod.DRIVERS[di]
        r = bounded.run_chunk(drv, chunk, nchunks, tier, seed, time_budget_s=budget_s)
        return dict(kind='driver', result=r)
    except Exception as ex:
        return dict(kind='driver', error=f'driver {modname}[{di}]: {type(ex).__name__}: {ex}\n{traceback.format_exc(limit=8)}')


def src_hash(target):
    from . import engine
    try:
        f = engine.resolve(target)
        f = getattr(f, '__wrapped__', f)
        return hashlib.sha256(inspect.getsource(f).encode()).hexdigest()[:16]
    except Exception:
        return '?'


def git(*a):
    try:
        return subprocess.run(['git', '-C', REPO] + list(a), capture_output=True, text=True, timeout=20).stdout.strip()
    except Exception:
        return ''


def run_property(pid, tier, seed):
    from . import findings, report
    from contracts import registry
    t0 = time.time()
    cfg = registry.PROPS[pid]
    kf = findings.load()
    import shutil
    shutil.rmtree(os.path.join(ROOT, 'replays', pid), ignore_errors=True)
    jobs = []
    units_by_id = {}
    n_inst = 0
    ctx = multiprocessing.get_context('fork')
    limit_s = cfg.get('job_limit_s', 150 if tier == 'quick' else 900)
    if tier != 'quick':
        limit_s = max(limit_s, 900)
    with cf.ProcessPoolExecutor(max_workers=WORKERS, mp_context=ctx) as pool:
        futs = []
        for modname in cfg.get('unit_modules', []):
            mod, units = _load_units(modname)
            for ui, u in enumerate(units):
                if u.prop != pid:
                    continue
                units_by_id[u.id] = u
                for ii, inst in enumerate(u.instances()):
                    n_inst += 1
                    futs.append(pool.submit(job_proof, modname, ui, ii, tier, seed, limit_s))
                    futs.append(pool.submit(job_bounded, modname, ui, ii, tier, seed))
        budget = cfg.get('driver_budget_s', 100 if tier == 'quick' else 800)
        for modname in cfg.get('driver_modules', []):
            mod = importlib.import_module(modname)
            for di, drv in enumerate(mod.DRIVERS):
                if drv.prop != pid:
                    continue
                for c in range(drv.nchunks):
                    futs.append(pool.submit(job_driver, modname, di, c, drv.nchunks, tier, seed, budget))
        outs = []
        for f in cf.as_completed(futs):
            try:
                outs.append(f.result())
            except Exception as ex:
                outs.append(dict(kind='crash', error=f'worker crashed: {type(ex).__name__}: {ex}'))
    from . import models
    bad = models.selftest_axioms(seed)
    if bad:
        outs.append(dict(kind='crash', error=f'intrinsic axiom of an uninterpreted builtin fails natively: {bad[:3]}'))
    return report.finish(pid, tier, seed, cfg, kf, outs, units_by_id, time.time() - t0)


def main(argv=None):
    ap = argparse.ArgumentParser()
    ap.add_argument('prop', nargs='?')
    ap.add_argument('--tier', default=os.environ.get('VERIF_TIER', 'quick'))
    ap.add_argument('--replay')
    a = ap.parse_args(argv)
    seed = int(os.environ.get('VERIF_SEED', '0') or 0)
    if a.replay:
        from . import report
        return report.replay_file(a.replay)
    if not a.prop:
        ap.error('property id required')
    tier = a.tier if a.tier in ('quick', 'thorough') else 'quick'
    try:
        return run_property(a.prop, tier, seed)
    except Exception as ex:
        traceback.print_exc()
        print(f'CHECKER-ERROR property={a.prop} {type(ex).__name__}: {ex}')
        return 3


if __name__ == '__main__':
    sys.exit(main())
