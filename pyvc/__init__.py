"""pyvc - verification-condition generator for the real source of bradbase/xlcalculator (see DESIGN.md)."""
