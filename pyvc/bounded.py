"""The bounded stand-in at property level (DESIGN.md section 5): a run-time-checked contract on the real entry
point, driven over an enumerated domain.  ALWAYS labelled bounded; never counted as proved.

A `Driver` has an id (the obligation id), a generator of JSON-able cases, and an oracle
`oracle(case) -> (ok, expected, observed)` that runs the REAL code on the case and evaluates the contract.
The same oracle is what `./check --replay` runs.
"""
import json
import time

from . import findings


class Driver:
    def __init__(self, id, cases, oracle, rule, bound, nchunks=8, exhaustive=False, nontrivial=None, prop=None,
                 setup=None):
        self.id, self.cases, self.oracle, self.rule, self.bound = id, cases, oracle, rule, bound
        self.nchunks, self.exhaustive, self.nontrivial = nchunks, exhaustive, nontrivial
        self.prop = prop or id.split('/')[0]
        self.setup = setup


def run_chunk(driver, chunk, nchunks, tier, seed, time_budget_s=None):
    t0 = time.time()
    regs = findings.driver_regions(driver.id)
    evals = 0
    nontrivial = set()
    failures = []
    samples = []
    n_fail = 0
    truncated = False
    if driver.setup:
        driver.setup()
    for i, case in enumerate(driver.cases(tier, seed)):
        if i % nchunks != chunk:
            continue
        if time_budget_s and time.time() - t0 > time_budget_s:
            truncated = True
            break
        try:
            ok, expected, observed = driver.oracle(case)
        except Exception as ex:      # the oracle itself must not crash: report as checker problem
            failures.append(dict(case=case, expected='oracle to run', observed=f'ORACLE-CRASH {type(ex).__name__}: {ex}',
                                 known=None, oracle_crash=True))
            continue
        evals += 1
        key = json.dumps(case, sort_keys=True, default=str)
        if driver.nontrivial is None or driver.nontrivial(case):
            nontrivial.add(hash(key))
        if len(samples) < 2 and (driver.nontrivial is None or driver.nontrivial(case)):
            samples.append(dict(case=case, expected=_s(expected), observed=_s(observed)))
        if not ok:
            n_fail += 1
            known = None
            for r in regs:
                if r['fn'](case):
                    known = r['id']
                    break
            if len(failures) < 40 or known is None and len([f for f in failures if f['known'] is None]) < 40:
                failures.append(dict(case=case, expected=_s(expected), observed=_s(observed), known=known))
    return dict(driver=driver.id, chunk=chunk, evaluations=evals, distinct_nontrivial=len(nontrivial),
                failures=failures, n_failures=n_fail, samples=samples, truncated=truncated,
                wall_s=round(time.time() - t0, 2))


def _s(x, n=300):
    try:
        s = x if isinstance(x, str) else repr(x)
    except ValueError:          # repr of an int beyond the digit limit
        s = '<' + type(x).__name__ + ' too large to print>'
    return s if len(s) <= n else s[:n] + '...'
