"""Aggregation of job results into verdict lines, replay files and the evidence file."""
import importlib
import json
import os
import re
import sys
import time

from . import findings

ROOT = os.path.dirname(os.path.dirname(os.path.abspath(__file__)))


def _san(s):
    return re.sub(r'[^A-Za-z0-9_.=-]+', '_', s)[:150]


def _write_replay(pid, name, payload):
    from .cli import git
    d = os.path.join(ROOT, 'replays', pid)
    os.makedirs(d, exist_ok=True)
    path = os.path.join(d, _san(name) + '.json')
    payload = dict(payload)
    payload['repo_head'] = git('rev-parse', 'HEAD')
    payload['repo_diff_stat'] = git('diff', '--stat')
    with open(path, 'w') as f:
        json.dump(payload, f, indent=1, default=str)
    return path


def finish(pid, tier, seed, cfg, kf, outs, units_by_id, wall):
    from .cli import src_hash
    lines = []
    checker_errors = []
    obligations = []
    metas = []
    cross = []
    bounded_units = []
    driver_chunks = {}
    for o in outs:
        if o.get('error'):
            checker_errors.append(o['error'])
            continue
        if o['kind'] == 'proof':
            obligations += o['results']
            metas.append(o['meta'])
            if o.get('cross'):
                cross.append(o['cross'])
        elif o['kind'] == 'bounded':
            bounded_units.append(o['result'])
        elif o['kind'] == 'driver':
            driver_chunks.setdefault(o['result']['driver'], []).append(o['result'])
        elif o['kind'] == 'crash':
            checker_errors.append(o['error'])

    # ---- interpreter / CPython disagreement: nothing on that unit instance is counted as proved
    distrust = set()
    for c in cross:
        if c['disagreements']:
            distrust.add(c['instance'])
            print(f'NOTE interpreter and CPython disagree on {c["instance"]}: {c["disagreements"][:1]} '
                  f'- its obligations are left undecided', file=sys.stderr)
    for ob in obligations:
        inst_id = ob['id'].rsplit('/', 1)[0]
        if inst_id in distrust and ob['verdict'] == 'proved':
            ob['verdict'] = 'undecided'
            ob['reasons'].append('interpreter/CPython cross-check disagreement on this instance')

    # ---- vacuity: every case of every unit must be covered somewhere; every canary refuted somewhere
    per_case = {}
    for ob in obligations:
        k = (ob['unit'], ob['case'])
        d = per_case.setdefault(k, dict(covered=False, refuted=False, n=0, canary=ob.get('is_canary', False), undecided_all=True, undecided_any=False))
        d['n'] += 1
        d['covered'] = d['covered'] or bool(ob.get('covered'))
        d['refuted'] = d['refuted'] or ob['verdict'] == 'refuted'
        if ob['verdict'] not in ('undecided', 'not-applicable', 'carved-out'):
            d['undecided_all'] = False
        if ob['verdict'] == 'undecided':
            d['undecided_any'] = True
    for (u, c), d in per_case.items():
        if c == '*':
            continue
        if d['canary']:
            # (a canary that is undecided on some instance - unsupported construct, time limit - says nothing either way: the instance
            # that would have refuted it may be that one)
            if not d['refuted'] and not d['undecided_any']:
                checker_errors.append(f'canary of {u} was not refuted: the engine may prove too much')
        elif not d['covered'] and not d['undecided_all'] and c != 'no_python_exception':
            checker_errors.append(f'vacuous contract: case {c!r} of {u} is not reachable under its precondition')

    real_obs = [ob for ob in obligations if not ob.get('is_canary') and ob['verdict'] not in ('not-applicable', 'carved-out')]
    n_ob = len(real_obs)
    n_proved = sum(1 for ob in real_obs if ob['verdict'] == 'proved')
    refuted = [ob for ob in real_obs if ob['verdict'] == 'refuted']
    # a ghost / frame clause whose verification condition has a counter-model that no native run can show: a violation
    # only for an obligation the committed baseline lists as discharged on the reference tree (it passed, now it fails);
    # otherwise undecided
    base = baseline_proved(pid)
    unwitnessed = [ob for ob in real_obs if ob['verdict'] == 'unwitnessed' and ob['id'] in base]
    for ob in real_obs:
        if ob['verdict'] == 'unwitnessed' and ob['id'] not in base:
            ob['verdict'] = 'undecided'
    undecided = [ob for ob in real_obs if ob['verdict'] == 'undecided']
    regressed = [ob for ob in undecided if ob['id'] in base]

    violations = []
    # ---- refuted proof obligations (each already replayed natively by the engine)
    for ob in refuted:
        path = _write_replay(pid, ob['id'], dict(kind='unit', property=pid, obligation=ob['id'], unit=ob['unit'],
                                                  instance=ob['instance'], case=ob['case'], target=ob['target'],
                                                  witness=ob['witness'], solver_output=ob['witness'].get('model'),
                                                  how='counterexample of the verification condition, replayed on the real function'))
        violations.append((ob['id'], path, ''))

    for ob in unwitnessed:
        path = _write_replay(pid, ob['id'], dict(kind='unit-unwitnessed', property=pid, obligation=ob['id'], unit=ob['unit'],
                                                  instance=ob['instance'], case=ob['case'], target=ob['target'],
                                                  verifier_output=ob['witness'], reasons=ob['reasons'][:3],
                                                  how='the obligation is discharged on the reference tree (baseline/discharged.json) and fails now: its verification '
                                                      'condition has a counter-model, but the clause speaks about reads / writes / call order that a native run cannot observe'))
        violations.append((ob['id'], path, 'no-failing-input-found'))

    # ---- bounded layer on units
    b_evals = b_distinct = 0
    b_known = {}
    b_samples = []
    for r in bounded_units:
        b_evals += r['evaluations']
        b_distinct += r['distinct']
        b_samples += r['samples'][:1]
        for f in r['failures']:
            if f['known']:
                b_known[f['known']] = b_known.get(f['known'], 0) + 1
            else:
                oid = f'{r["instance"]}/{f["case"]}#bounded'
                if not any(v[0].startswith(r['instance'] + '/' + f['case']) for v in violations):
                    path = _write_replay(pid, oid, dict(kind='unit-bounded', property=pid, obligation=oid, unit=r['unit'], ii=r['ii'],
                                                         case=f['case'], inputs=f['inputs'], observed=f['observed'],
                                                         how='run-time contract failed on an enumerated input (bounded layer)'))
                    violations.append((oid, path, ''))

    # ---- drivers
    d_evals = d_distinct = 0
    d_summ = []
    for did, chunks in driver_chunks.items():
        ev = sum(c['evaluations'] for c in chunks)
        dn = sum(c['distinct_nontrivial'] for c in chunks)
        d_evals += ev
        d_distinct += dn
        nf = sum(c['n_failures'] for c in chunks)
        seen_fail = 0
        for c in chunks:
            for f in c['failures']:
                if f.get('oracle_crash'):
                    checker_errors.append(f'{did}: {f["observed"]} on {json.dumps(f["case"], default=str)[:200]}')
                    continue
                if f['known']:
                    b_known[f['known']] = b_known.get(f['known'], 0) + 1
                    continue
                seen_fail += 1
                if seen_fail <= 5:
                    oid = f'{did}#{seen_fail}'
                    path = _write_replay(pid, oid, dict(kind='driver', property=pid, obligation=did, case=f['case'],
                                                         expected=f['expected'], observed=f['observed'],
                                                         how='run-time contract failed on an enumerated case (bounded layer)'))
                    violations.append((oid, path, ''))
        try:
            drv = find_driver(did, setup=False)
            drule, dbound, dexh = drv.rule, drv.bound, bool(getattr(drv, 'exhaustive', False))
        except Exception:      # noqa
            drule, dbound, dexh = '', '', False
        d_summ.append(dict(driver=did, rule=drule, bound=dbound, enumerates_its_domain_completely=dexh, evaluations=ev, distinct_nontrivial=dn, failures=nf,
                           truncated=any(c['truncated'] for c in chunks),
                           samples=[s for c in chunks for s in c['samples']][:2]))

    # ---- known findings: replay each listed witness; print the line only while it still fails
    kf_lines = []
    stale = []
    for e in kf.get('findings', []):
        if e['property'] != pid:
            continue
        still = replay_finding(e, units_by_id)
        if still is None:
            checker_errors.append(f'known finding {e["id"]} cannot be replayed')
        elif still:
            kf_lines.append(f'KNOWN-FINDING: property={pid} {e["obligation"]} region[{e["region"]}] witness {e["witness_text"]} -> {e["observed"]}')
        else:
            stale.append(e['id'])
            print(f'NOTE known finding {e["id"]} no longer reproduces (stale entry)', file=sys.stderr)

    # ---- evidence
    backends = {}
    for ob in real_obs:
        for b, n in ob.get('backends', {}).items():
            backends[b] = backends.get(b, 0) + n
    targets = sorted({m['target'] for m in metas if m.get('target')})
    interpreted = sorted({f for m in metas for f in m.get('interpreted', [])})
    ufs = sorted({f for m in metas for f in m.get('ufs', [])})
    carve = [dict(id=r['id'], obligation=u.id, region=r['region']) for u in units_by_id.values() for r in u.kf_regions]
    proof_complete = n_ob > 0 and n_proved == n_ob and not carve
    level = cfg.get('level', 'other')
    if level == 'proof' and not proof_complete:
        level = 'other'
    solver_time = round(sum(ob.get('time_s', 0) for ob in obligations), 2)
    samples = []
    for ob in real_obs[:3]:
        samples.append(dict(obligation=ob['id'], verdict=ob['verdict'], paths=ob['paths'], queries=ob['queries'], backends=ob['backends']))
    samples += b_samples[:2]
    for d in d_summ:
        samples += d['samples'][:1]
    evaluations = b_evals + d_evals
    distinct = b_distinct + d_distinct
    explanation = cfg.get('explanation', '')
    explanation += (f' This run: {n_proved}/{n_ob} proof obligations discharged ({len(undecided)} undecided, {len(refuted)} refuted); '
                    f'bounded layer (never counted as proved): {evaluations} run-time contract evaluations, '
                    f'{distinct} distinct non-trivial.')
    ev = dict(
        property_id=pid, tier=tier, seed=seed, level=level,
        coverage=dict(
            obligations=n_ob, discharged=n_proved,
            checker_cmd=f'./check {pid} --tier {tier}  (pyvc: python ast -> verification conditions; z3 {_z3v()} API, /usr/bin/cvc5 --strings-exp and z3-new CLI for unknowns)',
            trusted_base=cfg.get('trusted_base', []) + [f'uninterpreted builtin: {u}' for u in ufs],
            evaluations=max(evaluations, 0), distinct_nontrivial=distinct,
            rule=cfg.get('rule', 'bounded layer (never counted as proved). (a) every unit contract evaluated natively on the product of the small domains declared '
                         'for its input shapes (capped per unit; a case is one input tuple, distinct by its printed value). (b) drivers - a case is one '
                         'generated formula / model / history / file, distinct by its JSON form, non-trivial by the driver\'s own filter: '
                         + ' || '.join(f'{d["driver"]}: {d["rule"]} [bound: {d["bound"]}]' for d in d_summ))[:6000],
            samples=samples or [dict(note='no samples')],
            explanation=explanation,
            exhaustive=False,
            functions_under_contract=[dict(function=t, source_sha256_16=src_hash(t)) for t in targets],
            inlined_from_real_source=[f for f in interpreted if f not in targets],
            by_backend=backends, solver_time_s=solver_time,
            undecided=[dict(obligation=ob['id'], reason=(ob['reasons'] or ['?'])[0][:300]) for ob in undecided][:60],
            n_undecided=len(undecided), undecided_regressions_vs_baseline=[ob['id'] for ob in regressed][:40],
            unwitnessed_violations=[ob['id'] for ob in unwitnessed][:40],
            refuted=[dict(obligation=ob['id'], witness=ob['witness']['inputs'] if ob.get('witness') else None) for ob in refuted][:40],
            bounded=dict(label='bounded - never counted as proved', unit_contract_evaluations=b_evals, drivers=d_summ),
            known_findings=dict(listed=[e['id'] for e in kf.get('findings', []) if e['property'] == pid], stale=stale,
                                carved_out_regions_not_proved=carve, failures_inside_regions=b_known),
            checker_errors=checker_errors[:20],
            unit_instances=len(metas), paths=sum(m.get('paths', 0) for m in metas),
        ),
        assumptions=cfg.get('assumptions', []),
        wall_s=round(wall, 2),
        violations=len(violations),
    )
    os.makedirs(os.path.join(ROOT, 'evidence'), exist_ok=True)
    with open(os.path.join(ROOT, 'evidence', f'{pid}.json'), 'w') as f:
        json.dump(ev, f, indent=1, default=str)

    for l in kf_lines:
        print(l)
    print(f'SUMMARY property={pid} tier={tier} obligations={n_ob} discharged={n_proved} undecided={len(undecided)} '
          f'refuted={len(refuted)} bounded_evaluations={evaluations} known_findings={len(kf_lines)} wall={wall:.1f}s')
    if os.environ.get('PYVC_DUMP_PROVED'):
        with open(os.environ['PYVC_DUMP_PROVED'], 'w') as f:
            json.dump(sorted(ob['id'] for ob in real_obs if ob['verdict'] == 'proved'), f)
    for ob in regressed[:10]:
        print(f'UNDECIDED-REGRESSION property={pid} obligation={ob["id"]} (discharged on the reference tree, undecided now: {(ob["reasons"] or ["?"])[0][:140]})')
    for u in undecided[:8]:
        print(f'  undecided {u["id"]}: {(u["reasons"] or ["?"])[0][:160]}', file=sys.stderr)
    if checker_errors:
        for c in checker_errors[:10]:
            print(f'CHECKER-ERROR property={pid} {c[:600]}')
        if not violations:
            return 3
    if n_ob == 0 and evaluations == 0:
        print(f'CHECKER-ERROR property={pid} zero obligations')
        return 3
    if violations:
        for oid, path, suffix in violations[:25]:
            print(f'VIOLATION property={pid} replay={path}{(" " + suffix) if suffix else ""}')
        return 1
    return 0


def baseline_proved(pid):
    """ids of the obligations discharged on the reference tree (committed; written by tools/gen_baseline.py, never by a check)"""
    try:
        with open(os.path.join(ROOT, 'baseline', 'discharged.json')) as f:
            return set(json.load(f).get(pid, []))
    except Exception:
        return set()


def _z3v():
    try:
        import z3
        return z3.get_version_string()
    except Exception:
        return '?'


def replay_finding(e, units_by_id):
    """-> True (still fails), False (no longer fails), None (cannot replay)"""
    try:
        if e.get('kind', 'unit') == 'unit':
            from . import engine
            u = units_by_id.get(e['obligation'])
            if u is None:
                for modname in e.get('modules', []):
                    pass
                return None
            inst = list(u.instances())[e['instance_index']]
            args = [shape.concretise(name, e['witness']) for name, shape in inst.inputs]
            fn = engine.resolve(u.target)
            out = engine.native_outcome(u, fn, args)
            verdicts = engine.eval_contract_native(u, args, out)
            if verdicts is None:
                return False
            return any(not ok for c, ok in verdicts if (e.get('case') in (None, c)))
        else:
            drv = find_driver(e['obligation'])
            ok, exp, obs = drv.oracle(e['witness'])
            return not ok
    except Exception as ex:
        print(f'NOTE replay of {e.get("id")} failed: {type(ex).__name__}: {ex}', file=sys.stderr)
        return None


def find_driver(did, setup=True):
    from contracts import registry
    for pid, cfg in registry.PROPS.items():
        for modname in cfg.get('driver_modules', []):
            mod = importlib.import_module(modname)
            for d in mod.DRIVERS:
                if d.id == did:
                    if d.setup and setup:
                        d.setup()
                    return d
    raise KeyError(did)


def replay_file(path):
    """re-run the failing input recorded in a replay file against the real code in /repo's working tree"""
    from . import engine
    from .cli import _load_units
    from contracts import registry
    with open(path) as f:
        r = json.load(f)
    pid = r['property']
    print(f'replaying {r["obligation"]} ({r["kind"]})')
    if r['kind'] == 'driver':
        drv = find_driver(r['obligation'])
        ok, exp, obs = drv.oracle(r['case'])
        print(f'  case     {json.dumps(r["case"], default=str)[:400]}\n  expected {exp}\n  observed {obs}')
        print('  -> contract', 'HOLDS now' if ok else 'VIOLATED')
        return 0 if ok else 1
    cfg = registry.PROPS[pid]
    for modname in cfg.get('unit_modules', []):
        mod, units = _load_units(modname)
        for u in units:
            if u.id != r['unit']:
                continue
            for ii, inst in enumerate(u.instances()):
                if r['kind'] == 'unit' and inst.label == r['instance']:
                    args = [shape.concretise(name, r['witness']['assign']) for name, shape in inst.inputs]
                elif r['kind'] == 'unit-bounded' and ii == r['ii']:
                    import itertools
                    args = None
                    for combo in itertools.product(*[s.domain() for _, s in inst.inputs]):
                        if [engine._short(a, 40) for a in combo] == r['inputs']:
                            args = list(combo)
                            break
                    if args is None:
                        print('  input not found in the enumerated domain (domain changed)')
                        return 3
                else:
                    continue
                fn = engine.resolve(u.target)
                out = engine.native_outcome(u, fn, args)
                verdicts = engine.eval_contract_native(u, args, out)
                print(f'  inputs   {[engine._short(a) for a in args]}\n  observed {out!r}\n  clauses  {verdicts}')
                bad = verdicts is not None and any(not ok for _, ok in verdicts)
                print('  -> contract', 'VIOLATED' if bad else 'HOLDS now')
                return 1 if bad else 0
    print('  obligation not found')
    return 3
