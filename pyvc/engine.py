"""Units (a real function + its sidecar contract), VC generation, discharge, counterexample replay.

A `Unit` names one real function of /repo (`target`), declares its inputs as *shapes* (symbolic leaves inside
real objects) and gives the contract as `requires` and named `cases` (guard, ensures) written in ordinary Python
against the operators of `pyvc.sym` / `pyvc.spec`, so the same clause text is evaluated

  * symbolically  - per path of the real code: (path condition AND requires AND guard) => ensures, sent to z3/cvc5;
  * natively      - on concrete values: the oracle of counterexample replay, of the CPython cross-check and of
                    the bounded run-time-contract layer.
"""
import ast
import datetime
import importlib
import itertools
import json
import random
import re
import time
import traceback

import z3

from . import sym as S
from .sym import Sym, Unsupported, is_sym, lift, B, And, Or, Not, Implies
from .interp import Interp, RaiseEx, deep_has_sym, Path
from . import models, solve
from . import models_datetime  # noqa: F401  (registers the datetime models)
from . import models_decimal   # noqa: F401  (registers the decimal models)


def resolve(qualname):
    mod, _, attr = qualname.partition(':')
    o = importlib.import_module(mod)
    for p in attr.split('.'):
        o = getattr(o, p)
    return o


class Outcome:
    """what a call did: kind 'ret' (value = returned object) or 'raise' (value = exception instance)"""

    def __init__(self, kind, value):
        self.kind, self.value = kind, value

    @property
    def returned(self):
        return self.kind == 'ret'

    def __repr__(self):
        return f'{self.kind}:{_short(self.value)}'


def _short(v, n=160):
    try:
        r = repr(v)
    except Exception as ex:           # noqa
        r = f'<unreprable {type(v).__name__}>'
    if isinstance(v, BaseException):
        r = f'{type(v).__name__}({str(v)[:80]!r})'
    return r if len(r) <= n else r[:n] + '...'


# ---------------------------------------------------------------------------------------------------------------------
# shapes
# ---------------------------------------------------------------------------------------------------------------------
class Shape:
    label = '?'

    def make(self, name):
        """-> (object handed to the real code, {varname: Sym})"""
        raise NotImplementedError

    def concretise(self, name, assign):
        raise NotImplementedError

    def domain(self):
        """small exhaustive domain of native values for the bounded layer"""
        return []

    def sample(self, rng):
        d = self.domain()
        return rng.choice(d)

    def nice(self, name, vars_):
        """optional readability constraints tried first when extracting a counterexample"""
        return []


INT_DOMAIN = [-3, -1, 0, 1, 2, 3, 5, 10, 255]
REAL_DOMAIN = [-2.5, -1.0, -0.5, 0.0, 0.5, 1.0, 1.5, 2.0, 3.0, 10.25]
STR_DOMAIN = ['', 'a', 'ab', 'abcabc', 'Hello World', ' x ', '12', 'TRUE', 'aXa', 'é"', "it's"]


class Prim(Shape):
    def __init__(self, kind, domain=None, label=None):
        self.kind = kind
        self.dom = domain
        self.label = label or {'int': 'int', 'real': 'float', 'bool': 'bool', 'str': 'str'}[kind]

    def make(self, name):
        v = S.var(self.kind, name)
        return v, {name: v}

    def concretise(self, name, assign):
        return assign[name]

    def domain(self):
        if self.dom is not None:
            return list(self.dom)
        return {'int': INT_DOMAIN, 'real': REAL_DOMAIN, 'bool': [False, True], 'str': STR_DOMAIN}[self.kind]

    def nice(self, name, vars_):
        v = vars_[name]
        if self.kind == 'int':
            return [z3.And(v.t >= -1000, v.t <= 1000)]
        if self.kind == 'real':
            return [z3.And(v.t >= -1000, v.t <= 1000, z3.IsInt(v.t * 4))]
        if self.kind == 'str':
            return [z3.Length(v.t) <= 6, z3.InRe(v.t, z3.Star(z3.Range(' ', '~')))]
        return []


class _Omitted:
    def __repr__(self):
        return '<omitted>'


OMITTED = _Omitted()      # placeholder for "argument not passed" (trailing optional parameters)


def call_dropping_omitted(it, fn, *vals):
    vals = list(vals)
    while vals and vals[-1] is OMITTED:
        vals.pop()
    return it.call(fn, vals, {})


def native_dropping_omitted(fn, *vals):
    vals = list(vals)
    while vals and vals[-1] is OMITTED:
        vals.pop()
    return fn(*vals)


class Const(Shape):
    def __init__(self, value, label=None):
        self.value = value
        self.label = label or f'const({value!r})'

    def make(self, name):
        return self.value, {}

    def concretise(self, name, assign):
        return self.value

    def domain(self):
        return [self.value]


class Xl(Shape):
    """An instance of one of the repository's Excel value classes with a symbolic `.value`."""

    def __init__(self, cls_name, kind, domain=None):
        self.cls_name, self.kind, self.dom = cls_name, kind, domain
        self.label = f'{cls_name}[{ {"int": "int", "real": "float", "bool": "bool", "str": "str"}[kind]}]'

    @property
    def cls(self):
        from xlcalculator.xlfunctions import func_xltypes
        return getattr(func_xltypes, self.cls_name)

    def make(self, name):
        v = S.var(self.kind, name + '.value')
        o = object.__new__(self.cls)
        o.value = v
        return o, {name + '.value': v}

    def concretise(self, name, assign):
        return self.cls(assign[name + '.value'])

    def domain(self):
        d = self.dom if self.dom is not None else Prim(self.kind).domain()
        return [self.cls(x) for x in d]

    def nice(self, name, vars_):
        return Prim(self.kind).nice(name + '.value', vars_)


class XlBlank(Shape):
    label = 'Blank'

    def make(self, name):
        from xlcalculator.xlfunctions import func_xltypes
        return func_xltypes.BLANK, {}

    def concretise(self, name, assign):
        from xlcalculator.xlfunctions import func_xltypes
        return func_xltypes.BLANK

    def domain(self):
        from xlcalculator.xlfunctions import func_xltypes
        return [func_xltypes.BLANK]


class XlErr(Shape):
    def __init__(self, cls_name):
        self.cls_name = cls_name
        self.label = cls_name

    def _mk(self):
        from xlcalculator.xlfunctions import xlerrors
        return getattr(xlerrors, self.cls_name)('seeded by pyvc')

    def make(self, name):
        return self._mk(), {}

    def concretise(self, name, assign):
        return self._mk()

    def domain(self):
        return [self._mk()]


class XlDate(Shape):
    """DateTime whose value is a symbolic whole day (time of day 0) - see models_datetime."""
    label = 'DateTime[day]'

    def make(self, name):
        from xlcalculator.xlfunctions import func_xltypes
        from . import models_datetime as MD
        v = S.var('int', name + '.ordinal')
        o = object.__new__(func_xltypes.DateTime)
        o.value = MD.SymDateTime(v, 0)
        return o, {name + '.ordinal': v}

    def concretise(self, name, assign):
        from xlcalculator.xlfunctions import func_xltypes
        return func_xltypes.DateTime(datetime.datetime.fromordinal(assign[name + '.ordinal']))

    def domain(self):
        from xlcalculator.xlfunctions import func_xltypes
        return [func_xltypes.DateTime(datetime.datetime(y, m, d)) for (y, m, d) in
                ((1900, 1, 1), (1900, 3, 1), (1999, 12, 31), (2024, 2, 29))]

    def nice(self, name, vars_):
        v = vars_[name + '.ordinal']
        return [z3.And(v.t >= 693596, v.t <= 750000)]

    def requires(self, name, vars_):
        v = vars_[name + '.ordinal']
        return [z3.And(v.t >= 693596, v.t <= 3652059)]      # 1900-01-01 .. 9999-12-31


ERROR_CLASSES = ['NullExcelError', 'DivZeroExcelError', 'ValueExcelError', 'RefExcelError', 'NameExcelError',
                 'NumExcelError', 'NaExcelError']


def xl_scalar_shapes(numbers=True, text=True, boolean=True, blank=True, date=False, errors=False):
    out = []
    if numbers:
        out += [Xl('Number', 'int'), Xl('Number', 'real')]
    if text:
        out.append(Xl('Text', 'str'))
    if boolean:
        out.append(Xl('Boolean', 'bool'))
    if blank:
        out.append(XlBlank())
    if date:
        out.append(XlDate())
    if errors:
        out += [XlErr(c) for c in ERROR_CLASSES]
    return out


class Fork:
    """an input whose class is one of several shapes: the unit is instantiated once per combination"""

    def __init__(self, shapes):
        self.shapes = list(shapes)


class Case:
    def __init__(self, name, guard, ensures, proof=True, escalate=False):
        """proof=False: the clause is out of the solvers' reach (stated in DESIGN.md); it is only evaluated by the
        bounded layer and is never counted as a proof obligation.
        escalate=True (only meaningful in a ghost unit): the clause restates the PROPERTY itself over state a native run
        cannot observe; if it was discharged on the reference tree and its verification condition now has a counter-model,
        that is reported as a violation without a failing input (DESIGN 'unwitnessed violations').  Clauses that are proof
        devices stronger than the property (read frames, call order) never escalate: they go undecided."""
        self.name, self.guard, self.ensures, self.proof, self.escalate = name, guard, ensures, proof, escalate


class Unit:
    def __init__(self, id, target, inputs, cases, requires=None, call=None, allowed_raises=(), canary=None,
                 axioms=None, prop=None, doc='', setup=None, native_call=None, max_paths=4000, timeout_ms=None,
                 bounded_domain_cap=4000, kf_regions=None, feas_timeout_ms=2000, fork=None, extra_combos=(), cross_key=None, ghost=False):
        self.cross_key = cross_key
        # ghost=True: the clauses consult state only the interpreted run can observe (attribute reads / writes, the order of
        # collaborator calls): a counterexample of such a clause cannot be confirmed by running the function natively
        self.ghost = ghost
        self.fork = fork
        self.extra_combos = list(extra_combos)
        self.id, self.target, self.inputs, self.cases = id, target, inputs, cases
        self.requires = requires or (lambda *a: True)
        self.call = call
        self.native_call = native_call
        self.allowed_raises = tuple(allowed_raises)
        self.canary = canary
        self.axioms = axioms
        self.prop = prop or id.split('/')[0]
        self.doc = doc
        self.setup = setup
        self.max_paths = max_paths
        self.timeout_ms = timeout_ms
        self.bounded_domain_cap = bounded_domain_cap
        self.kf_regions = kf_regions or []
        self.feas_timeout_ms = feas_timeout_ms

    def instances(self):
        """class-fork instances.  fork='product': every combination; fork='star' (default for >2 forked inputs):
        the first shape of every input, then each alternative of each input with the others at their first shape
        (arguments are converted independently by `validate_args`, one `_validate` call per parameter)."""
        names = [n for n, _ in self.inputs]
        options = [s.shapes if isinstance(s, Fork) else [s] for _, s in self.inputs]
        mode = self.fork or ('product' if sum(1 for o in options if len(o) > 1) <= 1 else 'star')
        if mode == 'product':
            for combo in itertools.product(*options):
                yield UnitInstance(self, list(zip(names, combo)))
            return
        seen = set()
        base = [o[0] for o in options]
        combos = [list(base)]
        for i, o in enumerate(options):
            for alt in o[1:]:
                c = list(base)
                c[i] = alt
                combos.append(c)
        for extra in self.extra_combos:
            combos.append([options[i][j] for i, j in enumerate(extra)])
        for c in combos:
            key = tuple(id(x) for x in c)
            if key in seen:
                continue
            seen.add(key)
            yield UnitInstance(self, list(zip(names, c)))


class Lemma(Unit):
    """A lemma over contracts: mathematics about the spec functions (never mentions code).  `statement(*vals)` is
    proved for all values; `native(*args)` states the same fact through the REAL functions and is evaluated by the
    bounded layer on the enumerated domain."""
    is_lemma = True

    def __init__(self, id, inputs, statement, requires=None, native=None, doc='', **kw):
        super().__init__(id=id, target=None, inputs=inputs, cases=[], requires=requires, doc=doc, **kw)
        self.statement, self.native = statement, native


class UnitInstance:
    def __init__(self, unit, inputs):
        self.unit, self.inputs = unit, inputs
        self.label = ','.join(s.label for _, s in inputs)
        self.id = unit.id + ('[' + self.label + ']' if any(isinstance(s, Fork) for _, s in unit.inputs) else '')


# ---------------------------------------------------------------------------------------------------------------------
# symbolic run of one instance
# ---------------------------------------------------------------------------------------------------------------------
def _assign_from_model(model, vars_):
    out = {}
    for n, v in vars_.items():
        val = S.py_val(model.eval(v.t, model_completion=True), v.k)
        if v.k == 'str':
            val = models.z3str_to_py(model.eval(v.t, model_completion=True))
        if v.k == 'real':
            val = float(val)
        out[n] = val
    return out


def _uf_facts(model, assertions):
    """true facts about uninterpreted builtins at the points the model touches (sound: only true facts)"""
    facts = []
    seen = set()

    def walk(t):
        if t.get_id() in seen:
            return
        seen.add(t.get_id())
        if z3.is_app(t):
            d = t.decl()
            u = S.UF.registry.get(d.name())
            if u is not None and t.num_args() == len(u.arg_kinds):
                try:
                    cargs = []
                    zargs = []
                    for a, k in zip(t.children(), u.arg_kinds):
                        mv = model.eval(a, model_completion=True)
                        pv = models.z3str_to_py(mv) if k == 'str' else S.py_val(mv, k)
                        if k == 'real':
                            fv = float(pv)
                            zargs.append(S.real_val(fv))
                            pv = fv
                        else:
                            zargs.append(mv)
                        cargs.append(pv)
                    val = u.native(*cargs)
                    lv = lift(val)
                    if u.ret_kind == 'real':
                        rv = S.to_real(lv)
                    elif u.ret_kind == 'int':
                        rv = S.to_int(lv)
                    else:
                        rv = lv.t
                    facts.append(u.f(*zargs) == rv)
                except Exception:
                    pass
            for c in t.children():
                walk(c)
    for a in assertions:
        walk(a)
    return facts


HARNESS_OBJECT = re.compile(r"^'(Stub|Obj|O|N|_N|C|Ctx|Ev|Book|FakeFile|Encoded)' object has no attribute")


class NotReachable(Exception):
    """raised by a unit's native companion when the state the verifier proposed cannot be produced by running the real
    function from its entry: the proposed input is then no counterexample (and no bounded evaluation)"""


def harness_gap(exc):
    """the code under contract read an attribute of an OPAQUE collaborator that the harness does not model: the contract
    does not speak about such a run (undecided - the unit needs a richer collaborator), it is not a failure of the code"""
    if isinstance(exc, NotReachable):
        return True
    return isinstance(exc, AttributeError) and bool(HARNESS_OBJECT.match(str(exc)))


def native_outcome(unit, fn, args):
    try:
        if unit.native_call is not None:
            return Outcome('ret', unit.native_call(fn, *args))
        return Outcome('ret', fn(*args))
    except Exception as ex:     # noqa
        return Outcome('raise', ex)


def eval_contract_native(unit, args, out):
    """-> list of (case name, ok) for the cases whose guard holds; [] if `requires` does not hold"""
    try:
        if not unit.requires(*args):
            return None
    except Exception:
        return None
    res = []
    if out.kind == 'raise' and harness_gap(out.value):
        return None
    if out.kind == 'raise' and not isinstance(out.value, unit.allowed_raises):
        res.append(('no_python_exception', False))
    else:
        res.append(('no_python_exception', True))
    for c in unit.cases:
        try:
            g = c.guard(*args)
        except Exception:
            g = False
        if g:
            try:
                ok = bool(c.ensures(*args, out))
            except Exception as ex:   # a clause that cannot be evaluated on this outcome is not satisfied
                ok = False
            res.append((c.name, ok))
    return res


class ObligationResult(dict):
    pass


def run_instance(inst, tier='quick', seed=0):
    """symbolic exploration + discharge of every case of one unit instance -> list of obligation dicts"""
    unit = inst.unit
    t_start = time.time()
    timeout_ms = unit.timeout_ms or (10000 if tier == 'quick' else 60000)
    if getattr(unit, 'is_lemma', False):
        return _run_lemma(inst, timeout_ms)
    fn = resolve(unit.target)
    it = Interp(max_paths=unit.max_paths, feas_timeout_ms=unit.feas_timeout_ms)
    models.USED_UFS.clear()
    del models.AXIOM_INSTANCES[:]
    vals, vars_ = [], {}
    made = {}

    def build():
        vals.clear()
        vars_.clear()
        for name, shape in inst.inputs:
            if name not in made:
                made[name] = shape.make(name)
            v, vs = made[name]
            vals.append(v)
            vars_.update(vs)

    build()
    base = []
    for name, shape in inst.inputs:
        if hasattr(shape, 'requires'):
            base += shape.requires(name, vars_)
    if unit.axioms is not None:
        base += [B(a) for a in unit.axioms(*vals)]
    req = unit.requires(*vals)
    kf = [r for r in unit.kf_regions]
    carve = [Not(r['fn'](*vals)) for r in kf if r.get('fn') is not None]

    def thunk():
        for b in base:
            it.assume(b)
        it.assume(lift(req) if not is_sym(req) else req)
        for c in carve:
            it.assume(lift(c) if not is_sym(c) else c)
        if unit.setup is not None:
            unit.setup(it, *vals)
        if unit.call is not None:
            return unit.call(it, fn, *vals)
        return it.call(fn, vals, {})

    try:
        paths = it.explore(thunk)
    except Exception as ex:     # interpreter crash: undecided, never a violation
        paths = [(Path([]), ('unsupported', f'interpreter error {type(ex).__name__}: {ex}\n{traceback.format_exc(limit=4)}'))]
    paths = [(p_, (('unsupported', f'harness gap: {v_} (an opaque collaborator lacks an attribute the code now reads)') if k_ == 'raise' and harness_gap(v_) else (k_, v_)))
             for p_, (k_, v_) in paths]
    explore_s = time.time() - t_start

    cases = [Case('no_python_exception', lambda *a: True, None)] + [c for c in unit.cases if c.proof]
    if unit.canary is not None:
        cases.append(Case('canary(must be refuted)', unit.canary.guard, unit.canary.ensures))
    results = []
    for case in cases:
        t0 = time.time()
        ob = dict(id=f'{inst.id}/{case.name}', unit=unit.id, instance=inst.label, case=case.name, target=unit.target,
                  paths=len(paths), queries=0, backends={}, verdict='proved', reasons=[], witness=None,
                  is_canary=case.name.startswith('canary'))
        try:
            guard = case.guard(*vals)
        except Exception as ex:
            ob.update(verdict='undecided', reasons=[f'guard not evaluable: {ex}'])
            results.append(ob)
            continue
        if not is_sym(guard) and not guard:
            ob.update(verdict='not-applicable', covered=False)
            results.append(ob)
            continue
        covered = False
        for path, (kind, value) in paths:
            pre = list(path.pc) + [B(guard)] + list(models.AXIOM_INSTANCES)
            if kind == 'unsupported':
                # undecided only if the path is relevant to this case
                r = solve.solve(pre, timeout_ms=min(timeout_ms, 5000), want_model=False, other_backends=False)
                ob['queries'] += 1
                if r.status != 'unsat':
                    if ob['verdict'] == 'proved':
                        ob['verdict'] = 'undecided'
                    ob['reasons'].append(f'unsupported path: {str(value)[:300]}')
                continue
            out = Outcome(kind, value)
            if case.ensures is None:
                ens = not (kind == 'raise' and not isinstance(value, unit.allowed_raises))
            else:
                try:
                    ens = case.ensures(*vals, out)
                except RaiseEx as ex:
                    ens = False
                except Unsupported as ex:
                    ob['verdict'] = 'undecided' if ob['verdict'] == 'proved' else ob['verdict']
                    ob['reasons'].append(f'clause not encodable on this outcome: {ex}')
                    continue
                except Exception as ex:
                    ens = False          # clause inapplicable to this outcome (e.g. attribute of an exception)
            if not is_sym(ens) and ens:
                # structurally satisfied on this path; still counts for coverage if the path is feasible with guard
                if not covered:
                    r = solve.solve(pre, timeout_ms=3000, want_model=False, other_backends=False)
                    ob['queries'] += 1
                    covered = covered or r.status != 'unsat'
                ob['backends']['structural'] = ob['backends'].get('structural', 0) + 1
                continue
            neg = z3.BoolVal(True) if not is_sym(ens) else z3.Not(B(ens))
            assertions = pre + [neg] + list(models.AXIOM_INSTANCES)
            verdict, info = _discharge(it, inst, unit, fn, case, assertions, vars_, timeout_ms, vals)
            ob['queries'] += info.get('queries', 1)
            for b, n in info.get('backends', {}).items():
                ob['backends'][b] = ob['backends'].get(b, 0) + n
            if verdict == 'unsat':
                if not covered:
                    r = solve.solve(pre, timeout_ms=3000, want_model=False, other_backends=False)
                    covered = covered or r.status != 'unsat'
                continue
            covered = True
            if verdict == 'refuted':
                ob['verdict'] = 'refuted'
                ob['witness'] = info['witness']
                ob['reasons'].append(info.get('detail', ''))
                break
            if getattr(unit, 'ghost', False) and getattr(case, 'escalate', False) and info.get('unconfirmed') and (not is_sym(ens) or not any(models.USED_UFS)):
                # a clause over interpreter-only observations fails on an exactly modelled path: no native witness can exist
                ob['verdict'] = 'unwitnessed'
                ob['witness'] = info['unconfirmed']
                ob['reasons'].append(info.get('detail', ''))
                break
            if ob['verdict'] == 'proved':
                ob['verdict'] = 'undecided'
            ob['reasons'].append(info.get('detail', 'unknown'))
        ob['covered'] = covered
        if not covered and carve and ob['verdict'] == 'proved':
            ob['verdict'] = 'carved-out'      # entirely inside a known-finding region: nothing is claimed
        ob['time_s'] = round(time.time() - t0, 3)
        results.append(ob)
    meta = dict(instance=inst.id, target=unit.target, paths=len(paths), explore_s=round(explore_s, 3),
                solver_calls=it.solver_calls, feas_time_s=round(it.solver_time, 3),
                interpreted=sorted(it.interpreted), ufs=sorted(models.USED_UFS),
                outcomes=_outcome_summary(paths))
    return results, meta


def _run_lemma(inst, timeout_ms):
    unit = inst.unit
    t0 = time.time()
    models.USED_UFS.clear()
    del models.AXIOM_INSTANCES[:]
    vals, vars_ = [], {}
    for name, shape in inst.inputs:
        v, vs = shape.make(name)
        vals.append(v)
        vars_.update(vs)
    ob = dict(id=f'{inst.id}/lemma', unit=unit.id, instance=inst.label, case='lemma', target='(lemma over contracts)',
              paths=0, queries=1, backends={}, verdict='proved', reasons=[], witness=None, is_canary=False, covered=True)
    try:
        req = unit.requires(*vals)
        st = unit.statement(*vals)
        assertions = [B(lift(req) if not is_sym(req) else req)] + list(models.AXIOM_INSTANCES)
        cover = solve.solve(assertions, timeout_ms=5000, other_backends=False)
        ob['covered'] = cover.status != 'unsat'
        if not is_sym(st):
            if not st:
                ob.update(verdict='undecided', reasons=['lemma statement is concretely false'])
        else:
            r = solve.solve(assertions + [z3.Not(B(st))] + list(models.AXIOM_INSTANCES), timeout_ms=timeout_ms)
            ob['backends'][r.backend] = 1
            if r.status == 'sat':
                ob.update(verdict='undecided', reasons=[f'lemma not valid over the spec functions: {str(r.model)[:300]}'])
            elif r.status != 'unsat':
                ob.update(verdict='undecided', reasons=[f'solver unknown: {r.detail}'])
    except Exception as ex:
        ob.update(verdict='undecided', reasons=[f'lemma not encodable: {type(ex).__name__}: {ex}'])
    ob['time_s'] = round(time.time() - t0, 3)
    meta = dict(instance=inst.id, target=None, paths=0, explore_s=0, solver_calls=1, feas_time_s=0, interpreted=[],
                ufs=sorted(models.USED_UFS), outcomes={})
    return [ob], meta


def _outcome_summary(paths):
    c = {}
    for _, (k, v) in paths:
        key = k if k != 'raise' else f'raise {type(v).__name__}'
        if k == 'ret':
            key = f'ret {type(v).__name__}' if not is_sym(v) else f'ret sym {v.k}'
        if k == 'unsupported':
            key = f'unsupported: {str(v)[:120]}'
        c[key] = c.get(key, 0) + 1
    return c


def _discharge(it, inst, unit, fn, case, assertions, vars_, timeout_ms, vals):
    """-> ('unsat'|'refuted'|'undecided', info)"""
    info = {'queries': 0, 'backends': {}}
    facts = []
    nice_by_input = [shape.nice(name, vars_) for name, shape in inst.inputs]
    nice_by_input = [n for n in nice_by_input if n]
    nice = [c for n in nice_by_input for c in n]
    use_nice = bool(nice)
    last_detail = ''
    last_inputs, last_model = {}, ''
    for rnd in range(8):
        r = None
        if use_nice:
            # readable counterexamples: every input "nice"; failing that, all inputs but one (the path may pin one input to an odd value)
            attempts = [nice] + ([[c for j, n in enumerate(nice_by_input) if j != i for c in n] for i in range(len(nice_by_input))]
                                 if 1 < len(nice_by_input) <= 8 else [])
            for cand in attempts:
                r = solve.solve(assertions + facts + cand, timeout_ms=min(timeout_ms, 5000), other_backends=False)
                info['queries'] += 1
                if r.status == 'sat':
                    break
                r = None
        if r is None:
            r = solve.solve(assertions + facts, timeout_ms=timeout_ms)
            info['queries'] += 1
        info['backends'][r.backend] = info['backends'].get(r.backend, 0) + 1
        if r.status == 'unsat':
            return 'unsat', info
        if r.status == 'unknown':
            info['detail'] = f'solver unknown ({r.backend}: {r.detail})'
            return 'undecided', info
        # sat: concretise and replay against the real code
        try:
            assign = _assign_from_model(r.model, vars_)
            args = [shape.concretise(name, assign) for name, shape in inst.inputs]
        except Exception as ex:
            info['detail'] = f'model not concretisable: {ex}'
            return 'undecided', info
        out = native_outcome(unit, fn, args)
        verdicts = eval_contract_native(unit, args, out)
        failed = None
        if verdicts is not None:
            if case.name.startswith('canary'):
                try:
                    ok = bool(case.guard(*args)) and not bool(case.ensures(*args, out))
                except Exception:
                    ok = True
                if ok:
                    failed = case.name
            else:
                for cname, ok in verdicts:
                    if cname == case.name and not ok:
                        failed = cname
        if failed:
            info['witness'] = dict(inputs={n: _short(a) for (n, _), a in zip(inst.inputs, args)},
                                   assign={k: (v if isinstance(v, (int, float, str, bool)) else repr(v)) for k, v in assign.items()},
                                   observed=repr(out), case=case.name, round=rnd,
                                   model=str(r.model)[:1500])
            info['detail'] = f'counterexample replayed natively: {info["witness"]["inputs"]} -> {out!r}'
            return 'refuted', info
        # spurious w.r.t. the real code: the model misread an uninterpreted builtin (or a float rounding)
        new = _uf_facts(r.model, assertions + facts)
        new = [f for f in new if not any(f.eq(g) for g in facts)]
        last_detail = f'model not confirmed natively (inputs {[ _short(a, 60) for a in args]} gave {out!r})'
        last_inputs = {n: _short(a) for (n, _), a in zip(inst.inputs, args)}
        last_model = str(r.model)[:1500]
        if not new:
            # look for another input: first one that differs from this one in EVERY variable (special values such as 0 often
            # hide a difference), else merely a different point
            pt = [v.t == r.model.eval(v.t, model_completion=True) for v in vars_.values()]
            if not pt:
                break
            apart = [z3.Not(e) for e in pt]
            probe = solve.solve(assertions + facts + apart, timeout_ms=min(timeout_ms, 5000), other_backends=False, want_model=False)
            info['queries'] += 1
            if probe.status == 'sat':
                facts += apart
            else:
                facts.append(z3.Not(z3.And(*pt)))
            continue
        facts += new
        # ... and prefer a next input that differs from this one in every variable (0, 1 and the like often hide a difference)
        apart = [z3.Not(v.t == r.model.eval(v.t, model_completion=True)) for v in vars_.values()]
        if apart:
            probe = solve.solve(assertions + facts + apart, timeout_ms=min(timeout_ms, 5000), other_backends=False, want_model=False)
            info['queries'] += 1
            if probe.status == 'sat':
                facts += apart
    # constant-guided native search: the string / integer constants of the verification condition are the
    # values the real code compares against; try them as inputs on the REAL function (a failing one is a
    # genuine counterexample whatever the solver thought of the uninterpreted builtins)
    w = _constant_guided(inst, unit, fn, case, assertions)
    if w is not None:
        info['witness'] = w
        info['detail'] = f'counterexample found among the constants of the verification condition and replayed natively: {w["inputs"]} -> {w["observed"]}'
        return 'refuted', info
    info['detail'] = 'counterexamples could not be confirmed on the real code after instantiation rounds: ' + last_detail
    info['unconfirmed'] = dict(inputs=last_inputs, model=last_model, case=case.name, observed=None, assign={},
                               note='the verification condition has a counter-model; running the real function on it does not show a failure the native run can observe')
    return 'undecided', info


def _constants(assertions):
    strs, ints = set(), set()
    seen = set()

    def walk(t):
        if t.get_id() in seen:
            return
        seen.add(t.get_id())
        if z3.is_string_value(t):
            strs.add(models.z3str_to_py(t))
        elif z3.is_int_value(t):
            v = t.as_long()
            if abs(v) < 10 ** 15:
                ints.update((v - 1, v, v + 1))
        for c in t.children():
            walk(c)
    for a in assertions:
        walk(a)
    return strs, ints


def _constant_guided(inst, unit, fn, case, assertions, cap=600):
    strs, ints = _constants(assertions)
    strs = sorted(strs | {s.upper() for s in strs} | {s.capitalize() for s in strs})[:40]
    ints = sorted(ints, key=abs)[:40]
    doms = []
    for name, shape in inst.inputs:
        kinds = getattr(shape, 'kind', None)
        if kinds == 'str':
            vals = strs
        elif kinds == 'int':
            vals = ints
        elif kinds == 'real':
            vals = [float(i) for i in ints] + [i + 0.5 for i in ints[:10]]
        else:
            vals = None
        if vals is None or not vals:
            doms.append(shape.domain()[:6] or [None])
        else:
            key = name if isinstance(shape, Prim) else name + '.value'
            # the constants of the condition first, then the unit's declared representative inputs
            doms.append([shape.concretise(name, {key: v}) for v in vals] + list(shape.domain()[:24]))
    # three sweeps: the product in written order (constants of the condition first), the product of the declared representative inputs
    # alone, and seeded random combinations of both (the product order keeps the first inputs at their first value for a long time)
    import random as _random
    rng = _random.Random(20260928)
    declared = [list(shape.domain()[:24]) or [None] for _, shape in inst.inputs]

    def combos():
        for src in (doms, declared):
            for n, combo in enumerate(itertools.product(*src)):
                if n >= cap:
                    break
                yield combo
        for _ in range(cap):
            yield tuple(rng.choice(d) for d in doms)
        for _ in range(cap):
            yield tuple(rng.choice(d) for d in declared)
    for combo in combos():
        args = list(combo)
        try:
            out = native_outcome(unit, fn, args)
            verdicts = eval_contract_native(unit, args, out)
        except Exception:
            continue
        if verdicts is None:
            continue
        for cname, ok in verdicts:
            if cname == case.name and not ok:
                return dict(inputs={nm: _short(a) for (nm, _), a in zip(inst.inputs, args)},
                            assign=_assign_of(inst, args), observed=repr(out), case=case.name,
                            found_by='constants of the verification condition', model=None)
    return None


def _assign_of(inst, args):
    out = {}
    for (name, shape), a in zip(inst.inputs, args):
        if isinstance(shape, Prim):
            out[name] = a
        elif isinstance(shape, Xl):
            out[name + '.value'] = a.value
    return out


# ---------------------------------------------------------------------------------------------------------------------
# native companions of a unit: CPython cross-check of the interpreter and the bounded run-time-contract layer
# ---------------------------------------------------------------------------------------------------------------------
def _same_value(x, y, depth=0):
    if type(x) is not type(y):
        return isinstance(x, (int, float)) and isinstance(y, (int, float)) and not isinstance(x, bool) and not isinstance(y, bool) and x == y
    if isinstance(x, BaseException):
        return True
    if isinstance(x, (tuple, list)):
        return len(x) == len(y) and all(_same_value(a, b, depth + 1) for a, b in zip(x, y))
    try:
        from xlcalculator.xlfunctions import func_xltypes
        if isinstance(x, func_xltypes.ExcelType):
            if isinstance(x.value, float) and isinstance(y.value, float):
                # (floating-point rounding is outside the interpreter's model: builtin sum() is compensated, etc.)
                return x.value == y.value or x.value != x.value or abs(x.value - y.value) <= 1e-12 * max(abs(x.value), abs(y.value))
            return type(x.value) is type(y.value) and (x.value == y.value or x.value != x.value)
        if isinstance(x, float):
            return x == y or abs(x - y) <= 1e-12 * max(abs(x), abs(y))
        r = (x == y)
        return bool(r) if isinstance(r, bool) else True
    except Exception:
        return True


def _same_outcome(a, b):
    if a.kind != b.kind:
        return False
    if a.kind == 'raise':
        return type(a.value) is type(b.value)
    return _same_value(a.value, b.value)


def crosscheck_instance(inst, n=6, seed=0):
    """run the interpreter on concrete inputs and compare with CPython (guards the interpreter + builtin models)"""
    unit = inst.unit
    if getattr(unit, 'is_lemma', False):
        return dict(instance=inst.id, checked=0, disagreements=[])
    fn = resolve(unit.target)
    rng = random.Random(hash((seed, inst.id)) & 0xffffffff)
    bad, done = [], 0
    for _ in range(n):
        try:
            args = [shape.sample(rng) for _, shape in inst.inputs]
        except (IndexError, NotImplementedError):
            break
        try:
            if not unit.requires(*args):
                continue
        except Exception:
            continue
        nat = native_outcome(unit, fn, [_clone(a) for a in args])
        if nat.kind == 'raise' and harness_gap(nat.value):
            continue                        # the sampled state cannot be produced natively: nothing to compare
        it = Interp()

        def thunk():
            if unit.setup is not None:
                unit.setup(it, *args)
            if unit.call is not None:
                return unit.call(it, fn, *args)
            return it.call(fn, list(args), {})
        res = it.explore(thunk)
        done += 1
        if len(res) != 1:
            bad.append(dict(inputs=[_short(a) for a in args], problem=f'{len(res)} paths on concrete input'))
            continue
        k, v = res[0][1]
        if k == 'unsupported':
            continue
        if unit.cross_key is not None and k == 'ret' and nat.kind == 'ret':
            try:
                same = unit.cross_key(v) == unit.cross_key(nat.value)
            except Exception:
                same = False
        else:
            same = _same_outcome(Outcome(k, v), nat)
        if not same:
            bad.append(dict(inputs=[_short(a) for a in args], interp=repr(Outcome(k, v)), cpython=repr(nat)))
    return dict(instance=inst.id, checked=done, disagreements=bad)


def _clone(a):
    return a


def bounded_instance(inst, cap=None, seed=0, extra_random=0):
    """the same contract as a run-time monitor over the exhaustively enumerated small domain of the shapes"""
    unit = inst.unit
    fn = resolve(unit.target) if unit.target else None
    doms = [shape.domain() for _, shape in inst.inputs]
    total = 1
    for d in doms:
        total *= max(1, len(d))
    cap = cap or unit.bounded_domain_cap
    rng = random.Random(hash((seed, inst.id, 'b')) & 0xffffffff)
    if total <= cap:
        combos = itertools.product(*doms)
        exhaustive = True
    else:
        combos = (tuple(rng.choice(d) for d in doms) for _ in range(cap))
        exhaustive = False
    evals = 0
    distinct = set()
    failures = []
    samples = []
    for args in combos:
        args = list(args)
        if getattr(unit, 'is_lemma', False):
            if unit.native is None:
                continue
            try:
                if not unit.requires(*args):
                    continue
                ok = bool(unit.native(*args))
                out = Outcome('ret', ok)
            except Exception as ex:     # noqa
                ok, out = False, Outcome('raise', ex)
            verdicts = [('lemma(through the real functions)', ok)]
        else:
            out = native_outcome(unit, fn, args)
            verdicts = eval_contract_native(unit, args, out)
        if verdicts is None:
            continue
        evals += 1
        key = (tuple(_short(a, 40) for a in args))
        distinct.add(key)
        if len(samples) < 3:
            samples.append(dict(inputs=list(key), outcome=repr(out)))
        for cname, ok in verdicts:
            if not ok:
                in_region = None
                for r in unit.kf_regions:
                    try:
                        if r.get('fn') is not None and r['fn'](*args):
                            in_region = r['id']
                            break
                    except Exception:
                        pass
                failures.append(dict(case=cname, inputs=list(key), observed=repr(out), known=in_region))
    return dict(instance=inst.id, evaluations=evals, distinct=len(distinct), exhaustive=exhaustive,
                domain_size=total, failures=failures[:50], n_failures=len(failures), samples=samples)
