"""pyvc interpreter: symbolic execution of the *real* source of /repo (DESIGN.md section 2).

* The AST interpreted is parsed from the files under /repo on every run (`func_ast`); module globals, classes,
  decorators, signatures and tables are the real imported objects.  Instances of repository classes are real
  instances whose slots may hold `Sym` leaves.
* A branch on a symbolic Bool asks the solver which sides are feasible and explores both by deterministic
  re-execution under a decision prefix (no state copying).
* What is dropped from the real text: docstrings, `logging.*` calls, the text of f-string messages that only
  feed exception messages (they are built, but never inspected unless a contract does so).
"""
import ast
import builtins
import functools
import inspect
import operator as pyop
import os
import sys
import time
import types

import z3

from .sym import (Sym, Unsupported, SymLeak, is_sym, is_prim, lift, fresh, arith, cmp, slice_, to_int, to_real,
                  B, And, Or, Not, Ite, num)
from . import sym as S

REPO = os.environ.get('PYVC_REPO', '/repo')
REPO_PREFIX = os.path.realpath(REPO) + os.sep


class ReturnEx(Exception):
    def __init__(self, v):
        self.v = v


class RaiseEx(Exception):
    """A Python exception raised by the interpreted program (carries the real exception instance)."""

    def __init__(self, exc):
        self.exc = exc


class BreakEx(Exception):
    pass


class ContinueEx(Exception):
    pass


class PathDead(Exception):
    """Path condition unsatisfiable, or path deliberately ended (loop cut)."""


class InterpFunction:
    """A def/lambda met while interpreting (closure over the interpreter's Env)."""

    def __init__(self, node, env, name):
        self.node, self.env, self.name = node, env, name
        self.__name__ = name

    def __repr__(self):
        return f'<InterpFunction {self.name}>'


class ModelFn:
    """A harness-supplied specification standing for a callable (call-by-contract / opaque collaborator)."""

    def __init__(self, fn, name='model'):
        self.fn, self.name = fn, name

    def __repr__(self):
        return f'<ModelFn {self.name}>'


class Stub:
    """Opaque object: attributes are whatever the harness put there (values or ModelFn)."""

    def __init__(self, name, **attrs):
        object.__setattr__(self, '_stub_name', name)
        for k, v in attrs.items():
            object.__setattr__(self, k, v)

    def __repr__(self):
        return f'<Stub {self._stub_name}>'


class _GenClose(BaseException):
    pass


class EagerGen(list):
    """the items of a generator expression, computed at once; `pos` is how many of them next() has handed out"""
    pos = 0

    def take(self):
        if self.pos >= len(self):
            raise StopIteration()
        self.pos += 1
        return self[self.pos - 1]


class GenObject:
    """A generator of the interpreted program.  The body runs in its own thread that alternates STRICTLY with the
    consumer (hand-off by two semaphores - never concurrently), so the interpreter's single path state is shared
    safely and side effects of producer and consumer interleave exactly as in CPython."""

    def __init__(self, it, body_thunk, name):
        import threading
        self.it, self.body_thunk, self.name = it, body_thunk, name
        self.started = self.done = self.closed = False
        self.to_gen, self.to_con = threading.Semaphore(0), threading.Semaphore(0)
        self.msg = None
        it.live_gens.append(self)

    def __repr__(self):
        return f'<pyvc generator {self.name}>'

    def _run(self):
        self.to_gen.acquire()
        GEN_TLS.current = self
        try:
            if self.closed:
                msg = ('end', None)
            else:
                try:
                    msg = ('end', self.body_thunk())
                except _GenClose:
                    msg = ('end', None)
                except BaseException as ex:       # RaiseEx / PathDead / Unsupported: re-raised in the consumer
                    msg = ('exc', ex)
        finally:
            GEN_TLS.current = None
        self.done = True
        self.msg = msg
        self.to_con.release()

    def next(self):
        import threading
        if self.done:
            raise RaiseEx(StopIteration())
        if not self.started:
            self.started = True
            t = threading.Thread(target=self._run, daemon=True)
            t.start()
        depth = self.it.depth
        self.to_gen.release()
        self.to_con.acquire()
        self.it.depth = depth
        kind, v = self.msg
        if kind == 'yield':
            return v
        self.done = True
        if kind == 'end':
            raise RaiseEx(StopIteration(v))
        raise v

    def emit(self, v):
        """called in the generator's thread at a `yield`"""
        self.msg = ('yield', v)
        self.to_con.release()
        self.to_gen.acquire()
        if self.closed:
            raise _GenClose()
        return None                                 # generator.send() is outside the subset

    def close(self):
        if self.done:
            return
        self.closed = True
        if self.started:
            self.to_gen.release()
            self.to_con.acquire()
        self.done = True

    def drain(self):
        out = []
        while True:
            try:
                out.append(self.next())
            except RaiseEx as e:
                if isinstance(e.exc, StopIteration):
                    return out
                raise
            if len(out) > self.it.MAX_CONCRETE_ITER:
                raise Unsupported('iteration bound')


class _Tls:
    pass


import threading as _threading
GEN_TLS = _threading.local()
_gen_fn_cache = {}


def is_generator_node(node):
    """does this def contain a yield of its own (not one of a nested def / lambda)?"""
    k = id(node)
    if k not in _gen_fn_cache:
        found = False
        stack = list(getattr(node, 'body', [])) if not isinstance(node, ast.Lambda) else []
        while stack and not found:
            n = stack.pop()
            if isinstance(n, (ast.Yield, ast.YieldFrom)):
                found = True
            elif isinstance(n, (ast.FunctionDef, ast.AsyncFunctionDef, ast.Lambda, ast.ClassDef)):
                continue
            else:
                stack.extend(ast.iter_child_nodes(n))
        _gen_fn_cache[k] = (found, node)
    return _gen_fn_cache[k][0]


class Path:
    def __init__(self, prefix):
        self.prefix = list(prefix)
        self.i = 0
        self.pc = []
        self.taken = []
        self.events = []        # ghost / frame events in order
        self.notes = []
        self.known = {}         # id of a (simplified) branch condition decided earlier on this path -> its decision
        self.lazysets = {}      # id -> set with symbolic members that may be equal in value (models.settle_set)


_ast_cache = {}
_file_cache = {}


def _file_tree(fn):
    if fn not in _file_cache:
        with open(fn) as f:
            src = f.read()
        tree = ast.parse(src)
        index = {}
        for n in ast.walk(tree):
            if isinstance(n, (ast.FunctionDef, ast.Lambda)):
                first = min([d.lineno for d in getattr(n, 'decorator_list', [])] + [n.lineno])
                index.setdefault((first, getattr(n, 'name', '<lambda>')), []).append(n)
        _file_cache[fn] = (tree, index, src)
    return _file_cache[fn]


def func_ast(f):
    code = f.__code__
    key = (code.co_filename, code.co_firstlineno, code.co_name)
    if key not in _ast_cache:
        tree, index, _ = _file_tree(code.co_filename)
        cands = index.get((code.co_firstlineno, code.co_name))
        if not cands:
            raise Unsupported(f'no ast for {key} (source changed after import?)')
        _ast_cache[key] = cands[0]
    return _ast_cache[key]


def is_repo_func(f):
    return isinstance(f, types.FunctionType) and os.path.realpath(f.__code__.co_filename).startswith(REPO_PREFIX)


def is_repo_obj(o):
    return getattr(type(o), '__module__', '').startswith('xlcalculator')


def deep_has_sym(x, depth=0, seen=None):
    if is_sym(x):
        return True
    if depth > 6:
        return False
    if isinstance(x, (str, int, float, bool, type(None), type, types.FunctionType, types.ModuleType)):
        return False
    if seen is None:
        seen = set()
    if id(x) in seen:
        return False
    seen.add(id(x))
    if isinstance(x, (tuple, list, set, frozenset)):
        return any(deep_has_sym(y, depth + 1, seen) for y in x)
    if isinstance(x, dict):
        return any(deep_has_sym(y, depth + 1, seen) for y in x.values())
    if isinstance(x, SymObject):
        return True
    if is_repo_obj(x) or isinstance(x, Stub):
        for c in type(x).__mro__:
            for s in getattr(c, '__slots__', ()) if not isinstance(getattr(c, '__slots__', ()), str) else (c.__slots__,):
                try:
                    if deep_has_sym(getattr(x, s), depth + 1, seen):
                        return True
                except AttributeError:
                    pass
        d = getattr(x, '__dict__', None)
        if isinstance(d, dict):
            return any(deep_has_sym(y, depth + 1, seen) for y in d.values())
    return False


class SymObject:
    """Base for modelled library objects with symbolic state (datetime, timedelta, Decimal ...).
    Subclasses define `py_types` (what isinstance/type report) and methods `m_<name>(interp, *args)`
    / attributes `a_<name>`; binary operators via `binop(interp, op, other, reflected)`, comparisons via
    `compare(interp, op, other)`."""
    py_type = object


def lookup_special(obj, name):
    for c in type(obj).__mro__:
        if name in c.__dict__:
            if c is object:
                return None
            return c.__dict__[name]
    return None


class LoopCut:
    """Loop contract for a `while` with a symbolic guard (DESIGN 2.2): assert the invariant on entry; havoc the modified
    names; (a) assume invariant and guard, run the body once, require the invariant again and a strictly decreased
    variant - a failure surfaces as an AssertionError outcome; (b) assume invariant and not guard and go on after the loop."""

    def __init__(self, modifies, invariant, variant=None):
        self.modifies, self.invariant, self.variant = modifies, invariant, variant

    def applies(self, it, s, env):
        """a loop whose state is concrete is simply executed"""
        return any(deep_has_sym(env.get(n)) for n in self.modifies) or is_sym(it.truth(it.ev(s.test, env)))

    def run_while(self, it, s, env):
        import z3
        entry = {n: env.get(n) for n in self.modifies}
        inv0 = self.invariant(env, entry)
        if is_sym(inv0):
            if it.check(z3.Not(B(inv0))) != z3.unsat:
                raise RaiseEx(AssertionError(f'loop invariant does not hold on entry (line {s.lineno})'))
        elif not inv0:
            raise RaiseEx(AssertionError(f'loop invariant does not hold on entry (line {s.lineno})'))
        for n in self.modifies:
            cur = env.get(n)
            env.set_existing(n, fresh(lift(cur).k, n + '@loop'))
        it.assume(lift(self.invariant(env, entry)))
        which = fresh('bool', 'loopcut')
        if it.branch(which):
            # (a) an arbitrary iteration
            g = it.truth(it.ev(s.test, env))
            if not it.branch(g):
                raise PathDead()
            v0 = self.variant(env) if self.variant else None
            try:
                it.block(s.body, env)
            except ContinueEx:
                pass
            except BreakEx:
                raise PathDead()
            inv1 = self.invariant(env, entry)
            ok = lift(inv1)
            if self.variant is not None:
                ok = And(ok, cmp(ast.Lt, self.variant(env), v0), cmp(ast.GtE, self.variant(env), 0))
            if is_sym(ok):
                if it.check(z3.Not(B(ok))) != z3.unsat:
                    raise RaiseEx(AssertionError(f'loop invariant / variant not preserved by the body (line {s.lineno})'))
            elif not ok:
                raise RaiseEx(AssertionError(f'loop invariant / variant not preserved by the body (line {s.lineno})'))
            raise PathDead()
        # (b) after the loop
        g = it.truth(it.ev(s.test, env))
        if it.branch(g):
            raise PathDead()
        if s.orelse:
            it.block(s.orelse, env)


class Env:
    def __init__(self, loc, clo, glob, parent=None, func=None):
        self.loc, self.clo, self.glob, self.parent, self.func = loc, clo, glob, parent, func

    def get(self, n):
        e = self
        while e is not None:
            if n in e.loc:
                return e.loc[n]
            if n in e.clo:
                return e.clo[n]
            if e.glob is not None and n in e.glob:
                return e.glob[n]
            e = e.parent
        if hasattr(builtins, n):
            return getattr(builtins, n)
        raise RaiseEx(NameError(n))

    def set(self, n, v):
        # assignment inside a comprehension scope / nested def binds locally, as in Python - unless declared `nonlocal`
        if n in getattr(self, 'nonlocals', ()):
            e = self.parent
            while e is not None:
                if n in e.loc:
                    e.loc[n] = v
                    return
                e = e.parent
            raise Unsupported(f'nonlocal {n}: no binding found in an enclosing interpreted scope')
        self.loc[n] = v

    def set_existing(self, n, v):
        e = self
        while e is not None:
            if n in e.loc:
                e.loc[n] = v
                return
            e = e.parent
        self.loc[n] = v

    def frame_env(self):
        e = self
        while e.func is None and e.parent is not None:
            e = e.parent
        return e

    def first_arg(self):
        e = self.frame_env()
        return e.loc[e.argnames[0]]

    def defining_class(self):
        e = self.frame_env()
        f = e.func
        qn = f.__qualname__.split('.')[:-1]
        o = sys.modules[f.__module__]
        for p in qn:
            if p == '<locals>':
                raise Unsupported('super() in local class')
            o = getattr(o, p)
        return o


def sig_from_ast(node):
    a = node.args
    P = inspect.Parameter
    ps = []
    pos = list(a.posonlyargs) + list(a.args)
    nd = len(a.defaults)
    for i, x in enumerate(pos):
        di = i - (len(pos) - nd)
        ps.append(P(x.arg, P.POSITIONAL_OR_KEYWORD, default=(P.empty if di < 0 else _Deferred(a.defaults[di]))))
    if a.vararg:
        ps.append(P(a.vararg.arg, P.VAR_POSITIONAL))
    for x, d in zip(a.kwonlyargs, a.kw_defaults):
        ps.append(P(x.arg, P.KEYWORD_ONLY, default=(P.empty if d is None else _Deferred(d))))
    if a.kwarg:
        ps.append(P(a.kwarg.arg, P.VAR_KEYWORD))
    return inspect.Signature(ps)


class _Deferred:
    def __init__(self, node):
        self.node = node


class Interp:
    MAX_DEPTH = 80
    MAX_CONCRETE_ITER = 200000

    def __init__(self, feas_timeout_ms=2000, max_paths=4000):
        self.solver = z3.Solver()
        self.solver.set('timeout', feas_timeout_ms)
        self.depth = 0
        self.max_paths = max_paths
        self.interpreted = set()          # qualified names of repo functions whose bodies were interpreted
        self.loop_contracts = {}          # (qualname, ordinal) -> LoopContract
        self.call_contracts = {}          # function object -> ModelFn (call-by-contract)
        self.live_gens = []               # generators of the interpreted program (closed at the end of every path)
        self.track_attrs = False
        self.solver_calls = 0
        self.solver_time = 0.0
        self.path = Path([])

    # ------------------------------------------------------------------ path exploration
    def explore(self, thunk):
        """Run `thunk` along every feasible path.  Returns a list of (Path, outcome) with outcome
        ('ret', value) | ('raise', exception instance) | ('unsupported', reason)."""
        from . import models
        work = [[]]
        results = []
        self.work = work
        try:
            models.CURRENT_IT[0] = self
            self._explore(thunk, work, results)
        finally:
            models.CURRENT_IT[0] = None
        return results

    def _explore(self, thunk, work, results):
        while work:
            if len(results) > self.max_paths:
                results.append((Path([]), ('unsupported', f'more than {self.max_paths} paths')))
                break
            prefix = work.pop()
            self.path = Path(prefix)
            self.depth = 0
            self.solver.reset()
            self.solver.set('timeout', 2000)
            try:
                out = ('ret', thunk())
            except RaiseEx as e:
                out = ('raise', e.exc)
            except PathDead:
                self._close_gens()
                continue
            except Unsupported as e:
                out = ('unsupported', f'{type(e).__name__}: {e}')
            except RecursionError:
                out = ('unsupported', 'interpreter recursion limit')
            self._close_gens()
            results.append((self.path, out))
        return results

    def _close_gens(self):
        gens, self.live_gens = self.live_gens, []
        for g in gens:
            try:
                g.close()
            except BaseException:       # noqa  (unwinding a suspended generator on a finished path)
                pass

    def assume(self, c):
        """add a fact to the path condition (contract `requires`, callee `ensures`)"""
        t = B(c)
        self.path.pc.append(t)
        self.solver.add(t)

    def check(self, extra):
        t0 = time.time()
        self.solver.push()
        self.solver.add(extra)
        r = self.solver.check()
        self.solver.pop()
        self.solver_calls += 1
        self.solver_time += time.time() - t0
        return r

    def feasible(self, extra):
        return self.check(extra) != z3.unsat

    def branch(self, cond):
        """cond: python bool or Sym bool -> python bool (forks the exploration when both sides are feasible)"""
        if not is_sym(cond):
            return bool(cond)
        if cond.k != 'bool':
            cond = self.truth(cond)
            if not is_sym(cond):
                return bool(cond)
        c = z3.simplify(cond.t)
        if z3.is_true(c):
            return True
        if z3.is_false(c):
            return False
        p = self.path
        # the very same condition (or its negation) decided earlier on this path: no new branch point, no solver call
        k = p.known.get(c.get_id())
        if k is not None:
            return k
        if z3.is_not(c):
            k = p.known.get(c.arg(0).get_id())
            if k is not None:
                return not k
        if p.i < len(p.prefix):
            d = p.prefix[p.i]
        else:
            ft = self.feasible(c)
            ff = self.feasible(z3.Not(c))
            if ft and ff:
                self.work.append(p.taken + [False])
                d = True
            elif ft:
                d = True
            elif ff:
                d = False
            else:
                raise PathDead()
            p.prefix.append(d)
        p.i += 1
        p.taken.append(d)
        t = c if d else z3.Not(c)
        p.pc.append(t)
        p.known[c.get_id()] = d
        self.solver.add(t)
        return d

    def event(self, *ev):
        self.path.events.append(ev)

    # ------------------------------------------------------------------ truthiness / conversions
    def truth(self, v):
        if is_sym(v):
            if v.k == 'bool':
                return v
            if v.k in ('int', 'real'):
                return Sym(v.t != 0, 'bool')
            return Sym(z3.Length(v.t) > 0, 'bool')
        if v is None or isinstance(v, (bool, int, float, str, list, tuple, dict, set, frozenset)):
            return bool(v)
        if isinstance(v, SymObject):
            return True
        tb = lookup_special(v, '__bool__')
        if tb is not None and is_repo_func(tb):
            return self.truth(self.call(tb, [v], {}))
        tl = lookup_special(v, '__len__')
        if tl is not None and is_repo_func(tl):
            return self.truth(self.call(tl, [v], {}))
        try:
            return bool(v)
        except SymLeak:
            raise
        except Exception as ex:
            raise RaiseEx(ex)

    # ------------------------------------------------------------------ calls
    def call(self, f, args, kwargs=None):
        kwargs = kwargs or {}
        self.depth += 1
        if self.depth > self.MAX_DEPTH:
            self.depth -= 1
            raise RaiseEx(RecursionError('maximum recursion depth exceeded (pyvc depth limit)'))
        try:
            return self._call(f, list(args), kwargs)
        finally:
            self.depth -= 1

    def _call(self, f, args, kwargs):
        from . import models
        if isinstance(f, ModelFn):
            return f.fn(self, *args, **kwargs)
        try:
            cc = self.call_contracts.get(f)
        except TypeError:
            cc = None
        if cc is not None:
            return cc.fn(self, *args, **kwargs)
        if isinstance(f, InterpFunction):
            return self.run_function(f.node, None, args, kwargs, f)
        if isinstance(f, models.BoundSymMethod):
            return f(self, *args, **kwargs)
        if isinstance(f, types.MethodType):
            return self.call(f.__func__, [f.__self__] + args, kwargs)
        if isinstance(f, (pyop.methodcaller, pyop.itemgetter, pyop.attrgetter)) and len(args) == 1 and not kwargs:
            # objects of the operator module made when the repository's module was imported: what they do is in their pickle form
            ctor, cargs = f.__reduce__()[:2]
            obj = args[0]
            if isinstance(f, pyop.methodcaller):
                kw = {}
                if isinstance(ctor, functools.partial):
                    kw, cargs = dict(ctor.keywords), tuple(ctor.args[0:]) + tuple(cargs)
                return self.call(self.getattr(obj, cargs[0]), list(cargs[1:]), kw)
            if isinstance(f, pyop.itemgetter):
                vals = [self.getitem(obj, k) for k in cargs]
                return vals[0] if len(vals) == 1 else tuple(vals)
            outs = []
            for path in cargs:
                o = obj
                for part in path.split('.'):
                    o = self.getattr(o, part)
                outs.append(o)
            return outs[0] if len(outs) == 1 else tuple(outs)
        if isinstance(f, functools.partial):
            merged = dict(f.keywords)
            merged.update(kwargs)
            return self.call(f.func, list(f.args) + args, merged)
        if isinstance(f, (classmethod, staticmethod)):
            raise Unsupported('raw descriptor call')
        if is_repo_func(f):
            node = func_ast(f)
            env = {}
            if f.__closure__:
                for name, cell in zip(f.__code__.co_freevars, f.__closure__):
                    try:
                        env[name] = cell.cell_contents
                    except ValueError:
                        pass
            self.interpreted.add(f'{f.__module__}:{f.__qualname__}')
            return self.run_function(node, env, args, kwargs, f)
        try:
            m = models.BUILTIN_MODELS.get(f)
        except TypeError:
            m = None
        if m is not None:
            return m(self, *args, **kwargs)
        if isinstance(f, types.BuiltinMethodType) and not isinstance(f.__self__, types.ModuleType):
            r = models.native_method(self, f, args, kwargs)
            if r is not models.NOT_HANDLED:
                return r
        if isinstance(f, type):
            return self.instantiate(f, args, kwargs)
        if not isinstance(f, (types.FunctionType, types.BuiltinFunctionType, types.BuiltinMethodType)):
            cf = lookup_special(f, '__call__')
            if cf is not None and is_repo_func(cf):
                return self.call(cf, [f] + args, kwargs)       # instance of a repository class with __call__
        if isinstance(f, types.FunctionType) and getattr(f, '__wrapped__', None) is not None and is_repo_func(f.__wrapped__):
            # functools.lru_cache & co. are C wrappers; python-level wrappers from outside the repo: run natively
            pass
        if isinstance(getattr(f, '__self__', None), BaseException) or \
                (isinstance(getattr(f, '__objclass__', None), type) and issubclass(f.__objclass__, BaseException)):
            args = [self.msg_arg(a) for a in args]        # exception message text is dropped (DESIGN 2.6)
        args = [a.drain() if isinstance(a, GenObject) else a for a in args]
        direct = any(is_sym(a) or isinstance(a, SymObject) for a in args) or \
            any(is_sym(a) or isinstance(a, SymObject) for a in kwargs.values())
        if direct and getattr(f, '__module__', '') not in ('inspect', 'functools'):
            raise Unsupported(f'native call with symbolic argument: {getattr(f, "__qualname__", f)}')
        return self.native(f, args, kwargs)

    def native(self, f, args, kwargs):
        try:
            return f(*args, **kwargs)
        except (RaiseEx, Unsupported, PathDead, ReturnEx):
            raise
        except Exception as ex:
            if deep_has_sym(args) or deep_has_sym(kwargs):
                raise Unsupported(f'native {getattr(f, "__qualname__", f)} failed on symbolic data: {type(ex).__name__}: {ex}')
            raise RaiseEx(ex)

    def instantiate(self, cls, args, kwargs):
        from . import models
        m = models.CLASS_MODELS.get(cls)
        if m is not None:
            return m(self, *args, **kwargs)
        new = None
        for c in cls.__mro__:
            if '__new__' in c.__dict__:
                new = c.__dict__['__new__']
                break
        if isinstance(new, staticmethod):
            new = new.__func__
        if is_repo_func(new):
            inst = self.call(new, [cls] + list(args), kwargs)
        elif issubclass(cls, BaseException):
            init = None
            for c in cls.__mro__:
                if '__init__' in c.__dict__:
                    init = c.__dict__['__init__']
                    break
            if is_repo_func(init):
                inst = cls.__new__(cls)
                self.call(init, [inst] + list(args), kwargs)
                return inst
            inst = self.native(cls, [self.msg_arg(a) for a in args], kwargs)
            if len(args) == 1 and is_sym(args[0]) and args[0].k == 'str':
                try:
                    inst._pyvc_msg = args[0]          # the symbolic message text (only inspected by C06's length bound)
                except Exception:
                    pass
            return inst
        else:
            init = None
            for c in cls.__mro__:
                if '__init__' in c.__dict__:
                    init = c.__dict__['__init__']
                    break
            if not is_repo_func(init):
                direct = any(is_sym(a) for a in args) or any(is_sym(a) for a in kwargs.values())
                import dataclasses
                if direct and dataclasses.is_dataclass(cls) and not hasattr(cls, '__post_init__') and is_repo_obj(object.__new__(cls)):
                    direct = False            # generated __init__ of a plain repository dataclass only stores its fields
                if direct and issubclass(cls, tuple) and hasattr(cls, '_fields') and new is not None and not is_repo_func(new) \
                        and getattr(cls, '__module__', '').startswith('xlcalculator'):
                    direct = False            # a (typing.)NamedTuple of the repository: the generated __new__ only stores its fields
                if dataclasses.is_dataclass(cls) and is_repo_func(getattr(cls, '__post_init__', None)) \
                        and init is cls.__dict__.get('__init__') and is_repo_obj(object.__new__(cls)):
                    # (whether or not an argument is symbolic: the repository's __post_init__ is code under verification, and the
                    # contracts registered for what it calls must apply on concrete runs too)
                    # the generated __init__ of a repository dataclass: store the fields (defaults / factories for the
                    # rest), then run the repository's own __post_init__ - interpreted
                    try:
                        ba = inspect.signature(cls).bind(*args, **kwargs)
                    except TypeError as e:
                        raise RaiseEx(e)
                    ba.apply_defaults()
                    inst = object.__new__(cls)
                    for f in dataclasses.fields(cls):
                        if f.init:
                            val = ba.arguments[f.name]
                            if val is dataclasses.MISSING or isinstance(val, dataclasses._HAS_DEFAULT_FACTORY_CLASS):
                                val = f.default_factory()
                            object.__setattr__(inst, f.name, val)
                        elif f.default is not dataclasses.MISSING:
                            object.__setattr__(inst, f.name, f.default)
                        elif f.default_factory is not dataclasses.MISSING:
                            object.__setattr__(inst, f.name, f.default_factory())
                    self.call(cls.__post_init__, [inst], {})
                    return inst
                if direct:
                    raise Unsupported(f'native constructor {cls.__name__} with symbolic argument')
                return self.native(cls, args, kwargs)
            inst = object.__new__(cls)
        if isinstance(inst, cls):
            for c in cls.__mro__:
                if '__init__' in c.__dict__:
                    init = c.__dict__['__init__']
                    if is_repo_func(init):
                        self.call(init, [inst] + list(args), kwargs)
                    break
        return inst

    def msg_arg(self, a):
        return '<sym>' if is_sym(a) else a

    def run_function(self, node, closure_env, args, kwargs, f):
        if isinstance(f, InterpFunction):
            sig = sig_from_ast(node)
            parent = f.env
            env = Env({}, {}, None, parent=parent, func=None)
        else:
            sig = inspect.signature(f, follow_wrapped=False)
            env = Env({}, closure_env or {}, f.__globals__, parent=None, func=f)
        try:
            ba = sig.bind(*args, **kwargs)
        except TypeError as e:
            raise RaiseEx(e)
        ba.apply_defaults()
        for k, v in list(ba.arguments.items()):
            if isinstance(v, _Deferred):
                ba.arguments[k] = self.ev(v.node, f.env)
        env.loc.update(ba.arguments)
        env.argnames = list(sig.parameters)
        if isinstance(f, InterpFunction):
            env.func = None
            env.ifunc = f
        if isinstance(node, ast.Lambda):
            return self.ev(node.body, env)
        if is_generator_node(node):
            def body():
                try:
                    self.block(node.body, env)
                except ReturnEx as r:
                    return r.v
                return None
            return GenObject(self, body, getattr(node, 'name', '<gen>'))
        try:
            self.block(node.body, env)
        except ReturnEx as r:
            return r.v
        return None

    # ------------------------------------------------------------------ statements
    def block(self, stmts, env):
        for s in stmts:
            self.stmt(s, env)

    def stmt(self, s, env):
        m = getattr(self, 's_' + type(s).__name__, None)
        if m is None:
            raise Unsupported('stmt ' + type(s).__name__)
        return m(s, env)

    def s_Expr(self, s, env):
        if isinstance(s.value, ast.Constant):
            return                                    # docstring
        self.ev(s.value, env)

    def s_Return(self, s, env):
        raise ReturnEx(self.ev(s.value, env) if s.value else None)

    def s_Pass(self, s, env):
        pass

    def s_Match(self, s, env):
        """match statement, the subset: class patterns without sub-patterns (isinstance), value / singleton patterns, or-patterns,
        captures and the wildcard, guards"""
        subject = self.ev(s.subject, env)

        def matches(p):
            if isinstance(p, ast.MatchClass):
                if p.patterns or p.kwd_patterns:
                    raise Unsupported('class pattern with sub-patterns')
                from . import models
                return self.truth(models.m_isinstance(self, subject, self.ev(p.cls, env)))
            if isinstance(p, ast.MatchValue):
                return self.truth(self.compare(ast.Eq, subject, self.ev(p.value, env)))
            if isinstance(p, ast.MatchSingleton):
                return subject is p.value
            if isinstance(p, ast.MatchOr):
                for q in p.patterns:
                    if self.branch(matches(q)):
                        return True
                return False
            if isinstance(p, ast.MatchAs):
                ok = True if p.pattern is None else matches(p.pattern)
                if p.name is not None and self.branch(ok):
                    env.set(p.name, subject)
                    return True
                return ok
            raise Unsupported('match pattern ' + type(p).__name__)
        for case in s.cases:
            if not self.branch(matches(case.pattern)):
                continue
            if case.guard is not None and not self.branch(self.truth(self.ev(case.guard, env))):
                continue
            return self.block(case.body, env)

    def s_Nonlocal(self, s, env):
        e = env
        while e.func is None and getattr(e, 'ifunc', None) is None and e.parent is not None:
            e = e.parent                                  # the scope of the enclosing def (not a comprehension scope)
        if not hasattr(e, 'nonlocals'):
            e.nonlocals = set()
        e.nonlocals.update(s.names)
        for n in s.names:
            e.loc.pop(n, None)

    def s_Global(self, s, env):
        raise Unsupported('global statement')

    def s_Assign(self, s, env):
        v = self.ev(s.value, env)
        for t in s.targets:
            self.assign(t, v, env)

    def s_AnnAssign(self, s, env):
        if s.value is not None:
            self.assign(s.target, self.ev(s.value, env), env)

    def s_AugAssign(self, s, env):
        load = ast.fix_missing_locations(ast.copy_location(_as_load(s.target), s.target))
        cur = self.ev(load, env)
        self.assign(s.target, self.binop(type(s.op), cur, self.ev(s.value, env), inplace=True), env)

    def assign(self, t, v, env):
        if isinstance(t, ast.Name):
            env.set(t.id, v)
        elif isinstance(t, ast.Attribute):
            o = self.ev(t.value, env)
            self.setattr(o, t.attr, v)
        elif isinstance(t, ast.Subscript):
            o = self.ev(t.value, env)
            k = self.ev(t.slice, env)
            if is_sym(o):
                raise Unsupported('store with symbolic subscript')
            if isinstance(o, dict) and (is_sym(k) or any(is_sym(kk) for kk in o)):
                return self.dict_store(o, k, v)
            if is_sym(k):
                raise Unsupported('store with symbolic subscript')
            try:
                o[k] = v
            except Exception as ex:
                raise RaiseEx(ex)
        elif isinstance(t, (ast.Tuple, ast.List)):
            vs = self.iterate(v)
            stars = [i for i, e in enumerate(t.elts) if isinstance(e, ast.Starred)]
            if len(stars) > 1:
                raise Unsupported('two starred targets')
            if stars:
                i, after = stars[0], len(t.elts) - stars[0] - 1
                if len(vs) < len(t.elts) - 1:
                    raise RaiseEx(ValueError('not enough values to unpack'))
                for a, b in zip(t.elts[:i], vs[:i]):
                    self.assign(a, b, env)
                self.assign(t.elts[i].value, list(vs[i:len(vs) - after]), env)
                for a, b in zip(t.elts[i + 1:], vs[len(vs) - after:]):
                    self.assign(a, b, env)
                return
            if len(vs) != len(t.elts):
                raise RaiseEx(ValueError('unpack'))
            for a, b in zip(t.elts, vs):
                self.assign(a, b, env)
        else:
            raise Unsupported('assign target ' + type(t).__name__)

    def dict_store(self, o, k, v):
        """a mapping with symbolic keys: the store overwrites the entry whose key EQUALS k (one path per possible
        coincidence, infeasible ones are pruned), otherwise it adds an entry"""
        for kk in list(o):
            if kk is k:
                o[kk] = v
                return
            if not (is_sym(k) or is_sym(kk)):
                if kk == k:
                    o[kk] = v
                    return
                continue
            if _comparable(k, kk) and self.branch(self.truth(self.compare(ast.Eq, k, kk))):
                o[kk] = v
                return
        o[k] = v

    def setattr(self, o, attr, v):
        if isinstance(o, (Sym, SymObject)):
            raise Unsupported('setattr on symbolic value')
        if self.track_attrs and (is_repo_obj(o) or isinstance(o, Stub)):
            self.event('write', o, attr, v)
        try:
            setattr(o, attr, v)
        except Exception as ex:
            raise RaiseEx(ex)

    def s_If(self, s, env):
        if self.branch(self.truth(self.ev(s.test, env))):
            self.block(s.body, env)
        else:
            self.block(s.orelse, env)

    def iterate(self, it):
        """materialise an iterable into a python list (concrete length only)"""
        from . import models
        if is_sym(it):
            raise Unsupported('iteration over symbolic value')
        if isinstance(it, models.SymSeq):
            return it.iterate(self)
        if isinstance(it, GenObject):
            return it.drain()
        if isinstance(it, set) and id(it) in self.path.lazysets:
            from . import models as _m
            _m.settle_set(self, it)
        if isinstance(it, EagerGen):
            rest = list(it[it.pos:])               # what next() has not handed out yet; an iterator is used up by iterating it
            it.pos = len(it)
            return rest
        if isinstance(it, (list, tuple)):
            return list(it)
        if isinstance(it, (str, dict, set, frozenset, range, types.GeneratorType)) or \
                type(it).__name__ in ('dict_items', 'dict_keys', 'dict_values', 'zip', 'enumerate', 'reversed',
                                      'list_iterator', 'tuple_iterator', 'filter', 'map', 'list_reverseiterator'):
            out = []
            for i, x in enumerate(it):
                if i > self.MAX_CONCRETE_ITER:
                    raise Unsupported('iteration bound')
                out.append(x)
            return out
        itf = lookup_special(it, '__iter__')
        if itf is not None and is_repo_func(itf):
            r = self.call(itf, [it], {})
            if isinstance(r, types.GeneratorType):
                return list(r)
            if r is it:
                nx = lookup_special(it, '__next__')
                out = []
                while True:
                    try:
                        out.append(self.call(nx, [it], {}))
                    except RaiseEx as e:
                        if isinstance(e.exc, StopIteration):
                            break
                        raise
                    if len(out) > self.MAX_CONCRETE_ITER:
                        raise Unsupported('iteration bound')
                return out
            return self.iterate(r)
        try:
            return list(it)
        except SymLeak:
            raise
        except Exception as ex:
            raise RaiseEx(ex)

    def s_For(self, s, env):
        it = self.ev(s.iter, env)
        lc = self.find_loop_contract(s, env)
        if lc is not None:
            return lc.run_for(self, s, env, it)
        if isinstance(it, GenObject):
            return self._for_generator(s, env, it)
        if type(it) is list:
            return self._for_live_list(s, env, it)
        items = self.iterate(it)
        broke = False
        for x in items:
            self.assign(s.target, x, env)
            try:
                self.block(s.body, env)
            except BreakEx:
                broke = True
                break
            except ContinueEx:
                continue
        if not broke:
            self.block(s.orelse, env)

    def _for_live_list(self, s, env, lst):
        """`for` over a list reads it by a running index, as CPython does: items removed or added by the body while the
        loop runs shift what is visited next (the classic remove-while-iterating skip is reproduced, not hidden)"""
        broke = False
        i = 0
        while i < len(lst):
            if i > self.MAX_CONCRETE_ITER:
                raise Unsupported('iteration bound')
            x = lst[i]
            i += 1
            self.assign(s.target, x, env)
            try:
                self.block(s.body, env)
            except BreakEx:
                broke = True
                break
            except ContinueEx:
                continue
        if not broke:
            self.block(s.orelse, env)

    def _for_generator(self, s, env, gen):
        """`for` over an interpreted generator pulls one item at a time (the producer's side effects interleave with the
        loop body as in CPython); the generator is closed when the loop is left"""
        broke = False
        try:
            while True:
                try:
                    x = gen.next()
                except RaiseEx as e:
                    if isinstance(e.exc, StopIteration):
                        break
                    raise
                self.assign(s.target, x, env)
                try:
                    self.block(s.body, env)
                except BreakEx:
                    broke = True
                    break
                except ContinueEx:
                    continue
        finally:
            if not gen.done:
                try:
                    gen.close()
                except BaseException:       # noqa
                    pass
        if not broke:
            self.block(s.orelse, env)

    def s_While(self, s, env):
        lc = self.find_loop_contract(s, env)
        if lc is not None and lc.applies(self, s, env):
            return lc.run_while(self, s, env)
        n = 0
        broke = False
        while True:
            c = self.truth(self.ev(s.test, env))
            if is_sym(c):
                # symbolic guard without a loop contract: bounded unrolling, then the path is undecided
                if n >= getattr(self, 'unroll_bound', 6):
                    if self.feasible(c.t):
                        raise Unsupported(f'symbolic loop at line {s.lineno} needs a loop contract (unrolled {n}x)')
            if not self.branch(c):
                break
            n += 1
            if n > self.MAX_CONCRETE_ITER:
                raise Unsupported('while bound')
            try:
                self.block(s.body, env)
            except BreakEx:
                broke = True
                break
            except ContinueEx:
                continue
        if not broke:
            self.block(s.orelse, env)

    def find_loop_contract(self, s, env):
        if not self.loop_contracts:
            return None
        fe = env.frame_env()
        f = fe.func
        if f is None:
            return None
        return self.loop_contracts.get((f'{f.__module__}:{f.__qualname__}', s.lineno - func_ast(f).lineno)) \
            or self.loop_contracts.get((f'{f.__module__}:{f.__qualname__}', ast.unparse(s.test if isinstance(s, ast.While) else s.iter)))

    def s_Break(self, s, env):
        raise BreakEx()

    def s_Continue(self, s, env):
        raise ContinueEx()

    def s_Raise(self, s, env):
        if s.exc is None:
            cur = getattr(env.frame_env(), 'handling', None)
            if cur is None:
                raise RaiseEx(RuntimeError('No active exception to reraise'))
            raise RaiseEx(cur)
        e = self.ev(s.exc, env)
        if isinstance(e, type):
            e = self.instantiate(e, [], {})
        if not isinstance(e, BaseException):
            raise RaiseEx(TypeError('exceptions must derive from BaseException'))
        raise RaiseEx(e)

    def s_Assert(self, s, env):
        if not self.branch(self.truth(self.ev(s.test, env))):
            raise RaiseEx(AssertionError())

    def s_Try(self, s, env):
        try:
            try:
                self.block(s.body, env)
            except RaiseEx as r:
                for h in s.handlers:
                    et = self.ev(h.type, env) if h.type else BaseException
                    if isinstance(r.exc, et):
                        if h.name:
                            env.set(h.name, r.exc)
                        fe = env.frame_env()
                        old = getattr(fe, 'handling', None)
                        fe.handling = r.exc
                        try:
                            self.block(h.body, env)
                        finally:
                            fe.handling = old
                        break
                else:
                    raise
            else:
                self.block(s.orelse, env)
        finally:
            if s.finalbody:
                self.block(s.finalbody, env)

    def s_With(self, s, env):
        mgrs = []
        for item in s.items:
            cm = self.ev(item.context_expr, env)
            if deep_has_sym(cm):
                raise Unsupported('with on symbolic context manager')
            v = self.native(type(cm).__enter__, [cm], {})
            mgrs.append(cm)
            if item.optional_vars is not None:
                self.assign(item.optional_vars, v, env)
        try:
            self.block(s.body, env)
        except RaiseEx as r:
            swallowed = False
            for cm in reversed(mgrs):
                if type(cm).__exit__(cm, type(r.exc), r.exc, None):
                    swallowed = True
            if not swallowed:
                raise
        else:
            for cm in reversed(mgrs):
                type(cm).__exit__(cm, None, None, None)

    def s_FunctionDef(self, s, env):
        if s.decorator_list:
            raise Unsupported('decorated nested def')
        env.set(s.name, InterpFunction(s, env, s.name))

    def s_Delete(self, s, env):
        for t in s.targets:
            if isinstance(t, ast.Name):
                env.loc.pop(t.id, None)
            elif isinstance(t, ast.Subscript):
                o = self.ev(t.value, env)
                k = self.ev(t.slice, env)
                if is_sym(k):
                    raise Unsupported('del with symbolic key')
                try:
                    del o[k]
                except Exception as ex:
                    raise RaiseEx(ex)
            else:
                raise Unsupported('del target')

    def s_Import(self, s, env):
        raise Unsupported('import inside function')

    s_ImportFrom = s_Import

    # ------------------------------------------------------------------ expressions
    def ev(self, e, env):
        m = getattr(self, 'e_' + type(e).__name__, None)
        if m is None:
            raise Unsupported('expr ' + type(e).__name__)
        return m(e, env)

    def e_Constant(self, e, env):
        return e.value

    def e_Name(self, e, env):
        return env.get(e.id)

    def e_Tuple(self, e, env):
        return tuple(self.elts(e.elts, env))

    def e_List(self, e, env):
        return list(self.elts(e.elts, env))

    def e_Set(self, e, env):
        xs = self.elts(e.elts, env)
        if any(is_sym(x) for x in xs):
            raise Unsupported('set display with symbolic element')
        return set(xs)

    def elts(self, elts, env):
        out = []
        for x in elts:
            if isinstance(x, ast.Starred):
                out.extend(self.iterate(self.ev(x.value, env)))
            else:
                out.append(self.ev(x, env))
        return out

    def e_Dict(self, e, env):
        d = {}
        for k, v in zip(e.keys, e.values):
            if k is None:
                d.update(self.ev(v, env))
            else:
                kk = self.ev(k, env)
                if is_sym(kk):
                    raise Unsupported('dict display with symbolic key')
                d[kk] = self.ev(v, env)
        return d

    def getattr(self, o, attr):
        from . import models
        if is_sym(o):
            return models.sym_attr(self, o, attr)
        if isinstance(o, SymObject):
            return models.symobj_attr(self, o, attr)
        if isinstance(o, str):
            r = models.str_attr(self, o, attr)
            if r is not models.NOT_HANDLED:
                return r
        if not isinstance(o, type):
            for c in type(o).__mro__:
                if attr in c.__dict__:
                    d = c.__dict__[attr]
                    if isinstance(d, property) and is_repo_func(d.fget):
                        return self.call(d.fget, [o], {})
                    break
            else:
                ga = lookup_special(o, '__getattr__')
                if ga is not None and is_repo_func(ga) and attr not in getattr(o, '__dict__', {}):
                    return self.call(ga, [o, attr], {})
        try:
            v = getattr(o, attr)
        except SymLeak:
            raise
        except AttributeError as ex:
            raise RaiseEx(ex)
        except Exception as ex:
            raise RaiseEx(ex)
        if self.track_attrs and (is_repo_obj(o) or isinstance(o, Stub)) and not callable(v):
            self.event('read', o, attr, v)
        return v

    def e_Attribute(self, e, env):
        return self.getattr(self.ev(e.value, env), e.attr)

    def py_str(self, x):
        from . import models
        return models.m_str(self, x)

    def py_repr(self, x):
        from . import models
        return models.m_repr(self, x)

    def e_JoinedStr(self, e, env):
        parts = []
        for v in e.values:
            if isinstance(v, ast.Constant):
                parts.append(v.value)
            else:
                x = self.ev(v.value, env)
                if v.format_spec is not None:
                    if deep_has_sym(x):
                        parts.append(fresh('str', 'fmt'))
                    else:
                        spec = self.ev(v.format_spec, env)
                        parts.append(format(x, spec))
                    continue
                try:
                    parts.append(self.py_repr(x) if v.conversion == ord('r') else self.py_str(x))
                except Unsupported:
                    parts.append(fresh('str', 'fmt'))
        if any(is_sym(p) for p in parts):
            return S.concat(*parts) if len(parts) > 1 else parts[0]
        return ''.join(parts)

    def e_FormattedValue(self, e, env):
        return self.py_str(self.ev(e.value, env))

    def e_Call(self, e, env):
        f = self.ev(e.func, env)
        args = self.elts(e.args, env)
        kwargs = {}
        for k in e.keywords:
            if k.arg is None:
                kwargs.update(self.ev(k.value, env))
            else:
                kwargs[k.arg] = self.ev(k.value, env)
        if f is builtins.super and not args:
            cls = env.defining_class()
            return super(cls, env.first_arg())
        # logging.* calls are dropped (DESIGN 2.6)
        if getattr(f, '__module__', None) == 'logging':
            return None
        return self.call(f, args, kwargs)

    def e_BoolOp(self, e, env):
        isand = isinstance(e.op, ast.And)
        v = None
        for i, x in enumerate(e.values):
            v = self.ev(x, env)
            if i == len(e.values) - 1:
                return v
            t = self.branch(self.truth(v))
            if isand and not t:
                return v
            if not isand and t:
                return v
        return v

    def e_UnaryOp(self, e, env):
        v = self.ev(e.operand, env)
        if isinstance(e.op, ast.Not):
            t = self.truth(v)
            return Not(t)
        if isinstance(e.op, ast.USub):
            if is_sym(v):
                return arith(ast.Sub, 0, v) if v.k != 'real' else Sym(-v.t, 'real')
            if isinstance(v, (int, float)):
                return -v
            sp = lookup_special(v, '__neg__')
            if sp is not None and is_repo_func(sp):
                return self.call(sp, [v], {})
            return self.native(pyop.neg, [v], {})
        if isinstance(e.op, ast.UAdd):
            if is_sym(v):
                return num(v)
            return self.native(pyop.pos, [v], {})
        if isinstance(e.op, ast.Invert):
            if is_sym(v):
                return Sym(-to_int(v) - 1, 'int')
            sp = lookup_special(v, '__invert__')
            if sp is not None and is_repo_func(sp):
                return self.call(sp, [v], {})
            return self.native(pyop.invert, [v], {})
        raise Unsupported('unary')

    def e_IfExp(self, e, env):
        if self.branch(self.truth(self.ev(e.test, env))):
            return self.ev(e.body, env)
        return self.ev(e.orelse, env)

    def e_BinOp(self, e, env):
        return self.binop(type(e.op), self.ev(e.left, env), self.ev(e.right, env))

    BIN = {ast.Add: ('__add__', '__radd__', pyop.add), ast.Sub: ('__sub__', '__rsub__', pyop.sub),
           ast.Mult: ('__mul__', '__rmul__', pyop.mul), ast.Div: ('__truediv__', '__rtruediv__', pyop.truediv),
           ast.Mod: ('__mod__', '__rmod__', pyop.mod), ast.Pow: ('__pow__', '__rpow__', pyop.pow),
           ast.BitAnd: ('__and__', '__rand__', pyop.and_), ast.BitOr: ('__or__', '__ror__', pyop.or_),
           ast.BitXor: ('__xor__', '__rxor__', pyop.xor),
           ast.FloorDiv: ('__floordiv__', '__rfloordiv__', pyop.floordiv),
           ast.LShift: ('__lshift__', '__rlshift__', pyop.lshift), ast.RShift: ('__rshift__', '__rrshift__', pyop.rshift)}

    def binop(self, op, a, b, inplace=False):
        from . import models
        d, r, nat = self.BIN[op]
        if isinstance(a, SymObject):
            out = a.binop(self, op, b, False)
            if out is not NotImplemented:
                return out
        if isinstance(b, SymObject):
            out = b.binop(self, op, a, True)
            if out is not NotImplemented:
                return out
            raise RaiseEx(TypeError(f'unsupported operand type(s) for {op.__name__}'))
        if isinstance(a, SymObject):
            raise RaiseEx(TypeError(f'unsupported operand type(s) for {op.__name__}'))
        if is_prim(a) and is_prim(b):
            if is_sym(a) or is_sym(b):
                return self.prim_binop(op, a, b)
            try:
                return nat(a, b)
            except Exception as ex:
                raise RaiseEx(ex)
        # user-defined operators: interpret the real dunder methods
        if not is_prim(a):
            f = lookup_special(a, d)
            if f is not None:
                out = self.call(f, [a, b], {}) if is_repo_func(f) else self._native_binop(f, a, b)
                if out is not NotImplemented:
                    return out
        if not is_prim(b):
            f = lookup_special(b, r)
            if f is not None:
                out = self.call(f, [b, a], {}) if is_repo_func(f) else self._native_binop(f, b, a)
                if out is not NotImplemented:
                    return out
        if is_sym(a) or is_sym(b):
            raise RaiseEx(TypeError(f'unsupported operand type(s) for {op.__name__}'))
        return self.native(nat, [a, b], {})

    def _native_binop(self, f, x, y):
        if is_sym(y):
            return NotImplemented if not isinstance(x, (list, tuple)) else self._seq_binop(x, y)
        try:
            return f(x, y)
        except SymLeak:
            raise
        except Exception as ex:
            raise RaiseEx(ex)

    def _seq_binop(self, x, y):
        raise Unsupported('sequence op with symbolic operand')

    def prim_binop(self, op, a, b):
        """Python arithmetic on primitives incl. its exceptions"""
        la, lb = lift(a), lift(b)
        if la.k == 'str' or lb.k == 'str':
            if la.k == 'str' and lb.k == 'str' and op is ast.Add:
                return arith(op, la, lb)
            if la.k == 'str' and op is ast.Mod:
                return fresh('str', 'pctfmt')          # '%s' % x : message text only
            if op is ast.Mult and (la.k == 'str') != (lb.k == 'str'):
                raise Unsupported('str * n symbolic')
            raise RaiseEx(TypeError(f'unsupported operand type(s) for {op.__name__}: {la.k} and {lb.k}'))
        if op in (ast.Div, ast.Mod, ast.FloorDiv):
            if self.branch(cmp(ast.Eq, num(lb), 0)):
                raise RaiseEx(ZeroDivisionError('division by zero'))
        if op is ast.Pow:
            from . import models
            return models.py_pow(self, la, lb)
        try:
            return arith(op, la, lb)
        except TypeError as ex:
            raise RaiseEx(ex)

    CMP = {ast.Lt: ('__lt__', '__gt__'), ast.Gt: ('__gt__', '__lt__'), ast.LtE: ('__le__', '__ge__'),
           ast.GtE: ('__ge__', '__le__'), ast.Eq: ('__eq__', '__eq__'), ast.NotEq: ('__ne__', '__ne__')}
    NATCMP = {ast.Lt: pyop.lt, ast.Gt: pyop.gt, ast.LtE: pyop.le, ast.GtE: pyop.ge, ast.Eq: pyop.eq, ast.NotEq: pyop.ne}

    def e_Compare(self, e, env):
        left = self.ev(e.left, env)
        res = True
        for i, (op, rn) in enumerate(zip(e.ops, e.comparators)):
            right = self.ev(rn, env)
            res = self.compare(type(op), left, right)
            if i < len(e.ops) - 1 and not self.branch(self.truth(res)):
                return res
            left = right
        return res

    def contains(self, a, b):
        """a in b"""
        from . import models
        if isinstance(b, models.SymSeq):
            return b.contains(self, a)
        if is_sym(b):
            if b.k != 'str':
                raise RaiseEx(TypeError('argument of this type is not iterable'))
            la = lift(a)
            if la.k != 'str':
                raise RaiseEx(TypeError("'in <string>' requires string as left operand"))
            return Sym(z3.Contains(b.t, la.t), 'bool')
        if isinstance(b, str):
            if is_sym(a):
                if a.k != 'str':
                    raise RaiseEx(TypeError("'in <string>' requires string as left operand"))
                return Sym(z3.Contains(z3.StringVal(b), a.t), 'bool')
            try:
                return a in b
            except Exception as ex:
                raise RaiseEx(ex)
        if isinstance(b, (tuple, list, set, frozenset, dict)) or type(b).__name__ in ('dict_keys', 'dict_values'):
            items = list(b)
            if not (is_sym(a) or isinstance(a, SymObject) or deep_has_sym(a) or any(deep_has_sym(x) for x in items)):
                try:
                    return a in b
                except Exception as ex:
                    raise RaiseEx(ex)
            if isinstance(b, (dict, set, frozenset)) and not is_sym(a):
                # hashed containers of concrete keys probed with a structured symbolic object
                return self._hashed_contains(a, b)
            if is_sym(a) and all(is_prim(x) for x in items):
                cs = []
                for x in items:
                    c = cmp(ast.Eq, a, x) if _comparable(a, x) else False
                    cs.append(c)
                return Or(*cs) if cs else False
            for x in items:
                if x is a:
                    return True
                c = self.compare(ast.Eq, x, a)
                if self.branch(self.truth(c)):
                    return True
            return False
        cf = lookup_special(b, '__contains__')
        if cf is not None and is_repo_func(cf):
            return self.call(cf, [b, a], {})
        if isinstance(b, range) and is_sym(a) and a.k in ('int', 'real', 'bool'):
            # x in range(lo, hi, step): an integer value with lo <= x < hi (resp. hi < x <= lo) on the stride
            x = to_real(a) if a.k == 'real' else to_int(a)
            whole = z3.IsInt(x) if a.k == 'real' else z3.BoolVal(True)
            xi = z3.ToInt(x) if a.k == 'real' else x
            if b.step > 0:
                inside = z3.And(xi >= b.start, xi < b.stop)
            else:
                inside = z3.And(xi <= b.start, xi > b.stop)
            return Sym(z3.And(whole, inside, (xi - b.start) % abs(b.step) == 0), 'bool')
        if deep_has_sym(a):
            raise Unsupported(f'`in` on {type(b).__name__} with symbolic probe')
        try:
            return a in b
        except SymLeak:
            raise
        except Exception as ex:
            raise RaiseEx(ex)

    def _identical(self, a, b):
        """`a is b`.  True / False / None are singletons, so identity of a (symbolic) bool with a bool is equality of the truth
        values; identity of other symbolic primitives (small-int caching, string interning) is not modelled"""
        sa, sb = is_sym(a), is_sym(b)
        if not sa and not sb:
            return a is b
        x, y = (a, b) if sa else (b, a)
        if x.k == 'bool':
            if isinstance(y, bool):
                return x if y else Not(x)
            if is_sym(y) and y.k == 'bool':
                return Sym(x.t == y.t, 'bool')
            if is_sym(y):
                return False
            return False                              # a bool is never None / an object of another type
        if is_sym(y) or isinstance(y, (int, float, str)):
            if is_sym(y) and y.k == 'bool' or isinstance(y, bool):
                return False
            raise Unsupported('identity (`is`) of symbolic numbers / strings')
        return False                                  # a number / string is never None or another kind of object

    def _hashed_contains(self, a, b):
        # hash(ExcelType) == hash(value); equality by __eq__: expand over the keys
        for x in list(b):
            if x is a:
                return True
            c = self.compare(ast.Eq, x, a)
            if self.branch(self.truth(c)):
                return True
        return False

    def compare(self, op, a, b):
        if op in (ast.Is, ast.IsNot):
            same = self._identical(a, b)
            return same if op is ast.Is else Not(same)
        if op is ast.In:
            return self.contains(a, b)
        if op is ast.NotIn:
            return Not(self.truth(self.contains(a, b)))
        if isinstance(a, SymObject):
            out = a.compare(self, op, b, False)
            if out is not NotImplemented:
                return out
        if isinstance(b, SymObject):
            out = b.compare(self, op, a, True)
            if out is not NotImplemented:
                return out
        if isinstance(a, SymObject) or isinstance(b, SymObject):
            if op is ast.Eq:
                return a is b
            if op is ast.NotEq:
                return a is not b
            raise RaiseEx(TypeError(f'{op.__name__} not supported between instances'))
        if is_prim(a) and is_prim(b):
            if is_sym(a) or is_sym(b):
                try:
                    return cmp(op, a, b)
                except TypeError as ex:
                    raise RaiseEx(ex)
            try:
                return self.NATCMP[op](a, b)
            except Exception as ex:
                raise RaiseEx(ex)
        if (a is None or b is None) and (is_prim(a) or is_prim(b) or a is None and b is None):
            if op is ast.Eq:
                return a is b
            if op is ast.NotEq:
                return a is not b
            raise RaiseEx(TypeError(f"'{op.__name__}' not supported between NoneType and value"))
        if isinstance(a, (tuple, list)) and isinstance(b, (tuple, list)) and type(a) is type(b) \
                and (deep_has_sym(a) or deep_has_sym(b)):
            return self.seq_cmp(op, a, b)
        d, r = self.CMP[op]
        # reflected method of a proper subclass has priority (Python data model)
        order = [(a, d, b), (b, r, a)]
        if not is_prim(b) and not is_prim(a) and type(b) is not type(a) and issubclass(type(b), type(a)) \
                and lookup_special(b, r) is not lookup_special(a, r):
            order.reverse()
        for x, name, y in order:
            if is_prim(x) or x is None:
                continue
            f = lookup_special(x, name)
            if f is None:
                continue
            if is_repo_func(f):
                out = self.call(f, [x, y], {})
            else:
                if deep_has_sym(x) or deep_has_sym(y):
                    if isinstance(x, (tuple, list, dict, set)):
                        continue
                    raise Unsupported(f'native {name} of {type(x).__name__} on symbolic data')
                try:
                    out = f(x, y)
                except Exception as ex:
                    raise RaiseEx(ex)
            if out is not NotImplemented:
                return out
        if op is ast.Eq:
            return a is b
        if op is ast.NotEq:
            return a is not b
        raise RaiseEx(TypeError(f"'{op.__name__}' not supported between instances of "
                                f"'{_tn(a)}' and '{_tn(b)}'"))

    def seq_cmp(self, op, a, b):
        for x, y in zip(a, b):
            eq = self.compare(ast.Eq, x, y)
            if not self.branch(self.truth(eq)):
                if op is ast.Eq:
                    return False
                if op is ast.NotEq:
                    return True
                return self.compare(op, x, y)
        return self.NATCMP[op](len(a), len(b))

    def e_Subscript(self, e, env):
        o = self.ev(e.value, env)
        if isinstance(e.slice, ast.Slice):
            lo = self.ev(e.slice.lower, env) if e.slice.lower else None
            hi = self.ev(e.slice.upper, env) if e.slice.upper else None
            st = self.ev(e.slice.step, env) if e.slice.step else None
            return self.getslice(o, lo, hi, st)
        i = self.ev(e.slice, env)
        return self.getitem(o, i)

    def getslice(self, o, lo, hi, st):
        from . import models
        if isinstance(o, models.SymSeq):
            return o.getslice(self, lo, hi, st)
        if is_sym(o) or is_sym(lo) or is_sym(hi) or is_sym(st):
            if st is not None:
                if is_sym(o) and o.k == 'str' and lo is None and hi is None and not is_sym(st) and st == -1:
                    return models.str_reverse(o)
                raise Unsupported('slice step on symbolic value')
            if isinstance(o, (list, tuple)):
                raise Unsupported('list slice with symbolic bound')
            return slice_(o, lo, hi)
        try:
            return o[lo:hi:st]
        except Exception as ex:
            raise RaiseEx(ex)

    def getitem(self, o, i):
        from . import models
        if isinstance(o, models.SymSeq):
            return o.getitem(self, i)
        if is_sym(o):
            if o.k != 'str':
                raise RaiseEx(TypeError('not subscriptable'))
            i = lift(i)
            L = z3.Length(o.t)
            it = to_int(i)
            if self.branch(Sym(z3.And(it >= -L, it < L), 'bool')):
                return Sym(z3.SubString(o.t, z3.If(it < 0, it + L, it), 1), 'str')
            raise RaiseEx(IndexError('string index out of range'))
        if is_sym(i):
            if isinstance(o, dict):
                for k in list(o):
                    if _comparable(i, k) and self.branch(self.truth(self.compare(ast.Eq, i, k))):
                        return o[k]
                miss = lookup_special(o, '__missing__')
                if miss is not None:
                    raise Unsupported('defaultdict with symbolic key')
                raise RaiseEx(KeyError('<sym>'))
            if isinstance(o, (tuple, list, str)):
                if i.k not in ('int', 'bool'):
                    raise RaiseEx(TypeError('indices must be integers'))
                it = to_int(i)
                n = len(o)
                if not self.branch(Sym(z3.And(it >= -n, it < n), 'bool')):
                    raise RaiseEx(IndexError('index out of range'))
                if n == 1:
                    return o[0]
                if all(is_prim(x) for x in o) and len({lift(x).k for x in o}) == 1:
                    idx = z3.If(it < 0, it + n, it)
                    acc = lift(o[n - 1])
                    for j in range(n - 2, -1, -1):
                        acc = Ite(Sym(idx == j, 'bool'), lift(o[j]), acc)
                    return acc
                for j in range(n):
                    if self.branch(Sym(z3.Or(it == j, it == j - n), 'bool')):
                        return o[j]
                raise PathDead()
            raise Unsupported(f'symbolic subscript on {type(o).__name__}')
        gi = lookup_special(o, '__getitem__') if not isinstance(o, (list, tuple, dict, str)) else None
        if gi is not None and is_repo_func(gi):
            return self.call(gi, [o, i], {})
        try:
            return o[i]
        except SymLeak:
            raise
        except Exception as ex:
            raise RaiseEx(ex)

    def _comp(self, e, env, emit):
        def rec(gi, scope):
            if gi == len(e.generators):
                emit(scope)
                return
            g = e.generators[gi]
            if g.is_async:
                raise Unsupported('async comprehension')
            for x in self.iterate(self.ev(g.iter, scope)):
                sub = Env({}, {}, None, parent=scope, func=None)
                self.assign(g.target, x, sub)
                ok = True
                for c in g.ifs:
                    if not self.branch(self.truth(self.ev(c, sub))):
                        ok = False
                        break
                if ok:
                    rec(gi + 1, sub)
        rec(0, env)

    def e_ListComp(self, e, env):
        out = []
        self._comp(e, env, lambda sc: out.append(self.ev(e.elt, sc)))
        return out

    def e_GeneratorExp(self, e, env):
        # eager (fine for side-effect-free element expressions), but still an ITERATOR: next() takes the items one by one
        return EagerGen(self.e_ListComp(e, env))

    def e_SetComp(self, e, env):
        out = self.e_ListComp(e, env)
        if any(deep_has_sym(x) for x in out):
            raise Unsupported('set comprehension with symbolic elements')
        return set(out)

    def e_DictComp(self, e, env):
        out = {}

        def emit(sc):
            k = self.ev(e.key, sc)
            v = self.ev(e.value, sc)
            if is_sym(k) or any(is_sym(kk) for kk in out):
                self.dict_store(out, k, v)
            else:
                out[k] = v
        self._comp(e, env, emit)
        return out

    def e_Lambda(self, e, env):
        return InterpFunction(e, env, '<lambda>')

    def e_Starred(self, e, env):
        raise Unsupported('starred outside call/display')

    def e_NamedExpr(self, e, env):
        v = self.ev(e.value, env)
        env.set(e.target.id, v)
        return v

    def e_Yield(self, e, env):
        g = getattr(GEN_TLS, 'current', None)
        if g is None:
            raise Unsupported('yield outside an interpreted generator')
        return g.emit(self.ev(e.value, env) if e.value is not None else None)

    def e_YieldFrom(self, e, env):
        g = getattr(GEN_TLS, 'current', None)
        if g is None:
            raise Unsupported('yield outside an interpreted generator')
        src = self.ev(e.value, env)
        if isinstance(src, GenObject):
            while True:
                try:
                    v = src.next()
                except RaiseEx as ex:
                    if isinstance(ex.exc, StopIteration):
                        return ex.exc.value
                    raise
                g.emit(v)
        for v in self.iterate(src):
            g.emit(v)
        return None


def _as_load(t):
    if isinstance(t, ast.Name):
        return ast.Name(t.id, ast.Load())
    if isinstance(t, ast.Attribute):
        return ast.Attribute(t.value, t.attr, ast.Load())
    if isinstance(t, ast.Subscript):
        return ast.Subscript(t.value, t.slice, ast.Load())
    raise Unsupported('augassign target')


def _tn(x):
    if is_sym(x):
        return S.PYTYPE[x.k].__name__
    return type(x).__name__


def _comparable(a, b):
    """can a == b possibly be True for primitives (python never equates str with numbers)"""
    ka = lift(a).k if is_prim(a) else None
    kb = lift(b).k if is_prim(b) else None
    if ka is None or kb is None:
        return True
    return (ka == 'str') == (kb == 'str')
