"""Helper predicates for contract clauses.  Every helper works on symbolic (`Sym`) and on concrete values, so
the same clause is a proof obligation and a native oracle."""
import z3

from . import sym as S
from .sym import Sym, is_sym, lift, And, Or, Not, Implies, Ite, B


def T():
    from xlcalculator.xlfunctions import func_xltypes
    return func_xltypes


def E():
    from xlcalculator.xlfunctions import xlerrors
    return xlerrors


def eq(a, b):
    """python equality of two primitives, symbolic or not (never the `is` fallback)"""
    if is_sym(a) or is_sym(b):
        return S.cmp(S.ast.Eq, a, b)
    return a == b


def num_eq(a, b, tol=0.0):
    if is_sym(a) or is_sym(b):
        return S.cmp(S.ast.Eq, a, b)
    try:
        if tol and isinstance(a, (int, float)) and isinstance(b, (int, float)):
            return abs(a - b) <= tol * max(1.0, abs(a), abs(b))
        return a == b
    except Exception:
        return False


def returned(out, cls):
    return out.kind == 'ret' and isinstance(out.value, cls)


def is_text(out, s):
    if not returned(out, T().Text):
        return False
    return eq(out.value.value, s)


def is_number(out, x, tol=0.0):
    if not returned(out, T().Number):
        return False
    v = out.value.value
    if isinstance(v, bool) or (is_sym(v) and v.k == 'bool'):
        return False
    return num_eq(v, x, tol)


def is_int_number(out, x):
    """a Number whose native value is an int equal to x"""
    if not returned(out, T().Number):
        return False
    v = out.value.value
    if is_sym(v):
        return And(v.k == 'int', eq(v, x)) if v.k == 'int' else False
    return isinstance(v, int) and not isinstance(v, bool) and v == x


def is_bool(out, b):
    if not returned(out, T().Boolean):
        return False
    return eq(out.value.value, b)


def is_blank(out):
    return returned(out, T().Blank)


def is_error(out, cls=None):
    """the call *returned* an Excel error value (of class `cls`, given by name or class)"""
    base = E().ExcelError
    if cls is None:
        cls = base
    elif isinstance(cls, str):
        cls = getattr(E(), cls)
    elif isinstance(cls, (tuple, list)):
        cls = tuple(getattr(E(), c) if isinstance(c, str) else c for c in cls)
    return out.kind == 'ret' and isinstance(out.value, cls)


def is_same_object(out, obj):
    return out.kind == 'ret' and out.value is obj


def is_value(out):
    """returned some Excel value (not an error)"""
    return out.kind == 'ret' and not isinstance(out.value, E().ExcelError)


def length(s):
    return S.length(s)


def clip(n, lo, hi):
    return S.maximum(lo, S.minimum(n, hi))


def left(s, n):
    """first n characters, n >= 0, clipped"""
    k = S.minimum(n, length(s))
    return S.substr(s, 0, k)


def right(s, n):
    k = S.minimum(n, length(s))
    return S.substr(s, length(s) - k, k)


def mid(s, start0, n):
    """n characters from 0-based start0 >= 0, clipped at the end"""
    L = length(s)
    a = S.minimum(start0, L)
    k = S.minimum(n, L - a)
    return S.substr(s, a, k)


def trunc(x):
    """truncation toward zero of a number (int stays int)"""
    if is_sym(x):
        if x.k == 'real':
            return Sym(S.trunc_real(x.t), 'int')
        return S.num(x)
    return int(x)


def in_re(s, regex):
    if is_sym(s):
        return Sym(z3.InRe(s.t, regex), 'bool')
    raise NotImplementedError


def all_chars(s, chars):
    """every character of s is one of `chars` (native: set test; symbolic: regex membership)"""
    if is_sym(s):
        return Sym(z3.InRe(s.t, z3.Star(z3.Union(*[z3.Re(c) for c in chars]) if len(chars) > 1 else z3.Re(chars[0]))), 'bool')
    return set(s) <= set(chars)


def numeric_result(out, x, tol=0.0):
    """returned a number equal to x: a Number object or a native int/float (functions annotated with the
    class `Number` hand back the native value)"""
    if out.kind != 'ret':
        return False
    v = out.value
    if isinstance(v, T().Number):
        v = v.value
    if isinstance(v, bool) or (is_sym(v) and v.k not in ('int', 'real')):
        return False
    if not (is_sym(v) or isinstance(v, (int, float))):
        return False
    return num_eq(v, x, tol)


def text_form(x):
    """the text an argument denotes when a text is expected: what `Text.cast` yields (DESIGN section 3:
    the rendering of numbers/booleans is not constrained beyond being the same for every use)"""
    from . import models as M
    t = T()
    if is_sym(x):
        if x.k == 'str':
            return x
        if x.k == 'bool':
            return Ite(x, 'True', 'False')
        return M.STR_INT(x) if x.k == 'int' else M.STR_REAL(x)
    if isinstance(x, bool):
        return str(x)
    if isinstance(x, (int, float)):
        return str(x)
    if isinstance(x, str):
        return x
    if isinstance(x, t.Text):
        return x.value
    if isinstance(x, t.Blank):
        return ''
    if isinstance(x, (t.Number, t.Boolean)):
        return text_form(x.value)
    raise AssertionError(f'text_form({x!r})')


def num_form(x):
    """numeric reading of a number-like argument (Number object or native int/float)"""
    t = T()
    if isinstance(x, t.Number):
        return x.value
    if isinstance(x, t.Blank):
        return 0
    if isinstance(x, t.Boolean):
        return Ite(x.value, 1, 0) if is_sym(x.value) else int(x.value)
    return x
