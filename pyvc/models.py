"""Models of Python builtins / library calls on symbolic values (DESIGN.md section 2.4).

Every model is either *exact* (encodes the Python semantics in SMT) or *uninterpreted* (a `UF` with a native
meaning, used for counterexample-guided instantiation and listed in the evidence under `trusted_base`).
The names of the uninterpreted functions actually applied on a run are collected in `USED_UFS`.
"""
import ast
import builtins
import copy as _copy
import datetime as _dt
import inspect
import math as _math
import re as _re
import types

import z3

from .sym import (Sym, Unsupported, SymLeak, is_sym, is_prim, lift, fresh, arith, cmp, to_int, to_real, B, And, Or,
                  Not, Ite, num, UF, PYTYPE)
from . import sym as S
from .interp import (RaiseEx, SymObject, lookup_special, is_repo_func, is_repo_obj, deep_has_sym, InterpFunction, ModelFn, Stub,
                     PathDead)

NOT_HANDLED = object()
USED_UFS = set()


AXIOM_INSTANCES = []     # intrinsic-axiom instances created outside an exploration (contract clauses)
CURRENT_IT = [None]      # interpreter currently exploring (axiom instances go to its path condition)
UF_AXIOMS = {}           # name -> (doc, symbolic builder(args, res) -> z3 Bool, native predicate(args, res) -> bool, battery)


class _Tracking:
    def __init__(self, u):
        self.u = u

    def __call__(self, *a):
        USED_UFS.add(self.u.name)
        r = self.u(*a)
        ax = UF_AXIOMS.get(self.u.name)
        if ax is not None and is_sym(r):
            t = ax[1]([lift(x) for x in a], r)
            it = CURRENT_IT[0]
            if it is not None:
                it.assume(Sym(t, 'bool'))
            else:
                AXIOM_INSTANCES.append(t)
        return r

    def __getattr__(self, n):
        return getattr(self.u, n)


def uf(name, arg_kinds, ret_kind, native, axiom=None):
    u = UF(name, arg_kinds, ret_kind, native)
    if axiom is not None:
        UF_AXIOMS[name] = axiom
    return _Tracking(u)


def _re_digits(chars):
    return z3.Union(*[z3.Re(c) for c in chars]) if len(chars) > 1 else z3.Re(chars[0])


DEC_DIGITS = '0123456789'
_BASE_DIGITS = {2: '01', 8: '01234567', 10: DEC_DIGITS, 16: '0123456789abcdefABCDEF'}


def _ax_str_int(args, res):
    i = to_int(args[0])
    return z3.And(z3.InRe(res.t, z3.Concat(z3.Option(z3.Re('-')), z3.Plus(_re_digits(DEC_DIGITS)))),
                  (i < 0) == z3.PrefixOf(z3.StringVal('-'), res.t),
                  INT_OK.u.f(res.t, z3.IntVal(10)), INT_OF.u.f(res.t, z3.IntVal(10)) == i)


def _ax_digits(chars):
    def ax(args, res):
        return z3.Implies(to_int(args[0]) >= 0, z3.InRe(res.t, z3.Plus(_re_digits(chars))))
    return ax


def selftest_axioms(seed=0):
    """evaluate every intrinsic axiom natively on a fixed + seeded battery -> list of failures"""
    import random
    rng = random.Random(seed)
    bad = []
    for name, (doc, symb, nat, battery) in UF_AXIOMS.items():
        u = UF.registry[name]
        pts = list(battery) + [battery_random(u.arg_kinds, rng) for _ in range(40)]
        for args in pts:
            try:
                res = u.native(*args)
                if not nat(args, res):
                    bad.append((name, args, res))
            except Exception as ex:      # noqa
                bad.append((name, args, f'{type(ex).__name__}: {ex}'))
    bad += _selftest_cuts(rng)
    bad += _selftest_round(rng)
    return bad


def _selftest_round(rng, n=40):
    """round(x) / round(x, k) of a symbolic number pinned to a concrete one (binary fractions, so that ties occur) is what CPython gives"""
    import fractions
    bad = []
    for _ in range(n):
        k = rng.choice([None, 0, 1, 2, 15, -1, -2])
        if rng.random() < .5:
            q = rng.randrange(-3000, 3000)
            x, xs, kind = q / 8, z3.Q(q, 8), 'real'
        else:
            x = rng.randrange(-5000, 5000)
            xs, kind = z3.IntVal(x), 'int'
        v = z3.Real('rt_v') if kind == 'real' else z3.Int('rt_v')
        r = _round_sym(Sym(v, kind), k)
        sv = z3.Solver()
        sv.add(v == xs)
        if sv.check() != z3.sat:
            bad.append(('round', (x, k), 'unsat'))
            continue
        got = sv.model().eval(r.t, model_completion=True)
        g = fractions.Fraction(got.numerator_as_long(), got.denominator_as_long()) if z3.is_rational_value(got) else fractions.Fraction(got.as_long())
        exp = round(x) if k is None else round(x, k)
        if abs(g - fractions.Fraction(exp)) > fractions.Fraction(1, 10 ** 9) or (k is None) != (r.k == 'int' and kind == 'real' or (kind == 'int' and k is None)):
            bad.append(('round', (x, k), f'{g} != {exp}'))
    return bad


def _selftest_cuts(rng, n=12):
    """split(sep, 1) / rsplit(sep, 1) / partition / rpartition of a symbolic text pinned to a concrete one: the model's answer is the
    one CPython gives, and the only one the constraints admit"""
    class _It:
        def __init__(self):
            self.assumed = []

        def branch(self, c):
            sv = z3.Solver()
            sv.add(*[a.t for a in self.assumed], c.t)
            r = sv.check() == z3.sat
            self.assumed.append(c if r else Sym(z3.Not(c.t), 'bool'))
            return r

        def assume(self, c):
            self.assumed.append(c)
    bad = []
    for _ in range(n):
        txt = ''.join(rng.choice('a!b!!') for _ in range(rng.randrange(0, 7)))
        sep = rng.choice(['!', '!!', 'a!'])
        for name, fn, py in (('rsplit', lambda i, x: str_rsplit(i, x, sep, 1), lambda t: t.rsplit(sep, 1)),
                             ('split', lambda i, x: str_split(i, x, sep, 1), lambda t: t.split(sep, 1)),
                             ('partition', lambda i, x: str_partition(i, x, sep), lambda t: list(t.partition(sep))),
                             ('rpartition', lambda i, x: str_rpartition(i, x, sep), lambda t: list(t.rpartition(sep)))):
            it = _It()
            x = fresh('str', 'cut')
            it.assume(Sym(x.t == z3.StringVal(txt), 'bool'))
            res = fn(it, x)
            sv = z3.Solver()
            sv.add(*[a.t for a in it.assumed])
            if sv.check() != z3.sat:
                bad.append((name, txt, sep, 'no model'))
                continue
            m = sv.model()
            got = [(m.eval(r.t, model_completion=True).as_string() if isinstance(r, Sym) else r) for r in res]
            if got != py(txt):
                bad.append((name, txt, sep, got))
            for r, g in zip(res, got):
                if isinstance(r, Sym):
                    sv.push()
                    sv.add(r.t != z3.StringVal(g))
                    if sv.check() != z3.unsat:
                        bad.append((name, txt, sep, 'not unique'))
                    sv.pop()
    return bad


def battery_random(kinds, rng):
    out = []
    for k in kinds:
        if k == 'int':
            out.append(rng.choice([rng.randrange(-10**12, 10**12), rng.randrange(-20, 20), rng.choice([2, 8, 10, 16])]))
        elif k == 'real':
            out.append(rng.choice([rng.uniform(-1e6, 1e6), float(rng.randrange(-5, 5))]))
        elif k == 'bool':
            out.append(rng.random() < .5)
        else:
            out.append(''.join(rng.choice('01789abfFZ -.eé') for _ in range(rng.randrange(0, 12))))
    return out


def _safe(f, default):
    def g(*a):
        try:
            return f(*a)
        except Exception:
            return default
    return g


# ---- uninterpreted builtins ------------------------------------------------------------------------------------
def _re_range(a, b):
    return z3.Range(a, b)


_ASCII = z3.Range(chr(0), chr(127))
_ALNUM_L = z3.Union(z3.Range('0', '9'), z3.Range('a', 'z'))
_ALNUM_U = z3.Union(z3.Range('0', '9'), z3.Range('A', 'Z'))


def _ax_case(src_re, dst_re):
    def ax(args, res):
        s = args[0].t
        return z3.And((z3.Length(res.t) == 0) == (z3.Length(s) == 0),
                      z3.Implies(z3.InRe(s, z3.Star(_ASCII)), z3.Length(res.t) == z3.Length(s)),
                      z3.Implies(z3.InRe(s, z3.Star(z3.Union(src_re, dst_re))), z3.InRe(res.t, z3.Star(dst_re))))
    return ax


def _nat_case(kind):
    def nat(a, r):
        s = a[0]
        ok = (len(r) == 0) == (len(s) == 0)
        if all(ord(c) < 128 for c in s):
            ok = ok and len(r) == len(s)
        if _re.fullmatch(r'[0-9a-zA-Z]*', s):
            ok = ok and _re.fullmatch(r'[0-9A-Z]*' if kind == 'upper' else r'[0-9a-z]*', r) is not None
        return ok
    return nat


_CASE_BATTERY = [[''], ['abc'], ['AbC09'], ['ff'], ['-1a'], ['stra\u00dfe'], ['\u0130x'], ['a b']]
UPPER = uf('py_upper', ['str'], 'str', lambda s: s.upper(), axiom=(
    's.upper() is empty iff s is; ASCII s: len(s.upper()) == len(s); alphanumeric ASCII s: s.upper() is over [0-9A-Z]', _ax_case(_ALNUM_L, _ALNUM_U),
    _nat_case('upper'), _CASE_BATTERY))
LOWER = uf('py_lower', ['str'], 'str', lambda s: s.lower(), axiom=(
    's.lower() is empty iff s is; ASCII s: len(s.lower()) == len(s); alphanumeric ASCII s: s.lower() is over [0-9a-z]', _ax_case(_ALNUM_U, _ALNUM_L),
    _nat_case('lower'), _CASE_BATTERY))
def _ax_strip(args, res):
    s, r = args[0].t, res.t
    sp = z3.StringVal(' ')
    return z3.And(z3.Not(z3.PrefixOf(sp, r)), z3.Not(z3.SuffixOf(sp, r)), z3.Contains(s, r),
                  z3.Implies(z3.InRe(s, z3.Star(z3.Range('!', '~'))), r == s))


STRIP = uf('py_strip', ['str'], 'str', lambda s: s.strip(), axiom=(
    's.strip() is a substring of s without leading/trailing blank; a string of visible ASCII characters is unchanged',
    _ax_strip, lambda a, r: not r.startswith(' ') and not r.endswith(' ') and r in a[0] and
    (not _re.fullmatch(r'[!-~]*', a[0]) or r == a[0]), [[''], [' a '], ['a b'], ['  '], ['\tx\n']]))
TITLE = uf('py_title', ['str'], 'str', lambda s: s.title())
def _char_class_uf(name, method, ascii_re_src):
    """str.isdigit() & co.: Unicode-aware in CPython; exact here on ASCII texts (a non-empty text over the ASCII class), uninterpreted elsewhere -
    counter-models are confirmed natively anyway"""
    def ax(args, res):
        cls = ascii_re_src()
        s = args[0].t
        return z3.And(z3.Implies(res.t, z3.Length(s) > 0),
                      z3.Implies(z3.InRe(s, z3.Star(_ASCII)), res.t == z3.InRe(s, z3.Plus(cls))))

    def nat(a, r):
        s = a[0]
        if r and not s:
            return False
        if s.isascii():
            return r == getattr(s, method)()
        return True
    return uf(name, ['str'], 'bool', lambda s: getattr(s, method)(), axiom=(
        f'str.{method}(): false on the empty text; on ASCII texts true exactly for a non-empty text over the ASCII class', ax, nat,
        [[''], ['0'], ['12'], ['1a'], ['a'], ['AZ'], [' '], ['\t\n'], ['a1_'], ['é'], ['²'], ['A b']]))


ISDIGIT = _char_class_uf('py_isdigit', 'isdigit', lambda: z3.Range('0', '9'))
ISALPHA = _char_class_uf('py_isalpha', 'isalpha', lambda: z3.Union(z3.Range('a', 'z'), z3.Range('A', 'Z')))
ISALNUM = _char_class_uf('py_isalnum', 'isalnum', lambda: z3.Union(z3.Range('0', '9'), z3.Range('a', 'z'), z3.Range('A', 'Z')))
ISSPACE = _char_class_uf('py_isspace', 'isspace', lambda: z3.Union(z3.Re(' '), z3.Range('\t', '\r'), z3.Range('\x1c', '\x1f')))
CASEFOLD = uf('py_casefold', ['str'], 'str', lambda s: s.casefold())        # NOT lower(): 'ß'.casefold() == 'ss'
STR_REAL = uf('py_str_float', ['real'], 'str', lambda x: str(float(x)))
REPR_STR = uf('py_repr_str', ['str'], 'str', lambda s: repr(s))
def _ax_int_of(args, res):
    s, b = args[0].t, to_int(args[1])
    cl = []
    for base, chars in _BASE_DIGITS.items():
        cl.append(z3.Implies(z3.And(b == base, z3.InRe(s, z3.Plus(_re_digits(chars))), z3.Length(s) <= 10),
                             z3.And(INT_OK.u.f(s, b), res.t >= 0, res.t < base ** 10)))
    return z3.And(*cl)


def _nat_int_of(a, r):
    s, b = a
    chars = _BASE_DIGITS.get(b)
    if chars is None or not (1 <= len(s) <= 10 and set(s) <= set(chars)):
        return True
    return 0 <= int(s, b) < b ** 10 and r == int(s, b)


INT_OK = uf('py_int_parses', ['str', 'int'], 'bool', _safe(lambda s, b: (int(s, b), True)[1], False))
INT_OF = uf('py_int_of_str', ['str', 'int'], 'int', _safe(lambda s, b: int(s, b), 0), axiom=(
    'a string of 1..10 digits valid in base b (2, 8, 10, 16) parses, to 0 <= int(s, b) < b^10', _ax_int_of, _nat_int_of,
    [['0', 2], ['1111111111', 2], ['7777777777', 8], ['FFFFFFFFFF', 16], ['ffffffffff', 16], ['9999999999', 10], ['', 2], ['12', 2]]))
FLOAT_OK = uf('py_float_parses', ['str'], 'bool', _safe(lambda s: (float(s), True)[1], False), axiom=(
    'a text that float() accepts contains none of the characters ! $ : (what marks a sheet-qualified, absolute or range reference)',
    lambda args, res: z3.Implies(res.t, z3.Not(z3.Or(*[z3.Contains(args[0].t, z3.StringVal(c)) for c in '!$:']))),
    lambda a, r: (not r) or not any(c in a[0] for c in '!$:'),
    [['1'], ['2023!B2'], ['1e5'], ['$A$1'], ['1:2'], ['nan'], [' 12 '], ['1_000'], ['Sheet1!A1'], ['.5']]))
FLOAT_OF = uf('py_float_of_str', ['str'], 'real', _safe(lambda s: float(s), 0.0))
STR_INT = uf('py_str_int', ['int'], 'str', lambda i: str(i), axiom=(
    'str(i) matches -?[0-9]+, starts with "-" exactly when i < 0, and int(str(i)) == i', _ax_str_int,
    lambda a, r: _re.fullmatch(r'-?[0-9]+', r) is not None and (a[0] < 0) == r.startswith('-') and int(r) == a[0],
    [[0], [-1], [5], [10**20], [-10**20]]))
ZFILL = uf('py_zfill', ['str', 'int'], 'str', lambda s, n: s.zfill(n))


BITLEN_THRESHOLDS = (1, 2, 3, 4, 8, 16, 32, 53, 64, 128, 256, 341, 342, 511, 512, 513, 1023, 1024)


def _ax_bitlen(args, res):
    n, r = to_int(args[0]), to_int(res)
    a = z3.If(n >= 0, n, -n)
    # |n| >= 2**k  <=>  bit_length(n) >= k + 1, instantiated at the thresholds that matter for the range of a double
    return z3.And(r >= 0, (n == 0) == (r == 0), *[(a >= z3.IntVal(2 ** k)) == (r >= k + 1) for k in (0,) + BITLEN_THRESHOLDS])


BITLEN = uf('py_int_bit_length', ['int'], 'int', lambda n: int(n).bit_length(), axiom=(
    'int.bit_length(n) is 0 exactly for n == 0, and |n| >= 2**k <=> bit_length(n) >= k + 1 at the listed thresholds k', _ax_bitlen,
    lambda a, r: r >= 0 and (a[0] == 0) == (r == 0) and all((abs(a[0]) >= 2 ** k) == (r >= k + 1) for k in (0,) + BITLEN_THRESHOLDS),
    [[0], [1], [-1], [2], [-3], [4], [2 ** 64], [-2 ** 70], [2 ** 511], [2 ** 511 - 1], [2 ** 1024], [-2 ** 341]]))
def _fmt_uf(fn, name, chars):
    return uf(name, ['int'], 'str', lambda v: fn(v)[2:] if v >= 0 else '', axiom=(
        f'{fn.__name__}(v)[2:] for v >= 0 is a non-empty string over {chars}', _ax_digits(chars),
        lambda a, r: a[0] < 0 or (len(r) >= 1 and set(r) <= set(chars)), [[0], [1], [255], [2**40 - 1], [-3]]))


FMT = {bin: _fmt_uf(bin, 'py_digits2', '01'), oct: _fmt_uf(oct, 'py_digits8', '01234567'),
       hex: _fmt_uf(hex, 'py_digits16', '0123456789abcdef')}
PFX = {bin: '0b', oct: '0o', hex: '0x'}
CHARSET_SUBSET = {}     # frozenset(chars) -> UF  (all characters of s are in the set)
RE_MATCH = {}           # pattern -> UF bool
NP_UF = {}              # numpy/math function name -> UF


def charset_subset(chars):
    """exact: every character of s is one of `chars` (regular-expression membership)"""
    cs = sorted(set(chars))

    def f(s):
        if is_sym(s):
            return Sym(z3.InRe(s.t, z3.Star(_re_digits(cs))), 'bool')
        return set(s) <= set(cs)
    return f


_RX_CACHE = {}


def regex_to_z3(pattern, flags=0):
    """z3 regular expression of a Python pattern, for the subset: literals, character classes with ranges (also negated),
    \\d \\w \\s, '.', groups, alternation, ? * + {m,n}, a leading ^ and a trailing $.  None when outside the subset (the caller
    falls back to an uninterpreted function).  '$' matches at the end or just before a final line break, as in Python."""
    key = (pattern, flags)
    if key in _RX_CACHE:
        return _RX_CACHE[key]
    try:
        import re._parser as sre_parse
        import re._constants as C
    except ImportError:                      # Python < 3.11
        import sre_parse
        import sre_constants as C
    if flags & ~_re.UNICODE:
        _RX_CACHE[key] = None
        return None

    class Bad(Exception):
        pass

    def chars(cs):
        cs = list(cs)
        return z3.Union(*[z3.Re(c) for c in cs]) if len(cs) > 1 else z3.Re(cs[0])
    CATS = {C.CATEGORY_DIGIT: z3.Range('0', '9'),
            C.CATEGORY_WORD: z3.Union(z3.Range('a', 'z'), z3.Range('A', 'Z'), z3.Range('0', '9'), z3.Re('_')),
            C.CATEGORY_SPACE: chars(' \t\n\r\x0b\x0c')}
    ANY = z3.AllChar(z3.ReSort(z3.StringSort()))

    def seq(items):
        parts = [one(op, av) for op, av in items]
        parts = [p_ for p_ in parts if p_ is not None]
        if not parts:
            return z3.Re('')
        return z3.Concat(*parts) if len(parts) > 1 else parts[0]

    def cls(items):
        neg = False
        alts = []
        for op, av in items:
            if op is C.NEGATE:
                neg = True
            elif op is C.LITERAL:
                alts.append(z3.Re(chr(av)))
            elif op is C.RANGE:
                alts.append(z3.Range(chr(av[0]), chr(av[1])))
            elif op is C.CATEGORY and av in CATS:
                alts.append(CATS[av])
            else:
                raise Bad()
        r = z3.Union(*alts) if len(alts) > 1 else alts[0]
        return z3.Intersect(ANY, z3.Complement(r)) if neg else r

    def one(op, av):
        if op is C.LITERAL:
            return z3.Re(chr(av))
        if op is C.ANY:
            return z3.Intersect(ANY, z3.Complement(z3.Re('\n')))
        if op is C.NOT_LITERAL:
            return z3.Intersect(ANY, z3.Complement(z3.Re(chr(av))))
        if op is C.IN:
            return cls(av)
        if op is C.CATEGORY and av in CATS:
            return CATS[av]
        if op in (C.MAX_REPEAT, C.MIN_REPEAT):
            lo, hi, sub = av
            r = seq(sub)
            if hi is C.MAXREPEAT:
                return z3.Star(r) if lo == 0 else (z3.Plus(r) if lo == 1 else z3.Concat(z3.Loop(r, lo, lo), z3.Star(r)))
            if (lo, hi) == (0, 1):
                return z3.Option(r)
            return z3.Loop(r, lo, hi)
        if op is C.SUBPATTERN:
            if len(av) == 4 and (av[1] or av[2]):
                raise Bad()                  # scoped inline flags (?i:...)
            return seq(av[-1])
        if op is C.BRANCH:
            alts = [seq(x) for x in av[1]]
            return z3.Union(*alts) if len(alts) > 1 else alts[0]
        raise Bad()
    try:
        parsed = sre_parse.parse(pattern, flags)
        if parsed.state.flags & ~(_re.UNICODE | flags):
            raise Bad()                      # inline flags such as (?i)
        items = list(parsed)
        start = end = False
        if items and items[0][0] is C.AT and items[0][1] in (C.AT_BEGINNING, C.AT_BEGINNING_STRING):
            start, items = True, items[1:]
        if items and items[-1][0] is C.AT and items[-1][1] in (C.AT_END, C.AT_END_STRING):
            # `$` also matches just before a final line break; `\Z` only at the very end
            end, items = ('dollar' if items[-1][1] is C.AT_END else 'Z'), items[:-1]
        if any(op is C.AT for op, _ in items):
            raise Bad()
        body = seq(items)
        res = (body, start, end)
    except Exception:      # noqa  (outside the subset, or a parser of another Python version)
        res = None
    _RX_CACHE[key] = res
    if res is not None and not _regex_selftest(pattern, flags):
        _RX_CACHE[key] = res = None          # the translation disagrees with `re` on a sampled string: do not trust it
    return res


def _regex_selftest(pattern, flags):
    """guard of the translation: on 60 strings over the pattern's own characters it must agree with Python's `re`"""
    import random
    rng = random.Random(len(pattern) * 7919 + sum(map(ord, pattern)))
    alphabet = sorted(set(c for c in pattern if c.isalnum() or c in " .,<>=!'+-_$:%#") | set('a0Z9 .\n'))
    for kind in ('match', 'search', 'fullmatch'):
        for _ in range(20):
            txt = ''.join(rng.choice(alphabet) for _ in range(rng.randrange(0, 8)))
            want = getattr(_re, kind)(pattern, txt, flags) is not None
            got = z3.simplify(regex_matches(pattern, kind, txt, flags).t)
            if not (z3.is_true(got) if want else z3.is_false(got)):
                return False
    return True


def regex_matches(pattern, kind, s, flags=0):
    """Sym bool: does re.<kind>(pattern, s) succeed?  exact (z3 regular expression) where the pattern is in the subset, else uninterpreted"""
    rx = regex_to_z3(pattern, flags)
    if rx is None:
        return re_match_uf(pattern, kind)(s)
    body, start, end = rx
    anyseq = z3.Star(z3.AllChar(z3.ReSort(z3.StringSort())))
    parts = []
    if kind == 'search' and not start:
        parts.append(anyseq)
    parts.append(body)
    if end == 'dollar' and kind != 'fullmatch':
        parts.append(z3.Option(z3.Re('\n')))
    if kind != 'fullmatch' and not end:
        parts.append(anyseq)
    full = z3.Concat(*parts) if len(parts) > 1 else parts[0]
    return Sym(z3.InRe(lift(s).t, full), 'bool')


def re_match_uf(pattern, kind):
    key = (kind, pattern)
    if key not in RE_MATCH:
        fn = getattr(_re, kind)
        RE_MATCH[key] = uf(f're_{kind}_{abs(hash(pattern)) % 10**8}', ['str'], 'bool',
                           lambda s, fn=fn, p=pattern: fn(p, s) is not None)
    return RE_MATCH[key]


def z3str_to_py(t):
    s = t.as_string()
    return _re.sub(r'\\u\{([0-9a-fA-F]+)\}', lambda m: chr(int(m.group(1), 16)), s)


# ---- methods on symbolic primitives --------------------------------------------------------------------------------
class BoundSymMethod:
    def __init__(self, recv, name, fn):
        self.recv, self.name, self.fn = recv, name, fn

    def __call__(self, it, *args, **kwargs):
        return self.fn(it, self.recv, *args, **kwargs)

    def __repr__(self):
        return f'<BoundSymMethod {self.name}>'


def _sv(x):
    x = lift(x)
    if x.k != 'str':
        raise RaiseEx(TypeError('must be str'))
    return x.t


def str_find(it, s, sub, start=None, end=None):
    if end is not None:
        raise Unsupported('str.find with end')
    L = z3.Length(_sv(s))
    if start is None:
        return Sym(z3.IndexOf(_sv(s), _sv(sub), z3.IntVal(0)), 'int')
    i = to_int(lift(start))
    # (branching instead of nested ite keeps the terms of each path small for the string solvers)
    if it.branch(Sym(i < 0, 'bool')):
        st = z3.If(i + L < 0, z3.IntVal(0), i + L)
    else:
        st = i
    # python: nothing (not even '') is found from a start beyond the end; SMT-LIB indexof agrees for 0 <= st <= len
    if it.branch(Sym(st > L, 'bool')):
        return -1
    return Sym(z3.IndexOf(_sv(s), _sv(sub), st), 'int')


def str_index(it, s, sub, start=None, end=None):
    r = str_find(it, s, sub, start, end)
    if it.branch(cmp(ast.Lt, r, 0)):
        raise RaiseEx(ValueError('substring not found'))
    return r


def str_startswith(it, s, p, *a):
    if a:
        raise Unsupported('startswith range')
    if isinstance(p, tuple):
        return Or(*[Sym(z3.PrefixOf(_sv(x), _sv(s)), 'bool') for x in p])
    return Sym(z3.PrefixOf(_sv(p), _sv(s)), 'bool')


def str_endswith(it, s, p, *a):
    if a:
        raise Unsupported('endswith range')
    if isinstance(p, tuple):
        return Or(*[Sym(z3.SuffixOf(_sv(x), _sv(s)), 'bool') for x in p])
    return Sym(z3.SuffixOf(_sv(p), _sv(s)), 'bool')


def str_replace(it, s, old, new, count=None):
    if count is not None:
        raise Unsupported('replace count')
    so, sn = _sv(old), _sv(new)
    t = z3.SeqRef(z3.Z3_mk_seq_replace_all(z3.main_ctx().ref(), _sv(s).as_ast(), so.as_ast(), sn.as_ast()), z3.main_ctx())
    # python: replacing '' inserts `new` between all characters; SMT-LIB replace_all leaves s unchanged.
    if it.branch(Sym(z3.Length(so) == 0, 'bool')):
        raise Unsupported('str.replace with empty pattern (python inserts between characters)')
    return Sym(t, 'str')


def str_join(it, s, items):
    items = it.iterate(items)
    parts = []
    for i, x in enumerate(items):
        if i:
            parts.append(s)
        if is_sym(x):
            if x.k != 'str':
                raise RaiseEx(TypeError('sequence item: expected str instance'))
        elif not isinstance(x, str):
            raise RaiseEx(TypeError('sequence item: expected str instance'))
        parts.append(x)
    if not parts:
        return ''
    return S.concat(*parts)


def str_zfill(it, s, n):
    """exact: s.zfill(n).  A leading sign stays in front; the padding is a fresh string constrained to be
    n - len(s) zeros (a definitional extension: such a string exists and is unique)."""
    s, n = lift(s), lift(n)
    L = z3.Length(s.t)
    nt = to_int(n)
    if it.branch(Sym(nt <= L, 'bool')):
        return s
    pad = fresh('str', 'zeros')
    it.assume(Sym(z3.And(z3.Length(pad.t) == nt - L, z3.InRe(pad.t, z3.Star(z3.Re('0')))), 'bool'))
    if it.branch(Sym(z3.Or(z3.PrefixOf(z3.StringVal('-'), s.t), z3.PrefixOf(z3.StringVal('+'), s.t)), 'bool')):
        return Sym(z3.Concat(z3.SubString(s.t, 0, 1), pad.t, z3.SubString(s.t, 1, L - 1)), 'str')
    return Sym(z3.Concat(pad.t, s.t), 'str')


def str_reverse(s):
    raise Unsupported('reverse of symbolic string')


def _cut(it, s, sep, last):
    """(found, head, tail) of a symbolic s around the first / last occurrence of the concrete, non-empty text sep (a branch on containment)"""
    if is_sym(sep) or not isinstance(sep, str) or not sep:
        raise Unsupported('split / partition around a symbolic or empty separator')
    s = lift(s)
    n, sv = len(sep), z3.StringVal(sep)
    if not it.branch(Sym(z3.Contains(s.t, sv), 'bool')):
        return False, None, None
    L = z3.Length(s.t)
    if last:
        # the last occurrence starts at i: sep stands there and does not occur in what follows i (exact, also for overlapping occurrences)
        i = fresh('int', 'lastidx')
        it.assume(Sym(z3.And(i.t >= 0, i.t + n <= L, z3.SubString(s.t, i.t, n) == sv, z3.Not(z3.Contains(z3.SubString(s.t, i.t + 1, L), sv))), 'bool'))
        idx = i.t
    else:
        idx = z3.IndexOf(s.t, sv, 0)
    return True, Sym(z3.SubString(s.t, 0, idx), 'str'), Sym(z3.SubString(s.t, idx + n, L), 'str')


def str_split(it, s, sep=None, maxsplit=-1):
    if sep is None or is_sym(sep) or is_sym(maxsplit) or maxsplit not in (-1, 1):
        raise Unsupported('split form')
    if maxsplit == 1:
        found, head, tail = _cut(it, s, sep, False)
        return [head, tail] if found else [s]
    return SplitResult(s, sep)


def str_rsplit(it, s, sep=None, maxsplit=-1):
    if sep is None or is_sym(sep) or is_sym(maxsplit) or maxsplit != 1:
        raise Unsupported('rsplit form')
    found, head, tail = _cut(it, s, sep, True)
    return [head, tail] if found else [s]


def str_partition(it, s, sep):
    found, head, tail = _cut(it, s, sep, False)
    return (head, sep, tail) if found else (s, '', '')


def str_rpartition(it, s, sep):
    found, head, tail = _cut(it, s, sep, True)
    return (head, sep, tail) if found else ('', '', s)


def _late_split_result():
    class SplitResult(SymSeq):
        """s.split(sep) for a symbolic s and a concrete sep: only element 0 (the text before the first sep, or all
        of s) is modelled"""
        py_type = list

        def __init__(self, s, sep):
            self.s, self.sep = lift(s), sep

        def getitem(self, it, i):
            if is_sym(i) or i != 0:
                raise Unsupported('split()[i] for i != 0 on a symbolic string')
            idx = z3.IndexOf(self.s.t, z3.StringVal(self.sep), 0)
            return Sym(z3.If(idx < 0, self.s.t, z3.SubString(self.s.t, 0, idx)), 'str')
    return SplitResult


SYM_STR_METHODS = {
    'upper': lambda it, s: UPPER(s), 'lower': lambda it, s: LOWER(s), 'strip': lambda it, s, *a: _strip(s, a),
    'title': lambda it, s: TITLE(s), 'casefold': lambda it, s: CASEFOLD(s),
    'isdigit': lambda it, s: ISDIGIT(s), 'isalpha': lambda it, s: ISALPHA(s), 'isalnum': lambda it, s: ISALNUM(s), 'isspace': lambda it, s: ISSPACE(s),
    'find': str_find, 'index': str_index, 'startswith': str_startswith, 'endswith': str_endswith,
    'replace': str_replace, 'join': str_join, 'split': str_split, 'rsplit': str_rsplit, 'partition': str_partition, 'rpartition': str_rpartition,
    'zfill': lambda it, s, n: str_zfill(it, s, n),
    'encode': lambda it, s, *a: (_ for _ in ()).throw(Unsupported('encode')),
}


def _strip(s, a):
    if a:
        raise Unsupported('strip chars')
    return STRIP(s)


def _is_integer(it, x):
    if x.k == 'real':
        return Sym(z3.IsInt(x.t), 'bool')
    return True


SYM_NUM_METHODS = {
    'is_integer': _is_integer,
    '__neg__': lambda it, x: arith(ast.Sub, 0, x),
    '__pos__': lambda it, x: num(x),
    '__abs__': lambda it, x: m_abs(it, x),
    '__trunc__': lambda it, x: Sym(S.trunc_real(x.t), 'int') if x.k == 'real' else num(x),
    '__round__': lambda it, x, n=None: m_round(it, x, n),
    '__float__': lambda it, x: Sym(to_real(x), 'real'),
    '__int__': lambda it, x: m_int(it, x),
    'conjugate': lambda it, x: x,
    'bit_length': lambda it, x: BITLEN(x) if x.k == 'int' else (_ for _ in ()).throw(RaiseEx(AttributeError("'float' object has no attribute 'bit_length'"))),
}


def sym_attr(it, o, attr):
    table = SYM_STR_METHODS if o.k == 'str' else SYM_NUM_METHODS
    if attr in table:
        return BoundSymMethod(o, attr, table[attr])
    if o.k != 'str' and attr == 'real':
        return o
    if o.k != 'str' and attr == 'imag':
        return 0
    if hasattr(PYTYPE[o.k], attr):
        raise Unsupported(f'method {attr} on symbolic {o.k}')
    raise RaiseEx(AttributeError(f"'{PYTYPE[o.k].__name__}' object has no attribute '{attr}'"))


def str_attr(it, o, attr):
    """methods of a *concrete* str whose arguments may be symbolic"""
    if attr in SYM_STR_METHODS and attr not in ('encode',):
        def fn(it, recv, *args, **kwargs):
            if not any(deep_has_sym(a) for a in args) and not deep_has_sym(kwargs):
                try:
                    return getattr(recv, attr)(*args, **kwargs)
                except Exception as ex:
                    raise RaiseEx(ex)
            return SYM_STR_METHODS[attr](it, lift(recv) if attr != 'join' else recv, *args, **kwargs)
        return BoundSymMethod(o, attr, fn)
    return NOT_HANDLED


def symobj_attr(it, o, attr):
    m = getattr(o, 'm_' + attr, None)
    if m is not None:
        return BoundSymMethod(o, attr, lambda it, recv, *a, **k: m(it, *a, **k))
    a = getattr(o, 'a_' + attr, None)
    if a is not None:
        return a(it)
    if hasattr(o.py_type, attr):
        raise Unsupported(f'{type(o).__name__}.{attr} not modelled')
    raise RaiseEx(AttributeError(f"'{o.py_type.__name__}' object has no attribute '{attr}'"))


# ---- methods of builtin containers called with symbolic arguments ------------------------------------------------
def _set_comparable(x, y):
    kx = x.k if is_sym(x) else ('str' if isinstance(x, str) else 'num' if isinstance(x, (int, float)) else None)
    ky = y.k if is_sym(y) else ('str' if isinstance(y, str) else 'num' if isinstance(y, (int, float)) else None)
    num = ('int', 'real', 'bool', 'num')
    return kx is not None and ky is not None and ((kx == 'str') == (ky == 'str')) and (kx == ky or (kx in num and ky in num))


def settle_set(it, recv):
    """before the size or the members of a set with symbolic members are looked at: members equal in value are merged"""
    if id(recv) not in it.path.lazysets:
        return
    del it.path.lazysets[id(recv)]
    kept = []
    for y in list(recv):
        dup = False
        for z in kept:
            if (is_sym(y) or is_sym(z)) and _set_comparable(y, z) and it.branch(it.truth(it.compare(ast.Eq, y, z))):
                dup = True
                break
        if not dup:
            kept.append(y)
    set.clear(recv)
    set.update(recv, kept)


def native_method(it, f, args, kwargs):
    recv = f.__self__
    name = f.__name__
    if isinstance(recv, (set, frozenset)) and name in ('issuperset', '__ge__') and len(args) == 1 and is_sym(args[0]) and args[0].k == 'str' \
            and all(isinstance(c, str) and len(c) == 1 for c in recv):
        return charset_subset(frozenset(recv))(args[0])          # every character of the text is in the set
    if isinstance(recv, (set, frozenset)) and name == 'issuperset' and len(args) == 1 and isinstance(args[0], SymCharSet) and args[0].minus is None:
        return charset_subset(frozenset(recv))(args[0].s)
    if isinstance(recv, _re.Pattern) and name in ('match', 'search', 'fullmatch') and args and is_sym(args[0]) and len(args) == 1:
        return ReMatch(regex_matches(recv.pattern, name, args[0], recv.flags & ~_re.UNICODE))
    symarg = any(is_sym(a) or isinstance(a, SymObject) for a in args)
    if isinstance(recv, set) and name in ('add', 'discard', 'remove') and len(args) == 1 and (symarg or deep_has_sym(recv)):
        # a set with symbolic members.  add() decides nothing: the new member is stored as it is and the set is marked as possibly holding
        # members that are equal in value (membership tests do not care; len() and iteration settle the question first - settle_set).
        # discard() / remove() take out every stored member equal to the argument, one path per possible coincidence (as dict_store).
        x = args[0]
        if name == 'add':
            if not any(y is x for y in recv):
                set.add(recv, x)
                it.path.lazysets[id(recv)] = recv
            return None
        found = False
        for y in list(recv):
            eq = True if y is x else (it.truth(it.compare(ast.Eq, y, x)) if (is_sym(x) or is_sym(y)) and _set_comparable(x, y)
                                      else ((not is_sym(x)) and (not is_sym(y)) and x == y))
            if it.branch(eq):
                set.discard(recv, y)
                found = True
        if name == 'remove' and not found:
            raise RaiseEx(KeyError(it.msg_arg(x)))
        return None
    if isinstance(recv, (list, tuple)):
        if name in ('append', 'extend', 'insert', 'clear', 'reverse', 'copy', '__len__'):
            if name == 'insert' and is_sym(args[0]):
                raise Unsupported('list.insert at symbolic index')
            if name == 'extend':
                args = [it.iterate(args[0])]
            return f(*args)
        if name == 'pop':
            if args and is_sym(args[0]):
                raise Unsupported('list.pop at symbolic index')
            try:
                return f(*args)
            except Exception as ex:
                raise RaiseEx(ex)
        if name in ('index', 'remove', 'count') and (symarg or deep_has_sym(recv) or deep_has_sym(args)):
            x = args[0]
            hits = 0
            for i, y in enumerate(list(recv)):
                eq = True if y is x else it.truth(it.compare(ast.Eq, y, x))
                if it.branch(eq):
                    if name == 'index':
                        return i
                    if name == 'remove':
                        del recv[i]
                        return None
                    hits += 1
            if name == 'count':
                return hits
            raise RaiseEx(ValueError(f'{name}(x): x not in list'))
        return NOT_HANDLED
    if isinstance(recv, dict):
        if name in ('get', 'pop', 'setdefault', '__getitem__', '__contains__') and args and is_sym(args[0]):
            k = args[0]
            for kk in list(recv):
                if it.branch(it.truth(it.compare(ast.Eq, k, kk))) if _cmpable(k, kk) else False:
                    if name == '__contains__':
                        return True
                    if name == 'pop':
                        return recv.pop(kk)
                    return recv[kk]
            if name == '__contains__':
                return False
            if name == 'get':
                return args[1] if len(args) > 1 else None
            if name == 'pop' and len(args) > 1:
                return args[1]
            if name == 'setdefault':
                raise Unsupported('dict.setdefault with symbolic key')
            raise RaiseEx(KeyError('<sym>'))
        if name in ('items', 'keys', 'values', 'copy', 'update', 'get', 'pop', 'setdefault', '__getitem__',
                    '__contains__', 'clear', '__len__'):
            try:
                return f(*args, **kwargs)
            except SymLeak:
                raise
            except Exception as ex:
                raise RaiseEx(ex)
        return NOT_HANDLED
    if isinstance(recv, str):
        r = str_attr(it, recv, name)
        if r is not NOT_HANDLED:
            return r(it, *args, **kwargs)
    return NOT_HANDLED


def _cmpable(a, b):
    if is_prim(a) and is_prim(b):
        return (lift(a).k == 'str') == (lift(b).k == 'str')
    return True


# ---- builtin functions ------------------------------------------------------------------------------------------------
def _pytype_of(v):
    if is_sym(v):
        return PYTYPE[v.k]
    if isinstance(v, SymObject):
        return v.py_type
    return type(v)


def m_isinstance(it, v, cls):
    if is_sym(v) or isinstance(v, SymObject):
        t = _pytype_of(v)
        try:
            return issubclass(t, cls)
        except TypeError as ex:
            raise RaiseEx(ex)
    try:
        return isinstance(v, cls)
    except TypeError as ex:
        raise RaiseEx(ex)


def m_type(it, v, *rest):
    if rest:
        return type(v, *rest)
    return _pytype_of(v)


def m_len(it, v):
    if is_sym(v):
        if v.k != 'str':
            raise RaiseEx(TypeError('object has no len()'))
        return Sym(z3.Length(v.t), 'int')
    if isinstance(v, SymSeq):
        return v.length(it)
    if isinstance(v, set):
        settle_set(it, v)
    f = lookup_special(v, '__len__') if not isinstance(v, (str, list, tuple, dict, set, frozenset)) else None
    if f is not None and is_repo_func(f):
        return it.call(f, [v], {})
    try:
        return len(v)
    except SymLeak:
        raise
    except Exception as ex:
        raise RaiseEx(ex)


def m_str(it, v=''):
    if is_sym(v):
        if v.k == 'str':
            return v
        if v.k == 'bool':
            return Sym(z3.If(v.t, z3.StringVal('True'), z3.StringVal('False')), 'str')
        if v.k == 'int':
            return STR_INT(v)
        return STR_REAL(v)
    if isinstance(v, SymObject):
        m = getattr(v, 'm___str__', None)
        if m is None:
            raise Unsupported(f'str() of {type(v).__name__}')
        return m(it)
    if is_prim(v) or v is None:
        return str(v)
    f = lookup_special(v, '__str__')
    if f is not None and is_repo_func(f):
        r = it.call(f, [v], {})
        if not (isinstance(r, str) or (is_sym(r) and r.k == 'str')):
            raise RaiseEx(TypeError('__str__ returned non-string'))
        return r
    if isinstance(v, BaseException) and getattr(v, '_pyvc_msg', None) is not None and \
            (f is None or not is_repo_func(f)):
        return v._pyvc_msg
    if isinstance(v, BaseException) and deep_has_sym(v.args):
        return fresh('str', 'excmsg')
    if deep_has_sym(v):
        if isinstance(v, (list, tuple, dict)):
            return fresh('str', 'containerstr')
        return m_repr(it, v)
    try:
        return str(v)
    except SymLeak:
        raise
    except Exception as ex:
        raise RaiseEx(ex)


def m_repr(it, v):
    if is_sym(v):
        if v.k == 'str':
            return REPR_STR(v)
        return m_str(it, v)
    if isinstance(v, SymObject):
        return fresh('str', 'repr')
    if is_prim(v) or v is None:
        return repr(v)
    f = lookup_special(v, '__repr__')
    if f is not None and is_repo_func(f):
        return it.call(f, [v], {})
    if deep_has_sym(v) or (isinstance(v, BaseException) and deep_has_sym(v.args)):
        return fresh('str', 'repr')
    try:
        return repr(v)
    except SymLeak:
        raise
    except Exception as ex:
        raise RaiseEx(ex)


def m_int(it, v=0, base=None):
    if is_sym(v):
        if base is not None and v.k != 'str':
            raise RaiseEx(TypeError("int() can't convert non-string with explicit base"))
        if v.k == 'int':
            return v
        if v.k == 'bool':
            return Sym(to_int(v), 'int')
        if v.k == 'real':
            if z3.is_to_real(v.t):
                return Sym(v.t.arg(0), 'int')          # int(float(i)) == i  (A-float: floats are reals)
            return Sym(S.trunc_real(v.t), 'int')
        iv = getattr(v, 'int_value', None)
        if iv is not None and base in (None, 10):
            return iv
        b = 10 if base is None else base
        val = INT_OF(v, b)                 # (creates the intrinsic axiom instance before the branch)
        if it.branch(INT_OK(v, b)):
            return val
        raise RaiseEx(ValueError('invalid literal for int()'))
    if isinstance(v, SymObject):
        raise Unsupported(f'int() of {type(v).__name__}')
    if is_sym(base):
        raise Unsupported('int() with symbolic base')
    if not is_prim(v):
        f = lookup_special(v, '__int__')
        if f is not None and is_repo_func(f):
            return it.call(f, [v], {})
        f = lookup_special(v, '__index__') or lookup_special(v, '__trunc__')
        if f is not None and is_repo_func(f):
            return it.call(f, [v], {})
    try:
        return int(v) if base is None else int(v, base)
    except SymLeak:
        raise
    except Exception as ex:
        raise RaiseEx(ex)


def m_float(it, v=0.0):
    if is_sym(v):
        if v.k in ('int', 'real', 'bool'):
            return Sym(to_real(v), 'real')
        fv = getattr(v, 'float_value', None)
        if fv is not None:
            return fv
        if it.branch(FLOAT_OK(v)):
            return FLOAT_OF(v)
        raise RaiseEx(ValueError('could not convert string to float'))
    if isinstance(v, SymObject):
        m = getattr(v, 'm___float__', None)
        if m is None:
            raise RaiseEx(TypeError(f'float() argument must be a string or a real number, not {v.py_type.__name__}'))
        return m(it)
    if not is_prim(v):
        f = lookup_special(v, '__float__')
        if f is not None and is_repo_func(f):
            return it.call(f, [v], {})
    try:
        return float(v)
    except SymLeak:
        raise
    except Exception as ex:
        raise RaiseEx(ex)


def m_bool(it, v=False):
    return it.truth(v)


def m_getattr(it, o, name, *d):
    if is_sym(name):
        raise Unsupported('getattr with symbolic name')
    try:
        return it.getattr(o, name)
    except RaiseEx as e:
        if d and isinstance(e.exc, AttributeError):
            return d[0]
        raise


def m_hasattr(it, o, name):
    try:
        it.getattr(o, name)
        return True
    except RaiseEx as e:
        if isinstance(e.exc, AttributeError):
            return False
        raise


def m_setattr(it, o, name, v):
    it.setattr(o, name, v)


def m_tuple(it, v=()):
    return tuple(it.iterate(v))


def m_list(it, v=()):
    return list(it.iterate(v))


def m_set(it, v=()):
    if is_sym(v):
        if v.k == 'str':
            return SymCharSet(v)
        raise RaiseEx(TypeError('not iterable'))
    xs = it.iterate(v)
    if any(deep_has_sym(x) for x in xs):
        raise Unsupported('set() of symbolic elements')
    return set(xs)


class SymCharSet(SymObject):
    """set(s) for a symbolic string: only `set(s) - concrete_set` and truthiness are modelled."""
    py_type = set

    def __init__(self, s, minus=None):
        self.s, self.minus = s, minus

    def binop(self, it, op, other, reflected):
        if op is ast.Sub and not reflected and isinstance(other, (set, frozenset)) and self.minus is None:
            return SymCharSet(self.s, frozenset(other))
        raise Unsupported('operation on set(symbolic str)')

    def compare(self, it, op, other, reflected):
        raise Unsupported('comparison of set(symbolic str)')

    def truth(self, it):
        if self.minus is None:
            return Sym(z3.Length(self.s.t) > 0, 'bool')
        return Not(charset_subset(self.minus)(self.s))


def m_abs(it, v):
    if is_sym(v):
        v = num(v)
        zero = z3.IntVal(0) if v.k == 'int' else z3.RealVal(0)
        return Sym(z3.If(v.t >= zero, v.t, -v.t), v.k)
    if not is_prim(v):
        f = lookup_special(v, '__abs__')
        if f is not None and is_repo_func(f):
            return it.call(f, [v], {})
    return it.native(abs, [v], {})


def _round_sym(v, n):
    """round(x) / round(x, n) of a symbolic number for a concrete n, exactly over the reals (A-float): the nearest multiple of 10**-n,
    a tie going to the even one"""
    import fractions
    if v.k == 'int' and (n is None or n >= 0):
        return v
    p = fractions.Fraction(10) ** (n or 0)
    scale = z3.Q(p.numerator, p.denominator)
    x = z3.ToReal(v.t) if v.k == 'int' else v.t
    r = x * scale
    f = z3.ToInt(r)
    frac = r - z3.ToReal(f)
    half = z3.Q(1, 2)
    ri = z3.If(frac < half, f, z3.If(frac > half, f + 1, z3.If(f % 2 == 0, f, f + 1)))
    if n is None:
        return Sym(ri, 'int')
    if v.k == 'int':
        return Sym(ri * z3.IntVal(int(1 / p)), 'int')
    return Sym(z3.ToReal(ri) / scale, 'real')


def m_round(it, v, n=None):
    if isinstance(v, SymObject):
        m = getattr(v, 'm___round__', None)
        if m is None:
            raise RaiseEx(TypeError(f'type {v.py_type.__name__} doesn\'t define __round__ method'))
        return m(it, n)
    if is_sym(v) and not is_sym(n) and (n is None or (isinstance(n, int) and not isinstance(n, bool))) and lift(v).k in ('int', 'real'):
        return _round_sym(lift(v), n)
    if is_sym(v) or is_sym(n):
        raise Unsupported('round() of a symbolic value to a symbolic number of digits')
    if not is_prim(v):
        f = lookup_special(v, '__round__')
        if f is not None and is_repo_func(f):
            return it.call(f, [v, n], {})
    return it.native(round, [v] if n is None else [v, n], {})


def _minmax(op):
    def m(it, *args, key=None, **kw):
        if key is not None:
            raise Unsupported('min/max key')
        items = it.iterate(args[0]) if len(args) == 1 else list(args)
        if not items:
            if 'default' in kw:
                return kw['default']
            raise RaiseEx(ValueError('arg is an empty sequence'))
        best = items[0]
        for x in items[1:]:
            if is_prim(x) and is_prim(best) and (is_sym(x) or is_sym(best)):
                c = it.compare(op, x, best)
                best = Ite(c, x, best) if (lift(x).k == lift(best).k) else (x if it.branch(c) else best)
            elif it.branch(it.truth(it.compare(op, x, best))):
                best = x
        return best
    return m


def m_sum(it, items, start=0):
    acc = start
    for x in it.iterate(items):
        acc = it.binop(ast.Add, acc, x)
    return acc


def m_sorted(it, items, key=None, reverse=False):
    xs = it.iterate(items)
    if not deep_has_sym(xs) and key is None:
        # concrete data may still be repository objects whose __lt__ must be interpreted
        if all(is_prim(x) for x in xs):
            try:
                return sorted(xs, reverse=reverse)
            except Exception as ex:
                raise RaiseEx(ex)
    if len(xs) > 7:
        raise Unsupported('sorted() of more than 7 symbolic elements')
    keys = [it.call(key, [x], {}) for x in xs] if key is not None else xs
    out = []     # stable insertion sort using only `<`, as list.sort does
    for k, x in zip(keys, xs):
        pos = len(out)
        while pos > 0:
            a, b = (k, out[pos - 1][0])
            lt = it.compare(ast.Lt, b, a) if reverse else it.compare(ast.Lt, a, b)
            if it.branch(it.truth(lt)):
                pos -= 1
            else:
                break
        out.insert(pos, (k, x))
    return [x for _, x in out]


def m_divmod(it, a, b):
    return (it.binop(ast.FloorDiv, a, b), it.binop(ast.Mod, a, b))


def m_ord(it, c):
    if is_sym(c):
        if it.branch(Sym(z3.Length(c.t) == 1, 'bool')):
            return Sym(z3.StrToCode(c.t), 'int')
        raise RaiseEx(TypeError('ord() expected a character'))
    return it.native(ord, [c], {})


def m_enumerate(it, xs, start=0):
    return [(i + start, x) for i, x in enumerate(it.iterate(xs))]


def m_zip(it, *xss):
    return list(zip(*[it.iterate(xs) for xs in xss]))


def m_reversed(it, xs):
    return list(reversed(it.iterate(xs)))


def m_range(it, *a):
    if any(is_sym(x) for x in a):
        raise Unsupported('range() with symbolic bound')
    try:
        return range(*a)
    except Exception as ex:
        raise RaiseEx(ex)


def m_filter(it, f, xs):
    out = []
    for x in it.iterate(xs):
        t = it.truth(x) if f is None else it.truth(it.call(f, [x], {}))
        if it.branch(t):
            out.append(x)
    return out


def m_map(it, f, *xss):
    return [it.call(f, list(a), {}) for a in zip(*[it.iterate(xs) for xs in xss])]


def lazy_items(it, xs):
    """the items of an iterable one at a time: a generator object is advanced only as far as the consumer goes (any() / all() stop early,
    and what the generator would have done or raised afterwards never happens)"""
    from .interp import GenObject
    if isinstance(xs, GenObject):
        while True:
            try:
                yield xs.next()
            except RaiseEx as ex:
                if isinstance(ex.exc, StopIteration):
                    return
                raise
    else:
        yield from it.iterate(xs)


def m_any(it, xs):
    for x in lazy_items(it, xs):
        if it.branch(it.truth(x)):
            return True
    return False


def m_all(it, xs):
    for x in lazy_items(it, xs):
        if not it.branch(it.truth(x)):
            return False
    return True


def _digits(fn):
    def m(it, v):
        if is_sym(v):
            v = num(v)
            if v.k != 'int':
                raise RaiseEx(TypeError('object cannot be interpreted as an integer'))
            pos = Sym(z3.Concat(z3.StringVal(PFX[fn]), FMT[fn](v).t), 'str')
            neg = Sym(z3.Concat(z3.StringVal('-' + PFX[fn]), FMT[fn](arith(ast.Sub, 0, v)).t), 'str')
            return Ite(Sym(v.t >= 0, 'bool'), pos, neg)
        return it.native(fn, [v], {})
    return m


def _ax_pow(args, res):
    x, y = to_real(args[0]), to_real(args[1])
    return z3.And(z3.Implies(x == 1, res.t == 1), z3.Implies(y == 0, res.t == 1), z3.Implies(y == 1, res.t == x),
                  z3.Implies(x > 0, res.t > 0))


def _nat_pow(a, r):
    x, y = float(a[0]), float(a[1])
    ok = True
    if x == 1 or y == 0:
        ok = ok and r == 1
    if y == 1:
        ok = ok and r == x
    if x > 0 and _math.isfinite(r) and r != 0:
        ok = ok and r > 0
    return ok


def _safe_pow(x, y):
    try:
        r = float(x) ** float(y)
        return r if isinstance(r, float) else 0.0
    except Exception:
        return 0.0


POWF = uf('py_pow', ['real', 'real'], 'real', _safe_pow, axiom=(
    'x**y: 1**y == 1, x**0 == 1, x**1 == x, x > 0 => x**y > 0 (barring underflow to 0)', _ax_pow, _nat_pow,
    [[1.0, 5.0], [2.0, 0.0], [3.5, 1.0], [2.0, -3.0], [0.5, 10.0], [1.0, -2.5]]))


def py_pow(it, a, b):
    """a ** b on symbolic numbers, with Python's exceptions (DESIGN 2.4)."""
    a, b = num(lift(a)), num(lift(b))
    cb = S._const_int(b)
    if cb is not None and 0 <= cb <= 8:
        return arith(ast.Pow, a, b)
    ra, rb = to_real(a), to_real(b)
    if it.branch(Sym(z3.And(ra == 0, rb < 0), 'bool')):
        raise RaiseEx(ZeroDivisionError('0.0 cannot be raised to a negative power'))
    if it.branch(Sym(z3.And(ra < 0, z3.Not(z3.IsInt(rb))), 'bool')):
        return SymComplex()
    return POWF(Sym(ra, 'real'), Sym(rb, 'real'))


class SymComplex(SymObject):
    """result of a negative base raised to a fractional power: only its type (complex) is modelled"""
    py_type = complex

    def binop(self, it, op, other, reflected):
        raise Unsupported('arithmetic on a complex power result')

    def compare(self, it, op, other, reflected):
        return NotImplemented


def m_np_power(it, a, b):
    """numpy.power on python objects works element-wise through operator.pow (object dtype): the repository's
    Number.__pow__ decides; on plain floats it is the IEEE power function (uninterpreted)."""
    from .interp import is_repo_obj
    if is_repo_obj(a) or is_repo_obj(b):
        return it.binop(ast.Pow, a, b)
    if is_sym(a) or is_sym(b):
        return np_ufunc('power', 2)(it, a, b)
    import numpy as np
    return it.native(np.power, [a, b], {})


def m_dateutil_parse(it, s, *a, **k):
    """ASSUMED contract on dateutil.parser.parse: returns some datetime or raises ValueError/OverflowError"""
    import dateutil.parser
    if not is_sym(s):
        return it.native(dateutil.parser.parse, [s] + list(a), k)
    from . import models_datetime as MD
    if it.branch(DATEUTIL_OK(s)):
        o = fresh('int', 'parsed_ordinal')
        sec = fresh('int', 'parsed_second')
        it.assume(Sym(z3.And(o.t >= MD.MIN_ORD, o.t <= MD.MAX_ORD, sec.t >= 0, sec.t < 86400), 'bool'))
        return MD.SymDateTime(o, sec)
    raise RaiseEx(ValueError('Unknown string format'))


def _dateutil_ok(s):
    import dateutil.parser
    try:
        dateutil.parser.parse(s)
        return True
    except Exception:
        return False


DATEUTIL_OK = uf('dateutil_parses', ['str'], 'bool', _dateutil_ok)


def m_pow(it, a, b, mod=None):
    if mod is not None:
        raise Unsupported('3-arg pow')
    return it.binop(ast.Pow, a, b)


def m_copy(it, v):
    if is_sym(v) or isinstance(v, SymObject):
        return v
    if deep_has_sym(v) and isinstance(v, (list, dict, set)):
        return type(v)(v)
    if deep_has_sym(v):
        return v            # immutable Excel value objects
    return it.native(_copy.copy, [v], {})


def m_deepcopy(it, v, memo=None):
    """copy.deepcopy: a structurally equal, fully fresh object graph (sharing inside the graph is preserved through the
    memo); immutable leaves - numbers, strings, symbolic values, Excel value objects - are shared, as in CPython.
    Repository objects are rebuilt field by field (no class in the repository defines __deepcopy__; a __reduce__ is
    honoured by falling back to the native routine when nothing symbolic is inside)."""
    if not deep_has_sym(v):
        return it.native(_copy.deepcopy, [v], {})
    memo = {} if memo is None else memo

    def go(x):
        if is_sym(x) or isinstance(x, SymObject) or is_prim(x) or x is None or isinstance(x, (type, types.FunctionType, ModelFn)):
            return x
        if id(x) in memo:
            return memo[id(x)]
        if not deep_has_sym(x):
            r = _copy.deepcopy(x)
            memo[id(x)] = r
            return r
        if isinstance(x, list):
            r = []
            memo[id(x)] = r
            r.extend(go(e) for e in x)
            return r
        if isinstance(x, tuple):
            return tuple(go(e) for e in x)
        if isinstance(x, set):
            r = set(go(e) for e in x)
            memo[id(x)] = r
            return r
        if isinstance(x, dict):
            r = {}
            memo[id(x)] = r
            for k, e in x.items():
                r[go(k)] = go(e)
            return r
        if isinstance(x, Stub):
            r = Stub(x._stub_name + "'")
            memo[id(x)] = r
            for k, e in x.__dict__.items():
                if k != '_stub_name':
                    object.__setattr__(r, k, go(e))
            return r
        if is_repo_obj(x):
            if lookup_special(x, '__deepcopy__') is not None:
                raise Unsupported('__deepcopy__ on ' + type(x).__name__)
            from xlcalculator.xlfunctions import func_xltypes as _t
            if isinstance(x, _t.ExcelType):
                return x                               # immutable value object around a symbolic leaf
            r = object.__new__(type(x))
            memo[id(x)] = r
            for k, e in x.__dict__.items():
                object.__setattr__(r, k, go(e))
            return r
        raise Unsupported('deepcopy of ' + type(x).__name__ + ' holding symbolic data')
    return go(v)


def m_format(it, v, spec=''):
    if deep_has_sym(v):
        return fresh('str', 'fmt')
    return it.native(format, [v, spec], {})


def m_re(kind):
    def m(it, pattern, s, flags=0):
        if is_sym(pattern):
            raise Unsupported('symbolic regex')
        if is_sym(s):
            if is_sym(flags):
                raise Unsupported('symbolic regex flags')
            return ReMatch(regex_matches(pattern, kind, s, int(flags)))
        return it.native(getattr(_re, kind), [pattern, s, flags], {})
    return m


class ReMatch(SymObject):
    """result of re.match/search on a symbolic string: only its truthiness is modelled"""
    py_type = _re.Match

    def __init__(self, ok):
        self.ok = ok

    def truth(self, it):
        return self.ok

    def binop(self, it, op, other, reflected):
        return NotImplemented

    def compare(self, it, op, other, reflected):
        return NotImplemented


def m_iter(it, xs):
    from .interp import GenObject
    if isinstance(xs, GenObject):
        return xs
    return iter(it.iterate(xs))


def m_next(it, i, *d):
    from .interp import GenObject
    if isinstance(i, GenObject):
        try:
            return i.next()
        except RaiseEx as ex:
            if d and isinstance(ex.exc, StopIteration):
                return d[0]
            raise
    from .interp import EagerGen
    try:
        return i.take() if isinstance(i, EagerGen) else next(i)
    except StopIteration as ex:
        if d:
            return d[0]
        raise RaiseEx(ex)
    except TypeError as ex:
        raise RaiseEx(ex)


def m_math_unary(name, exact=None, domain=None):
    def m(it, x):
        if not (is_sym(x) or (not is_prim(x))):
            return it.native(getattr(_math, name), [x], {})
        if not is_sym(x):
            x = m_float(it, x)
            if not is_sym(x):
                return it.native(getattr(_math, name), [x], {})
        x = num(x)
        if domain is not None:
            ok, exc = domain
            if not it.branch(ok(x)):
                raise RaiseEx(exc)
        if exact is not None:
            return exact(x)
        key = 'math.' + name
        if key not in NP_UF:
            NP_UF[key] = uf('math_' + name, ['real'], 'real', lambda v, n=name: getattr(_math, n)(float(v)))
        return NP_UF[key](x)
    return m


def _floor(x):
    return Sym(S.floor_real(to_real(x)), 'int')


def _ceil(x):
    t = to_real(x)
    return Sym(-S.floor_real(-t), 'int')


def _trunc(x):
    return Sym(S.trunc_real(to_real(x)), 'int')


def m_math_log(it, x, base=None):
    if not (is_sym(x) or is_sym(base) or not is_prim(x)):
        return it.native(_math.log, [x] if base is None else [x, base], {})
    x = x if is_prim(x) else m_float(it, x)
    if base is not None and not is_prim(base):
        base = m_float(it, base)
    if not (is_sym(x) or is_sym(base)):
        return it.native(_math.log, [x] if base is None else [x, base], {})
    x = num(lift(x))
    if it.branch(Sym(to_real(x) <= 0, 'bool')):
        raise RaiseEx(ValueError('math domain error'))
    LN = NP_UF.setdefault('math.log', uf('math_log', ['real'], 'real', lambda v: _math.log(float(v))))
    if base is None:
        return LN(x)
    b = num(lift(base))
    if it.branch(Sym(to_real(b) <= 0, 'bool')):
        raise RaiseEx(ValueError('math domain error'))
    if it.branch(Sym(to_real(b) == 1, 'bool')):
        raise RaiseEx(ZeroDivisionError('float division by zero'))
    return Sym(LN(x).t / LN(b).t, 'real')


def np_ufunc(name, arity=1):
    import numpy as np
    fn = getattr(np, name)

    def m(it, *args, **kwargs):
        if kwargs:
            raise Unsupported('numpy kwargs')
        if not any(is_sym(a) or deep_has_sym(a) for a in args):
            return it.native(fn, list(args), {})
        xs = []
        for a in args:
            if not is_sym(a):
                if is_prim(a):
                    a = lift(a)
                else:
                    a = m_float(it, a)         # numpy calls __float__ on objects
            xs.append(num(a))
        key = 'np.' + name
        if key not in NP_UF:
            NP_UF[key] = uf('np_' + name, ['real'] * arity, 'real',
                            lambda *v, fn=fn: float(fn(*[float(x) for x in v])))
        return NP_UF[key](*xs)
    return m


BUILTIN_MODELS = {
    isinstance: m_isinstance, type: m_type, len: m_len, str: m_str, repr: m_repr, int: m_int, float: m_float,
    bool: m_bool, getattr: m_getattr, hasattr: m_hasattr, setattr: m_setattr, tuple: m_tuple, list: m_list,
    set: m_set, abs: m_abs, round: m_round, min: _minmax(ast.Lt), max: _minmax(ast.Gt), sum: m_sum,
    sorted: m_sorted, divmod: m_divmod, ord: m_ord, enumerate: m_enumerate, zip: m_zip, reversed: m_reversed,
    range: m_range, filter: m_filter, map: m_map, any: m_any, all: m_all, bin: _digits(bin), oct: _digits(oct),
    hex: _digits(hex), pow: m_pow, format: m_format, iter: m_iter, next: m_next,
    _copy.copy: m_copy, _copy.deepcopy: m_deepcopy,
    _re.match: m_re('match'), _re.search: m_re('search'),
    _math.floor: m_math_unary('floor', exact=_floor), _math.ceil: m_math_unary('ceil', exact=_ceil),
    _math.trunc: None,   # replaced below (needs __trunc__ dispatch)
    _math.sqrt: m_math_unary('sqrt', domain=(lambda x: Sym(to_real(x) >= 0, 'bool'), ValueError('math domain error'))),
    _math.log: m_math_log,
}


def m_math_trunc(it, x):
    if is_sym(x):
        return _trunc(num(x))
    if not is_prim(x):
        f = lookup_special(x, '__trunc__')
        if f is not None and is_repo_func(f):
            return it.call(f, [x], {})
    return it.native(_math.trunc, [x], {})


BUILTIN_MODELS[_math.trunc] = m_math_trunc


def _npf_model(name, params):
    """numpy_financial functions as uninterpreted functions of their (float) arguments; `when` must be concrete"""
    import numpy_financial as npf
    fn = getattr(npf, name)

    def m(it, *args, **kwargs):
        if not (deep_has_sym(args) or deep_has_sym(kwargs)):
            return it.native(fn, list(args), kwargs)
        ba = inspect.signature(fn).bind(*args, **kwargs)
        ba.apply_defaults()
        vals = []
        for pn in params:
            v = ba.arguments[pn]
            if pn == 'when':
                if is_sym(v):
                    v = num(v)
                    if v.k != 'int':
                        raise Unsupported('npf when= symbolic non-int')
                else:
                    v = {'end': 0, 'begin': 1, 0: 0, 1: 1}.get(v)
                    if v is None:
                        raise Unsupported('npf when=')
            elif not is_sym(v):
                v = lift(v) if is_prim(v) else m_float(it, v)
            vals.append(num(lift(v)))
        key = 'npf.' + name
        if key not in NP_UF:
            NP_UF[key] = uf('npf_' + name, ['real'] * len(params), 'real',
                            lambda *v, fn=fn: float(fn(*[float(x) for x in v[:-1]], when=int(v[-1]))) if params[-1] == 'when'
                            else float(fn(*[float(x) for x in v])))
        return NP_UF[key](*vals)
    return m


def _install_numpy():
    import numpy_financial as npf
    BUILTIN_MODELS[npf.pmt] = _npf_model('pmt', ['rate', 'nper', 'pv', 'fv', 'when'])
    BUILTIN_MODELS[npf.pv] = _npf_model('pv', ['rate', 'nper', 'pmt', 'fv', 'when'])
    import numpy as np
    for n in ('arccos', 'arccosh', 'arcsin', 'arcsinh', 'arctan', 'cos', 'cosh', 'degrees', 'exp', 'log10',
              'radians', 'sign', 'sin', 'sinh', 'tan', 'tanh', 'sqrt', 'arctanh'):
        BUILTIN_MODELS[getattr(np, n)] = np_ufunc(n, 1)
    BUILTIN_MODELS[np.arctan2] = np_ufunc('arctan2', 2)
    BUILTIN_MODELS[np.power] = m_np_power
    import dateutil.parser
    BUILTIN_MODELS[dateutil.parser.parse] = m_dateutil_parse


_install_numpy()

CLASS_MODELS = {}


# ---- operator module, functools.partial, itertools (thin wrappers over the interpreter's own operations) ---------------------------------
def _install_stdlib_wrappers():
    import operator as _op
    import functools as _ft
    import itertools as _it
    for name, node in (('lt', ast.Lt), ('le', ast.LtE), ('eq', ast.Eq), ('ne', ast.NotEq), ('gt', ast.Gt), ('ge', ast.GtE)):
        BUILTIN_MODELS[getattr(_op, name)] = (lambda n: lambda it, a, b: it.compare(n, a, b))(node)
    for name, node in (('add', ast.Add), ('sub', ast.Sub), ('mul', ast.Mult), ('truediv', ast.Div), ('floordiv', ast.FloorDiv),
                       ('mod', ast.Mod), ('pow', ast.Pow)):
        BUILTIN_MODELS[getattr(_op, name)] = (lambda n: lambda it, a, b: it.binop(n, a, b))(node)
    BUILTIN_MODELS[_op.not_] = lambda it, a: Not(it.truth(a))
    BUILTIN_MODELS[_op.neg] = lambda it, a: it.binop(ast.Sub, 0, a)
    BUILTIN_MODELS[_op.is_] = lambda it, a, b: a is b
    BUILTIN_MODELS[_op.is_not] = lambda it, a, b: a is not b
    BUILTIN_MODELS[_op.getitem] = lambda it, a, b: it.getitem(a, b)

    def m_partial(it, func, *args, **kw):
        def call(it_, *a, **k):
            merged = dict(kw)
            merged.update(k)
            return it_.call(func, list(args) + list(a), merged)
        fn = ModelFn(call, 'functools.partial(' + getattr(func, '__name__', '?') + ')')
        fn.func, fn.args, fn.keywords = func, tuple(args), dict(kw)
        return fn
    CLASS_MODELS[_ft.partial] = m_partial

    def m_reduce(it, f, xs, *init):
        items = it.iterate(xs)
        if init:
            acc = init[0]
        elif items:
            acc, items = items[0], items[1:]
        else:
            raise RaiseEx(TypeError('reduce() of empty iterable with no initial value'))
        for x in items:
            acc = it.call(f, [acc, x], {})
        return acc
    BUILTIN_MODELS[_ft.reduce] = m_reduce
    # itertools over concrete-length iterables: materialised (the interpreter's iteration is eager except for generators)
    CLASS_MODELS[_it.chain] = lambda it, *xs: [v for x in xs for v in it.iterate(x)]
    BUILTIN_MODELS[_it.chain.from_iterable] = lambda it, xs: [v for x in it.iterate(xs) for v in it.iterate(x)]

    def m_islice(it, xs, *a):
        items = it.iterate(xs)
        if any(is_sym(v) for v in a):
            raise Unsupported('islice with symbolic bounds')
        return items[slice(*a)]
    CLASS_MODELS[_it.islice] = m_islice


_install_stdlib_wrappers()


# ---- symbolic-length sequences (loop cuts / unbounded argument lists) ------------------------------------------------
class SymSeq(SymObject):
    """Placeholder base: a sequence whose length is symbolic. Concrete subclasses live with the contracts
    that need them (they define iterate/getitem/length/contains)."""
    py_type = list

    def iterate(self, it):
        raise Unsupported('iteration over a symbolic-length sequence needs a loop contract')

    def length(self, it):
        raise Unsupported('len of SymSeq')

    def getitem(self, it, i):
        raise Unsupported('SymSeq index')

    def getslice(self, it, lo, hi, st):
        raise Unsupported('SymSeq slice')

    def contains(self, it, a):
        raise Unsupported('SymSeq contains')

    def binop(self, it, op, other, reflected):
        return NotImplemented

    def compare(self, it, op, other, reflected):
        return NotImplemented


SplitResult = _late_split_result()


# truthiness hook for SymObjects with a `truth` method
_orig_truth = None


def _patch_truth():
    from . import interp
    orig = interp.Interp.truth

    def truth(self, v):
        if isinstance(v, SymObject) and hasattr(v, 'truth'):
            return v.truth(self)
        return orig(self, v)
    interp.Interp.truth = truth


_patch_truth()


def py_pow_spec(a, b):
    """spec-level power on (symbolic) numbers: the uninterpreted IEEE power function the code is modelled with"""
    a, b = num(lift(a)), num(lift(b))
    return POWF(Sym(to_real(a), 'real'), Sym(to_real(b), 'real'))


def m_math_prod(it, items, start=1):
    acc = start
    for x in it.iterate(items):
        acc = it.binop(ast.Mult, acc, x)
    return acc


BUILTIN_MODELS[_math.prod] = m_math_prod


def _install_numpy_predicates():
    import numpy as np

    def m_isinf(it, x):
        if is_sym(x):
            return False          # A-float: a real number is never infinite (overflow is the bounded layer's business)
        return it.native(np.isinf, [x], {})

    def m_isnan(it, x):
        if is_sym(x):
            return False
        return it.native(np.isnan, [x], {})
    BUILTIN_MODELS[np.isinf] = m_isinf
    BUILTIN_MODELS[np.isnan] = m_isnan
    BUILTIN_MODELS[_math.isinf] = m_isinf
    BUILTIN_MODELS[_math.isnan] = m_isnan
    BUILTIN_MODELS[_math.isfinite] = lambda it, x: True if is_sym(x) else it.native(_math.isfinite, [x], {})


_install_numpy_predicates()
