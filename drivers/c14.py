"""C14 bounded layer (B4): aggregates over ranges equal the reference fold of the addressed cells.
2x3 rectangles filled with numbers / blanks / text in EVERY pattern, every split into sub-ranges and scalars, argument
permutations, through formulas in compiled models."""
import itertools

from pyvc.bounded import Driver

CELLS = ['A1', 'B1', 'C1', 'A2', 'B2', 'C2']            # row-major 2x3
NUMS = [3, -1.5, 10, 0, 7.25, 2]
SPLITS = {
    'whole': ['A1:C2'],
    'rows': ['A1:C1', 'A2:C2'],
    'cols': ['A1:A2', 'B1:B2', 'C1:C2'],
    'block+col': ['A1:B2', 'C1:C2'],
    'cells': ['A1', 'B1', 'C1', 'A2', 'B2', 'C2'],
    'mixed': ['A1:B1', 'C1', 'A2', 'B2:C2'],
}
FUNCS = ['SUM', 'AVERAGE', 'MIN', 'MAX', 'COUNT', 'COUNTA']


def cases_patterns(tier, seed):
    for pat in itertools.product('nbt', repeat=6):
        pat = ''.join(pat)
        for split in SPLITS:
            yield dict(kind='fold', pattern=pat, split=split)


def cases_orders(tier, seed):
    for pat in ('nnnnnn', 'nbntnb', 'tbnnbt', 'nnbbtt', 'bnbnbn'):
        for split in ('rows', 'cols', 'mixed', 'block+col'):
            args = SPLITS[split]
            for perm in itertools.permutations(range(len(args))):
                yield dict(kind='order', pattern=pat, split=split, perm=list(perm))
        # permuting the contents inside the range
        for perm in itertools.islice(itertools.permutations(range(6)), 0, 720, 7):
            yield dict(kind='content-perm', pattern=pat, perm=list(perm))
    for pat in itertools.product('nbt', repeat=6):
        yield dict(kind='sumproduct', pattern=''.join(pat), other='nnnnnn')
    for pat in ('nnnnnn', 'nbnnnb'):
        for shape in ('A1:C2|A1:B2', 'A1:C1|A1:A2', 'A1:C2|A1:C1', 'A1:C1|A1:A3', 'A1:C2|A1:B3', 'A1:B2|A1:D1', 'A1:A2|A1:B1'):
            yield dict(kind='sumproduct-shape', pattern=pat, shape=shape)
    for n in (100, 255, 256, 300, 1000):
        yield dict(kind='big', n=n)


def content(pat, perm=None):
    vals = []
    for i, ch in enumerate(pat):
        vals.append(NUMS[i] if ch == 'n' else (None if ch == 'b' else 'txt'))
    if perm:
        vals = [vals[j] for j in perm]
    return vals


def reference(vals):
    nums = [v for v in vals if isinstance(v, (int, float))]
    out = {'SUM': ('num', sum(nums)), 'COUNT': ('num', len(nums)), 'COUNTA': ('num', len([v for v in vals if v is not None]))}
    if nums:
        out.update({'AVERAGE': ('num', sum(nums) / len(nums)), 'MIN': ('num', min(nums)), 'MAX': ('num', max(nums))})
    return out


def _close(o, e):
    if o == e:
        return True
    return o[0] == e[0] == 'num' and abs(o[1] - e[1]) <= 1e-9 * max(1.0, abs(e[1]))


def oracle(c):
    import xlcalculator
    from drivers.common import build_model, observe
    k = c['kind']
    if k == 'big':
        n = c['n']
        cells = {f'A{i}': i for i in range(1, n + 1)}
        cells.update({'B1': f'=SUM(A1:A{n})', 'B2': f'=COUNT(A1:A{n})', 'B3': f'=COUNTA(A1:A{n})', 'B4': f'=AVERAGE(A1:A{n})', 'B5': f'=MAX(A1:A{n})'})
        exp = [('num', n * (n + 1) // 2), ('num', n), ('num', n), ('num', (n + 1) / 2), ('num', n)]
        probes = ['B1', 'B2', 'B3', 'B4', 'B5']
    else:
        vals = content(c['pattern'], c.get('perm') if k == 'content-perm' else None)
        cells = {a: v for a, v in zip(CELLS, vals) if v is not None}
        ref = reference(vals)
        probes, exp = [], []
        if k in ('fold', 'order'):
            args = SPLITS[c['split']]
            if k == 'order':
                args = [args[i] for i in c['perm']]
            for f in FUNCS:
                if f in ref:
                    cells[f'H{len(probes) + 1}'] = f'={f}({",".join(args)})'
                    probes.append(f'H{len(probes) + 1}')
                    exp.append(ref[f])
        elif k == 'content-perm':
            for f in FUNCS:
                if f in ref:
                    cells[f'H{len(probes) + 1}'] = f'={f}(A1:C2)'
                    probes.append(f'H{len(probes) + 1}')
                    exp.append(ref[f])
        elif k == 'sumproduct':
            other = [NUMS[(i + 2) % 6] + 1 for i in range(6)]
            for a, v in zip(['E1', 'F1', 'G1', 'E2', 'F2', 'G2'], other):
                cells[a] = v
            cells['H1'] = '=SUMPRODUCT(A1:C2,E1:G2)'
            probes = ['H1']
            exp = [('num', sum((v if isinstance(v, (int, float)) else 0) * o for v, o in zip(vals, other)))]
        elif k == 'sumproduct-shape':
            a, b = c['shape'].split('|')
            cells['H1'] = f'=SUMPRODUCT({a},{b})'
            probes = ['H1']
            exp = [('err', '#VALUE!')]
    try:
        model = build_model(cells)
        ev = xlcalculator.Evaluator(model)
        obs = []
        for p in probes:
            try:
                obs.append(observe(ev.evaluate('Sheet1!' + p)))
            except Exception as ex:      # noqa
                obs.append(('raise', f'{type(ex).__name__}: {str(ex)[:100]}'))
    except Exception as ex:      # noqa
        return False, exp, f'model: raise {type(ex).__name__}: {str(ex)[:160]}'
    ok = all(_close(o, e) for o, e in zip(obs, exp))
    if ok and k in ('fold',) and len(obs) == 6:
        mn, av, mx = obs[2][1], obs[1][1], obs[3][1]
        ok = mn <= av + 1e-12 and av <= mx + 1e-12
    return ok, exp, obs


def nontrivial(c):
    return c.get('pattern', 'n') not in ('bbbbbb',)


DRIVERS = [
    Driver('C14/B4.patterns', cases_patterns, oracle, nchunks=12, exhaustive=True, nontrivial=nontrivial,
           rule='2x3 rectangle filled with number / blank / text in every one of the 3^6 patterns x 6 ways of splitting it into sub-ranges and scalar references: SUM, AVERAGE, MIN, MAX (when a number is present), COUNT, COUNTA against the reference folds; MIN <= AVERAGE <= MAX',
           bound='2x3 cells, complete over the 3-letter content alphabet'),
    Driver('C14/B4.orders', cases_orders, oracle, nchunks=8, nontrivial=nontrivial,
           rule='argument permutations of 4 splits x 5 patterns; permutations of the contents inside the range; SUMPRODUCT over every pattern against a numeric range and over differently shaped ranges (#VALUE!); ranges of 100..1000 cells',
           bound='see rule'),
]
