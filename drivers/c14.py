"""C14 bounded layer (B4): aggregates over ranges equal the reference fold of the addressed cells.
2x3 rectangles filled with numbers / blanks / text in EVERY pattern, every split into sub-ranges and scalars, argument
permutations, through formulas in compiled models."""
import itertools

from pyvc.bounded import Driver

CELLS = ['A1', 'B1', 'C1', 'A2', 'B2', 'C2']            # row-major 2x3
NUMS = [3, -1.5, 10, 0, 7.25, 2]
SPLITS = {
    'whole': ['A1:C2'],
    'rows': ['A1:C1', 'A2:C2'],
    'cols': ['A1:A2', 'B1:B2', 'C1:C2'],
    'block+col': ['A1:B2', 'C1:C2'],
    'cells': ['A1', 'B1', 'C1', 'A2', 'B2', 'C2'],
    'mixed': ['A1:B1', 'C1', 'A2', 'B2:C2'],
}
FUNCS = ['SUM', 'AVERAGE', 'MIN', 'MAX', 'COUNT', 'COUNTA']


def cases_patterns(tier, seed):
    for pat in itertools.product('nbt', repeat=6):
        pat = ''.join(pat)
        for split in SPLITS:
            yield dict(kind='fold', pattern=pat, split=split)


def cases_orders(tier, seed):
    for pat in ('nnnnnn', 'nbntnb', 'tbnnbt', 'nnbbtt', 'bnbnbn'):
        for split in ('rows', 'cols', 'mixed', 'block+col'):
            args = SPLITS[split]
            for perm in itertools.permutations(range(len(args))):
                yield dict(kind='order', pattern=pat, split=split, perm=list(perm))
        # permuting the contents inside the range
        for perm in itertools.islice(itertools.permutations(range(6)), 0, 720, 7):
            yield dict(kind='content-perm', pattern=pat, perm=list(perm))
    for pat in itertools.product('nbt', repeat=6):
        yield dict(kind='sumproduct', pattern=''.join(pat), other='nnnnnn')
    for pat in ('nnnnnn', 'nbnnnb'):
        for shape in ('A1:C2|A1:B2', 'A1:C1|A1:A2', 'A1:C2|A1:C1', 'A1:C1|A1:A3', 'A1:C2|A1:B3', 'A1:B2|A1:D1', 'A1:A2|A1:B1'):
            yield dict(kind='sumproduct-shape', pattern=pat, shape=shape)
    for n in (100, 255, 256, 300, 1000):
        yield dict(kind='big', n=n)
    # data in rows 1..m of a range of n rows: the last cell that holds something at, just before and just after the 101st row
    for m, n in ((101, 101), (100, 250), (101, 250), (102, 250), (103, 250), (150, 400), (101, 1000)):
        yield dict(kind='big-tail', m=m, n=n)


def content(pat, perm=None):
    vals = []
    for i, ch in enumerate(pat):
        vals.append(NUMS[i] if ch == 'n' else (None if ch == 'b' else 'txt'))
    if perm:
        vals = [vals[j] for j in perm]
    return vals


def reference(vals):
    nums = [v for v in vals if isinstance(v, (int, float))]
    out = {'SUM': ('num', sum(nums)), 'COUNT': ('num', len(nums)), 'COUNTA': ('num', len([v for v in vals if v is not None]))}
    if nums:
        out.update({'AVERAGE': ('num', sum(nums) / len(nums)), 'MIN': ('num', min(nums)), 'MAX': ('num', max(nums))})
    return out


def _close(o, e):
    if o == e:
        return True
    return o[0] == e[0] == 'num' and abs(o[1] - e[1]) <= 1e-9 * max(1.0, abs(e[1]))


def oracle(c):
    import xlcalculator
    from drivers.common import build_model, observe
    k = c['kind']
    if k == 'big-tail':
        m, n = c['m'], c['n']
        cells = {f'A{i}': i for i in range(1, m + 1)}
        cells.update({'B1': f'=SUM(A1:A{n})', 'B2': f'=COUNT(A1:A{n})', 'B3': f'=COUNTA(A1:A{n})', 'B4': f'=AVERAGE(A1:A{n})', 'B5': f'=MAX(A1:A{n})',
                      'B6': f'=SUM(A1:A50)+SUM(A51:A{n})'})
        exp = [('num', m * (m + 1) // 2), ('num', m), ('num', m), ('num', (m + 1) / 2), ('num', m), ('num', m * (m + 1) // 2)]
        probes = ['B1', 'B2', 'B3', 'B4', 'B5', 'B6']
    elif k == 'big':
        n = c['n']
        cells = {f'A{i}': i for i in range(1, n + 1)}
        cells.update({'B1': f'=SUM(A1:A{n})', 'B2': f'=COUNT(A1:A{n})', 'B3': f'=COUNTA(A1:A{n})', 'B4': f'=AVERAGE(A1:A{n})', 'B5': f'=MAX(A1:A{n})'})
        exp = [('num', n * (n + 1) // 2), ('num', n), ('num', n), ('num', (n + 1) / 2), ('num', n)]
        probes = ['B1', 'B2', 'B3', 'B4', 'B5']
    else:
        vals = content(c['pattern'], c.get('perm') if k == 'content-perm' else None)
        cells = {a: v for a, v in zip(CELLS, vals) if v is not None}
        ref = reference(vals)
        probes, exp = [], []
        if k in ('fold', 'order'):
            args = SPLITS[c['split']]
            if k == 'order':
                args = [args[i] for i in c['perm']]
            for f in FUNCS:
                if f in ref:
                    cells[f'H{len(probes) + 1}'] = f'={f}({",".join(args)})'
                    probes.append(f'H{len(probes) + 1}')
                    exp.append(ref[f])
        elif k == 'content-perm':
            for f in FUNCS:
                if f in ref:
                    cells[f'H{len(probes) + 1}'] = f'={f}(A1:C2)'
                    probes.append(f'H{len(probes) + 1}')
                    exp.append(ref[f])
        elif k == 'sumproduct':
            other = [NUMS[(i + 2) % 6] + 1 for i in range(6)]
            for a, v in zip(['E1', 'F1', 'G1', 'E2', 'F2', 'G2'], other):
                cells[a] = v
            cells['H1'] = '=SUMPRODUCT(A1:C2,E1:G2)'
            probes = ['H1']
            exp = [('num', sum((v if isinstance(v, (int, float)) else 0) * o for v, o in zip(vals, other)))]
        elif k == 'sumproduct-shape':
            a, b = c['shape'].split('|')
            cells['H1'] = f'=SUMPRODUCT({a},{b})'
            probes = ['H1']
            exp = [('err', '#VALUE!')]
    try:
        model = build_model(cells)
        ev = xlcalculator.Evaluator(model)
        obs = []
        for p in probes:
            try:
                obs.append(observe(ev.evaluate('Sheet1!' + p)))
            except Exception as ex:      # noqa
                obs.append(('raise', f'{type(ex).__name__}: {str(ex)[:100]}'))
    except Exception as ex:      # noqa
        return False, exp, f'model: raise {type(ex).__name__}: {str(ex)[:160]}'
    ok = all(_close(o, e) for o, e in zip(obs, exp))
    if ok and k in ('fold',) and len(obs) == 6:
        mn, av, mx = obs[2][1], obs[1][1], obs[3][1]
        ok = mn <= av + 1e-12 and av <= mx + 1e-12
    return ok, exp, obs


def nontrivial(c):
    return c.get('pattern', 'n') not in ('bbbbbb',)


DRIVERS = [
    Driver('C14/B4.patterns', cases_patterns, oracle, nchunks=12, exhaustive=True, nontrivial=nontrivial,
           rule='2x3 rectangle filled with number / blank / text in every one of the 3^6 patterns x 6 ways of splitting it into sub-ranges and scalar references: SUM, AVERAGE, MIN, MAX (when a number is present), COUNT, COUNTA against the reference folds; MIN <= AVERAGE <= MAX',
           bound='2x3 cells, complete over the 3-letter content alphabet'),
    Driver('C14/B4.orders', cases_orders, oracle, nchunks=8, nontrivial=nontrivial,
           rule='argument permutations of 4 splits x 5 patterns; permutations of the contents inside the range; SUMPRODUCT over every pattern against a numeric range and over differently shaped ranges (#VALUE!); ranges of 100..1000 cells',
           bound='see rule'),
]


# ---- "exactly the addressed values" after the inputs have changed: ranges holding COMPUTED cells -------------------------------------------
HOPS = {
    # the cells of the block D1:E3 are formulas one, two and three hops away from the inputs A1 / A2; plus a number, a text and a blank
    'block': {'A1': 2, 'A2': 10, 'B1': '=A1*2', 'B2': '=B1+A2', 'C1': '=B2+1',
              'D1': '=A1+1', 'D2': '=B1+1', 'D3': '=B2+1', 'E1': '=C1*2', 'E2': 7, 'E3': 'txt', 'F1': '=D1'},
}
AGG = ['SUM', 'AVERAGE', 'MIN', 'MAX', 'COUNT', 'COUNTA']


def cases_after_change(tier, seed):
    for split in (['D1:E3'], ['D1:D3', 'E1:E3'], ['D1:E1', 'D2:E3'], ['D1:E2', 'D3:E3']):
        for sets in ([('A1', 5)], [('A2', -3)], [('A1', 5), ('A2', 0.5)], [('A1', 5), ('A1', 2)], [('E2', 100)], [('E3', 4)]):
            for first in ('aggregates', 'cells', 'nothing'):
                yield dict(kind='after-change', split=split, sets=[list(x) for x in sets], first=first)


def oracle_after_change(c):
    import xlcalculator
    from drivers.common import build_model, observe
    cells = dict(HOPS['block'])
    args = ','.join(c['split'])
    for k, f in enumerate(AGG):
        cells[f'H{k + 1}'] = f'={f}({args})'
    cells['H7'] = '=SUMPRODUCT(D1:D3,D1:D3)'
    model = build_model({'Sheet1!' + k: v for k, v in cells.items()})
    ev = xlcalculator.Evaluator(model)
    targets = [f'Sheet1!H{k + 1}' for k in range(7)]
    block = ['D1', 'E1', 'D2', 'E2', 'D3', 'E3']
    try:
        if c['first'] == 'aggregates':
            for t in targets:
                ev.evaluate(t)
        elif c['first'] == 'cells':
            for a in block:
                ev.evaluate('Sheet1!' + a)
        for a, v in c['sets']:
            ev.set_cell_value('Sheet1!' + a, v)
        got = {t: observe(ev.evaluate(t)) for t in targets}
        fresh = xlcalculator.Evaluator(model)                                  # the addressed values, read one by one
        vals = []
        for a in block:
            o = observe(fresh.evaluate('Sheet1!' + a))
            vals.append(o[1] if o[0] == 'num' else (None if o[0] == 'blank' else 'txt'))
    except Exception as ex:     # noqa
        return False, 'values', f'raise {type(ex).__name__}: {str(ex)[:200]}'
    ref = reference(vals)
    d = [v for v in (vals[0], vals[2], vals[4])]
    ref7 = ('num', sum(x * x for x in d if isinstance(x, (int, float))))
    for k, f in enumerate(AGG):
        if f in ref and not _close(got[targets[k]], ref[f]):
            return False, (f'{f}({args}) == fold of the current values {vals}', ref[f]), got[targets[k]]
    if not _close(got[targets[6]], ref7):
        return False, ('SUMPRODUCT(D1:D3,D1:D3)', ref7), got[targets[6]]
    return True, 'aggregates follow the current values of computed cells in their ranges', 'ok'


DRIVERS.append(Driver('C14/B4.after-change', cases_after_change, oracle_after_change, nchunks=4, exhaustive=True,
                      rule='a 3x2 block of cells computed one, two and three formulas away from two inputs (plus a number, a text, a blank), aggregated whole and in '
                           '3 splits: evaluate the aggregates / the cells / nothing, change inputs (1-2 set_cell_value calls, also back to the old value, also '
                           'cells of the block itself), evaluate again: every aggregate == the reference fold of the values the cells have NOW, read one by one '
                           'by a fresh evaluator',
                      bound='one block, 4 splits x 6 change sets x 3 first steps'))
