"""C04 / C05 bounded layer (B8): histories of set_cell_value / evaluate on small acyclic models.

Monitor (the contract of Evaluator.evaluate, DESIGN section 7): after ANY history
  * evaluate(c) == the value a freshly compiled model holding the current inputs gives for c      (C04, C05)
  * the model's stored value of c is that value; get_cell_value returns it                         (C04)
  * constants, formula texts, defined names and the set of cells are unchanged by evaluation       (C05)
  * setting through a defined name == setting through the address                                  (C04)
  * repeated evaluation does not grow the process footprint                                        (C05)
"""
import itertools
import random

from pyvc.bounded import Driver

MODELS = {
    'diamond': dict(cells={'A1': 2, 'A2': 3, 'B1': '=A1+A2', 'B2': '=B1*2', 'B3': '=B1+B2', 'C1': '=SUM(A1:A2)+B3'},
                    names={'inp': 'Sheet1!$A$1'}, inputs=['A1', 'A2']),
    'chain': dict(cells={'A1': 1, 'B1': '=A1+1', 'C1': '=B1+1', 'D1': '=C1+B1', 'E1': '=IF(A1>3,D1,C1)'},
                  names={'inp': 'Sheet1!$A$1'}, inputs=['A1']),
    'range': dict(cells={'A1': 1, 'A2': 2, 'A3': 3, 'B1': '=SUM(A1:A3)', 'B2': '=MAX(A1:A3)-MIN(A1:A3)', 'C1': '=B1&"/"&B2'},
                  names={'inp': 'Sheet1!$A$2'}, inputs=['A1', 'A2', 'A3']),
    'typed': dict(cells={'A1': 1, 'B1': '=A1=1', 'C1': '=ISNUMBER(A1)', 'D1': '=A1&"|"', 'E1': '=IF(B1,"one",C1)'},
                  names={'inp': 'Sheet1!$A$1'}, inputs=['A1'], values=[True, 1.0, 0, False, 1, '1']),
    'longrange': dict(cells={'A1': 2, 'A120': '=A1*10', 'A150': '=B1+1', 'B1': 4, 'C1': '=SUM(A1:A150)', 'D1': '=COUNT(A1:A150)'},
                      names={'inp': 'Sheet1!$B$1'}, inputs=['A1', 'B1']),
    'sheets': dict(cells={'Sheet1!A1': 4, 'Data!A1': 10, 'Data!B1': '=A1*2', 'Sheet1!B1': '=Data!B1+A1', 'Sheet1!C1': '=B1+Data!A1'},
                   names={'inp': 'Data!$A$1'}, inputs=['Sheet1!A1', 'Data!A1']),
    # a formula whose own result is an array (=A1:A3) next to readers of the cells below it: evaluation must not write neighbours
    'arrayresult': dict(cells={'A1': 1, 'A2': 2, 'A3': 3, 'C1': '=A1:A3', 'D1': '=C2', 'D2': '=ISBLANK(C2)', 'D3': '=SUM(C3:C4)+A1'},
                        names={'inp': 'Sheet1!$A$1'}, inputs=['A1']),
    # a range of 150 rows of which only the first three are used when it is first evaluated; A140 gets its first value later
    'growing': dict(cells={'A1': 1, 'A2': 2, 'A3': 3, 'C1': '=SUM(A1:A150)', 'D1': '=COUNT(A1:A150)', 'E1': '=C1*10'},
                    names={'inp': 'Sheet1!$A$1'}, inputs=['A1'], late=['A140']),
    # error values on every route: computed in a cell of a range, an error literal in an unselected / selected branch, as a scalar argument,
    # through AND / NOT / MAX; the input switches them on (2) and off (5).  (Footprint: an error caught by a function keeps the frames it was
    # raised through alive unless its traceback is dropped - 10 KB per evaluation before the fix recorded in known_findings.json.)
    'errors': dict(cells={'A1': 2, 'A2': '=1/(A1-2)', 'A3': 3, 'B1': '=SUM(A1:A3)', 'B2': '=IF(A1>2,A1,#N/A)', 'C1': '=SUM(A1,B2)',
                          'C2': '=AND(A1:A3)', 'C3': '=NOT(B2)', 'D1': '=MAX(A1:A3)+0'},
                   names={'inp': 'Sheet1!$A$1'}, inputs=['A1'], values=[2, 5]),
    # a formula that FAILS with a Python exception for some inputs (an unknown function in the branch selected by A1 > 3): the caller catches the
    # failure, corrects the input and evaluates again
    'raising': dict(cells={'A1': 1, 'B1': '=IF(A1>3,NOSUCHFUNCTION(A1),A1*2)', 'C1': '=B1+1', 'D1': '=A1+C1'},
                    names={'inp': 'Sheet1!$A$1'}, inputs=['A1'], values=[1, 5]),
    # every kind of node directly over a reference: a sign, a doubled sign, a percent literal beside it, a comparison, a text join, a call
    'signed': dict(cells={'A1': 3, 'B1': '=-A1', 'B2': '=--A1', 'B3': '=2*-A1', 'B4': '=-A1*50%', 'C1': '=-inp', 'C2': '=A1=3', 'C3': '=A1&"x"',
                          'D1': '=ABS(-A1)', 'D2': '=-SUM(A1,1)', 'D3': '=-B1'},
                   names={'inp': 'Sheet1!$A$1'}, inputs=['A1'], values=[5, -2.5]),
    # Q9 holds nothing when the model is built: a cell that receives its first value later
    'late': dict(cells={'A1': 1, 'B1': '=A1+Q9', 'C1': '=B1*2', 'D1': '=IF(ISBLANK(Q9),"none",Q9)'},
                 names={'inp': 'Sheet1!$A$1'}, inputs=['A1'], late=['Q9']),
}
VALUES = [5, 7.5]


def full(a):
    return a if '!' in a else 'Sheet1!' + a


def ops_for(m):
    spec = MODELS[m]
    ops = []
    for inp in spec['inputs']:
        for v in spec.get('values', VALUES[:1 if len(spec['inputs']) > 2 else 2]):
            ops.append(('set', full(inp), v))
    for inp in spec.get('late', []):
        ops.append(('set', full(inp), 6))
    ops.append(('setname', 'inp', 9))
    for c in spec['cells']:
        for e in (0, 1):
            ops.append(('eval', full(c), e))
    ops.append(('get', full(list(spec['cells'])[-1]), 0))
    ops.append(('getname', 'inp', 0))
    return ops


def cases_histories(tier, seed):
    L = 3 if tier == 'quick' else 4
    for m in MODELS:
        ops = ops_for(m)
        for n in range(1, L + 1):
            for h in itertools.product(range(len(ops)), repeat=n):
                yield dict(model=m, history=list(h))
    rng = random.Random(seed * 13 + 1)
    for _ in range(1500 if tier == 'quick' else 20000):
        m = rng.choice(list(MODELS))
        ops = ops_for(m)
        yield dict(model=m, history=[rng.randrange(len(ops)) for _ in range(rng.randrange(4, 9))])


_fresh_cache = {}


def fresh_values(m, inputs):
    """value of every cell in a freshly compiled model holding the given inputs"""
    import xlcalculator
    from drivers.common import build_model, observe
    key = (m, tuple(sorted((k, repr(v)) for k, v in inputs.items())))
    if key not in _fresh_cache:
        spec = MODELS[m]
        cells = {full(k): v for k, v in spec['cells'].items()}
        cells.update(inputs)
        model = build_model(cells, spec['names'])
        ev = xlcalculator.Evaluator(model)
        out = {}
        for c in cells:
            try:
                out[c] = observe(ev.evaluate(c))
            except Exception as ex:      # noqa
                out[c] = ('raise', type(ex).__name__)
        _fresh_cache[key] = out
    return _fresh_cache[key]


def snapshot(model):
    return (sorted(model.cells), {a: c.formula.formula for a, c in model.cells.items() if c.formula is not None},
            {a: repr(c.value) for a, c in model.cells.items() if c.formula is None},
            sorted(model.defined_names))


def oracle_history(c):
    import xlcalculator
    from drivers.common import build_model, observe
    spec = MODELS[c['model']]
    ops = ops_for(c['model'])
    model = build_model({full(k): v for k, v in spec['cells'].items()}, spec['names'])
    evs = [xlcalculator.Evaluator(model), xlcalculator.Evaluator(model)]
    inputs = {full(k): spec['cells'][k] for k in spec['inputs']}
    name_target = spec['names']['inp'].replace('$', '')
    snap_formulas = snapshot(model)[1]
    cells_before = sorted(model.cells)          # (placeholder cells of ranges are created when the model is built)
    last = {}
    for step, oi in enumerate(c['history']):
        op = ops[oi]
        try:
            if op[0] == 'set':
                evs[0].set_cell_value(op[1], op[2])
                inputs[op[1]] = op[2]
                last[op[1]] = observe(op[2])
            elif op[0] == 'setname':
                evs[1].set_cell_value(op[1], op[2])
                inputs[name_target] = op[2]
                last[name_target] = ('num', op[2])
                got = model.cells[name_target].value
                if got != op[2]:
                    return False, f'step {step}: set through the name reaches {name_target}', f'cell holds {got!r}'
            elif op[0] == 'eval':
                exp = fresh_values(c['model'], inputs)[op[1]]
                try:
                    obs = observe(evs[op[2]].evaluate(op[1]))
                except Exception as ex:      # noqa
                    if exp[0] == 'raise':
                        continue                    # a fresh model fails on these inputs too; the caller catches it and carries on
                    return False, f'step {step}: evaluate({op[1]}) == fresh model {exp}', f'raise {type(ex).__name__}: {str(ex)[:150]}'
                if not _same(obs, exp):
                    return False, f'step {step}: evaluate({op[1]}) == fresh model {exp}', obs
                stored = observe(model.cells[op[1]].value)
                if not _same(stored, exp):
                    return False, f'step {step}: stored value of {op[1]} == {exp}', stored
                last[op[1]] = exp
            elif op[0] == 'getname':
                obs = observe(evs[0].get_cell_value(op[1]))
                exp = observe(inputs[name_target])
                if not _same(obs, exp):
                    return False, f'step {step}: get_cell_value({op[1]!r}) == the last value set for {name_target} ({exp})', obs
            elif op[0] == 'get':
                obs = observe(evs[0].get_cell_value(op[1]))
                if op[1] in last and not _same(obs, last[op[1]]):
                    return False, f'step {step}: get_cell_value({op[1]}) == last set/computed {last[op[1]]}', obs
        except Exception as ex:      # noqa
            return False, f'step {step}: {op} completes', f'raise {type(ex).__name__}: {str(ex)[:150]}'
    snap = snapshot(model)
    if snap[1] != snap_formulas:
        return False, 'formula texts unchanged', snap[1]
    exp_consts = {a for a in model.cells if model.cells[a].formula is None}
    for a in exp_consts:
        if a in inputs and (model.cells[a].value != inputs[a] or type(model.cells[a].value) is not type(inputs[a])):
            return False, f'constant {a} holds the last value set ({inputs[a]})', repr(model.cells[a].value)
    late = {full(k) for k in spec.get('late', [])}
    if sorted(set(model.cells) - late) != sorted(set(cells_before) - late):
        return False, 'set of cells unchanged', sorted(model.cells)
    if sorted(model.defined_names) != sorted(spec['names']):
        return False, 'defined names unchanged', sorted(model.defined_names)
    return True, 'history consistent with fresh models', 'ok'


def _same(o, e):
    if o == e:
        return True
    if o[0] == e[0] == 'num':
        return abs(o[1] - e[1]) < 1e-9
    return False


def nontrivial(c):
    ops = ops_for(c['model'])
    kinds = {ops[i][0] for i in c['history']}
    return 'eval' in kinds and len(c['history']) > 1


# ---- C05: evaluation orders, immutability, footprint -----------------------------------------------------------------
def cases_orders(tier, seed):
    for m in MODELS:
        cells = [full(c) for c in MODELS[m]['cells']]
        n = len(cells)
        for perm in itertools.islice(itertools.permutations(range(n)), 0, 720 if tier == 'quick' else 5040):
            yield dict(model=m, order=list(perm), evs=[i % 2 for i in range(n)])
        rng = random.Random(seed + 5)
        for _ in range(200 if tier == 'quick' else 3000):
            k = rng.randrange(n, 3 * n)
            yield dict(model=m, order=[rng.randrange(n) for _ in range(k)], evs=[rng.randrange(3) for _ in range(k)])


def oracle_orders(c):
    import xlcalculator
    from drivers.common import build_model, observe
    spec = MODELS[c['model']]
    cells = [full(k) for k in spec['cells']]
    model = build_model({full(k): v for k, v in spec['cells'].items()}, spec['names'])
    evs = [xlcalculator.Evaluator(model) for _ in range(3)]
    inputs = {full(k): spec['cells'][k] for k in spec['inputs']}
    ref = fresh_values(c['model'], inputs)
    before = snapshot(model)
    for i, e in zip(c['order'], c['evs']):
        try:
            obs = observe(evs[e].evaluate(cells[i]))
        except Exception as ex:      # noqa
            return False, ref[cells[i]], f'raise {type(ex).__name__}: {str(ex)[:150]}'
        if not _same(obs, ref[cells[i]]):
            return False, f'{cells[i]} == {ref[cells[i]]} whatever was evaluated before', obs
    after = snapshot(model)
    if (before[0], before[1], before[2], before[3]) != (after[0], after[1], after[2], after[3]):
        return False, 'constants, formula texts, names, cell set unchanged', 'changed'
    return True, 'order independent', 'ok'


def cases_footprint(tier, seed):
    for m in MODELS:
        yield dict(model=m, n=3000 if tier == 'quick' else 12000)


def oracle_footprint(c):
    import gc
    import tracemalloc
    import xlcalculator
    from drivers.common import build_model
    spec = MODELS[c['model']]
    model = build_model({full(k): v for k, v in spec['cells'].items()}, spec['names'])
    ev = xlcalculator.Evaluator(model)
    cells = [full(k) for k in spec['cells']]
    n = c['n']

    def burst(k):
        for i in range(k):
            ev.evaluate(cells[i % len(cells)])
    burst(n // 3)
    gc.collect()
    tracemalloc.start()
    burst(n // 3)
    gc.collect()
    a = tracemalloc.get_traced_memory()[0]
    burst(n // 3)
    gc.collect()
    b = tracemalloc.get_traced_memory()[0]
    tracemalloc.stop()
    per_call = (b - a) / (n // 3)
    return per_call < 40, 'no growth of the footprint with the number of evaluations (< 40 bytes/evaluation)', \
        f'{per_call:.1f} bytes per evaluation between the 2nd and 3rd third of {n} evaluations'


DRIVERS = [
    Driver('C04/B8.histories', cases_histories, oracle_history, nchunks=16, nontrivial=nontrivial, prop='C04',
           rule='4 acyclic models (diamond with a range, chain with IF, range aggregates, two sheets; each with a defined name on an input) x ALL histories up to length 3 (quick) / 4 (thorough) over {set input to 1-2 values, set through the name, evaluate any cell on one of two evaluators sharing the model, get_cell_value}, plus seeded histories of length 4..8; each evaluate compared with a freshly compiled model holding the current inputs',
           bound='history length 3 (quick) / 4 (thorough) exhaustive'),
    Driver('C05/B8.orders', cases_orders, oracle_orders, nchunks=8, prop='C05',
           rule='the same 4 models: 720 (quick) / all permutations of their cells as evaluation order alternating between evaluators, plus seeded orders with repetitions over three evaluators; every value == fresh model; snapshot of constants / formula texts / names / cell set unchanged',
           bound='permutations of <= 6 cells'),
    Driver('C05/B8.footprint', cases_footprint, oracle_footprint, nchunks=4, prop='C05',
           rule='3000 (quick) / 12000 (thorough) evaluations of the same cells; tracemalloc growth between the 2nd and 3rd third', bound='see rule'),
]


# ---- seeded random models and histories -----------------------------------------------------------------------------------------------------
def cases_random(tier, seed):
    rng = random.Random(seed * 17 + 4)
    n = 25 if tier == 'quick' else 4000
    for i in range(n):
        yield dict(mseed=seed * 100000 + i, hseed=rng.randrange(10 ** 9), steps=rng.randrange(3, 10))


def oracle_random(c):
    """random acyclic model (drivers/gen_models.py), random history of set (by address / through a name / first value of a hole)
    and evaluate (two evaluators): every evaluate equals a freshly built model holding the current inputs"""
    import xlcalculator
    from drivers.common import build_model, observe
    from drivers.gen_models import gen_model
    m = gen_model(c['mseed'])
    rng = random.Random(c['hseed'])
    cells = dict(m['cells'])
    model = build_model(dict(cells), m['names'] or None)
    evs = [xlcalculator.Evaluator(model), xlcalculator.Evaluator(model)]
    names = {n: t.replace('$', '').replace("'", '') for n, t in m['names'].items() if ':' not in t}
    formulas = [a for a, v in cells.items() if isinstance(v, str) and v.startswith('=')]
    consts = [a for a in cells if a not in formulas]
    cells_before = set(model.cells)

    def fresh(addr):
        mod = build_model(dict(cells), m['names'] or None)
        try:
            return observe(xlcalculator.Evaluator(mod).evaluate(addr))
        except Exception as ex:      # noqa
            return ('raise', type(ex).__name__)
    for step in range(c['steps']):
        r = rng.random()
        try:
            if r < 0.4 and consts:
                a = rng.choice(consts)
                v = rng.choice([5, 7.5, 0, -2, 'txt', True, 1e6])
                how = a
                rev = [n for n, t in names.items() if t == a and n in model.defined_names]
                if rev and rng.random() < 0.5:
                    how = rev[0]
                evs[rng.randrange(2)].set_cell_value(how, v)
                cells[a] = v
                got = model.cells[a].value
                if got != v or type(got) is not type(v):
                    return False, f'step {step}: after set_cell_value({how!r}, {v!r}) the cell {a} holds the value', repr(got)
            else:
                a = rng.choice(formulas + consts[:2])
                exp = fresh(a)
                try:
                    obs = observe(evs[rng.randrange(2)].evaluate(a))
                except Exception as ex:      # noqa
                    obs = ('raise', type(ex).__name__)
                if not _same(obs, exp):
                    return False, f'step {step}: evaluate({a}) == fresh model {exp}', obs
                if a in formulas and obs[0] != 'raise':
                    stored = observe(model.cells[a].value)
                    if not _same(stored, exp):
                        return False, f'step {step}: stored value of {a} == {exp}', stored
        except Exception as ex:      # noqa
            return False, f'step {step} completes', f'raise {type(ex).__name__}: {str(ex)[:150]}'
    if set(model.cells) != cells_before:
        return False, 'set of cells unchanged', sorted(set(model.cells) ^ cells_before)
    for a in formulas:
        if model.cells[a].formula.formula != cells[a]:
            return False, f'formula text of {a} unchanged', model.cells[a].formula.formula
    return True, 'history consistent with fresh models', 'ok'


DRIVERS.append(Driver('C04/B8.random-models', cases_random, oracle_random, nchunks=8,
                      rule='seeded random acyclic models (1-3 sheets incl. a quoted one, constants of every type with holes, formulas over cells / ranges / names) x random histories of 3-9 steps (set an input to a value of any type by address or through its name; evaluate a random cell on one of two evaluators): every evaluate and stored value equals a freshly built model with the current inputs; cells and formula texts unchanged',
                      bound='25 (quick) / 4000 (thorough) model-history pairs'))
