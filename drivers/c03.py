"""C03 bounded layer (B9/B10): references denote exactly the addressed cells on the right sheet.
Generated multi-sheet workbooks; every spelling of the same target; rectangles 1x1 .. used area, sparse (> 100 blanks
in between) and dense; defined names; chains crossing sheets repeatedly.  Reference = the generator's own cell table."""
import itertools
import random

from pyvc.bounded import Driver

SHEETS = ['Sheet1', 'Data', 'My Sheet', "It's", '2023', '1st Quarter']           # (titles starting with a digit need quotes as well)


def q(s):
    return s if (s.isalnum() and not s[0].isdigit()) else "'" + s.replace("'", "''") + "'"


def table():
    """a fixed 3-sheet table: value of (sheet, col, row) is distinct per cell"""
    cells = {}
    for si, sh in enumerate(SHEETS):
        for ci, col in enumerate('ABCD'):
            for row in range(1, 5):
                if (ci + row + si) % 5 == 0:
                    continue                                  # holes: empty cells
                cells[f'{sh}!{col}{row}'] = (si + 1) * 1000 + (ci + 1) * 10 + row
    return cells


def spellings(col, row):
    return [f'{col}{row}', f'${col}${row}', f'{col}${row}', f'${col}{row}']


def cases_cells(tier, seed):
    for home in SHEETS:
        for sh in SHEETS:
            for col, row in (('A', 1), ('B', 3), ('D', 4), ('C', 2), ('A', 4)):
                for sp in spellings(col, row):
                    yield dict(kind='cell', home=home, sheet=sh, ref=sp, qualified=True)
                    if sh == home:
                        yield dict(kind='cell', home=home, sheet=sh, ref=sp, qualified=False)
    for home in SHEETS:
        yield dict(kind='empty', home=home, ref='Z99')
        yield dict(kind='empty', home=home, ref='$Z$99')
        # an empty cell on a sheet that holds nothing at all (the model only knows sheets through their stored cells)
        yield dict(kind='empty', home=home, ref='Inputs!B2')
        yield dict(kind='empty', home=home, ref="'User Input'!$C$3")


def rects():
    cols = 'ABCD'
    for c0 in range(4):
        for c1 in range(c0, 4):
            for r0 in range(1, 5):
                for r1 in range(r0, 5):
                    yield cols[c0], r0, cols[c1], r1


def cases_ranges(tier, seed):
    for home in SHEETS[:3]:
        for sh in SHEETS[:3]:
            for (c0, r0, c1, r1) in rects():
                if (ord(c1) - ord(c0) + r1 - r0) % 2 and home != sh:
                    continue
                for style in ('plain', 'abs'):
                    yield dict(kind='range', home=home, sheet=sh, c0=c0, r0=r0, c1=c1, r1=r1, style=style,
                               qualified=(home != sh) or (r0 % 2 == 0))


def cases_sparse(tier, seed):
    for n in (5, 99, 100, 101, 102, 150, 250, 400):
        for orient in ('col', 'row'):
            for fill in ('ends', 'ends+mid', 'last-only', 'text-ends', 'zero-end', 'false-end', 'zeros'):
                yield dict(kind='sparse', n=n, orient=orient, fill=fill)
    for rows, cols in ((120, 2), (3, 130), (105, 3)):
        yield dict(kind='sparse2d', rows=rows, cols=cols)


def cases_names(tier, seed):
    for home in SHEETS[:3]:
        for sh in SHEETS[:3]:
            yield dict(kind='name-cell', home=home, sheet=sh, col='B', row=3)
            yield dict(kind='name-range', home=home, sheet=sh, c0='A', r0=1, c1='C', r1=3)
            yield dict(kind='name-direct', home=home, sheet=sh, col='C', row=2)


def cases_chains(tier, seed):
    rng = random.Random(seed + 3)
    for i in range(40 if tier == 'quick' else 400):
        hops = [rng.choice(SHEETS[:3]) for _ in range(rng.randrange(2, 7))]
        yield dict(kind='chain', hops=hops, qualified=[rng.random() < 0.5 for _ in hops])


def col_letter(i):
    from xlcalculator.tokenizer import num2col
    return num2col(i)


def oracle(c):
    import xlcalculator
    from drivers.common import build_model, observe
    from openpyxl.utils.cell import get_column_letter
    k = c['kind']
    T = table()
    cells = dict(T)
    names = None
    probes = []          # (address of probe cell, expected observation)
    if k == 'cell':
        ref = c['ref'] if not c['qualified'] else f'{q(c["sheet"])}!{c["ref"]}'
        addr = f'{c["sheet"]}!{c["ref"].replace("$", "")}'
        cells[f'{c["home"]}!H9'] = '=' + ref
        cells[f'{c["home"]}!H10'] = f'={ref}+1'
        v = T.get(addr)
        probes = [(f'{c["home"]}!H9', ('num', v) if v is not None else ('blank',)),
                  (f'{c["home"]}!H10', ('num', (v or 0) + 1))]
    elif k == 'empty':
        cells[f'{c["home"]}!H9'] = '=' + c['ref']
        cells[f'{c["home"]}!H10'] = f'={c["ref"]}+1'
        cells[f'{c["home"]}!H11'] = f'=ISBLANK({c["ref"]})'
        probes = [(f'{c["home"]}!H9', ('blank',)), (f'{c["home"]}!H10', ('num', 1)), (f'{c["home"]}!H11', ('bool', True))]
    elif k == 'range':
        a, b = (f'{c["c0"]}{c["r0"]}', f'{c["c1"]}{c["r1"]}') if c['style'] == 'plain' else (f'${c["c0"]}${c["r0"]}', f'${c["c1"]}${c["r1"]}')
        ref = f'{a}:{b}'
        if c['qualified'] or c['home'] != c['sheet']:
            ref = f'{q(c["sheet"])}!{ref}'
        vals = []
        for row in range(c['r0'], c['r1'] + 1):
            for ci in range(ord(c['c0']), ord(c['c1']) + 1):
                vals.append(T.get(f'{c["sheet"]}!{chr(ci)}{row}'))
        present = [v for v in vals if v is not None]
        home = c['home']
        cells[f'{home}!H9'] = f'=SUM({ref})'
        cells[f'{home}!H10'] = f'=COUNTA({ref})'
        cells[f'{home}!H11'] = f'=CONCAT({ref})'
        probes = [(f'{home}!H9', ('num', sum(present))), (f'{home}!H10', ('num', len(present))),
                  (f'{home}!H11', ('text', ''.join(str(v) for v in present)))]
    elif k == 'sparse':
        cells = {}
        n = c['n']
        addr = (lambda i: f'Sheet1!A{i}') if c['orient'] == 'col' else (lambda i: f'Sheet1!{get_column_letter(i)}1')
        fill = {'ends': {1: 3, n: 4}, 'ends+mid': {1: 3, n // 2 + 1: 5, n: 4}, 'last-only': {n: 7}, 'text-ends': {1: 'x', n: 'y'},
                'zero-end': {1: 3, n: 0}, 'false-end': {1: 3, n: False}, 'zeros': {n - 1: 0.0, n: 0}}[c['fill']]
        for i, v in fill.items():
            cells[addr(i)] = v
        rng_ref = f'{addr(1).split("!")[1]}:{addr(n).split("!")[1]}'
        cells['Sheet1!B300'] = f'=SUM({rng_ref})'
        nums = [v for v in fill.values() if not isinstance(v, (str, bool))]
        probes = [('Sheet1!B300', ('num', sum(nums)))]
        cells['Sheet1!B303'] = f'=MIN({rng_ref})'
        if nums:
            probes.append(('Sheet1!B303', ('num', min(nums))))
        if n <= 250:        # (COUNTA / CONCAT limit the number of values they take: C14's business)
            cells['Sheet1!B301'] = f'=COUNTA({rng_ref})'
            cells['Sheet1!B302'] = f'=CONCAT({rng_ref})'
            probes += [('Sheet1!B301', ('num', len(fill))), ('Sheet1!B302', ('text', ''.join(str(fill[i]) for i in sorted(fill))))]
        else:
            cells['Sheet1!B301'] = f'=MAX({rng_ref})'
            probes += [('Sheet1!B301', ('num', max(nums)))] if nums else []
    elif k == 'sparse2d':
        cells = {}
        R, C = c['rows'], c['cols']
        cells['Sheet1!A1'] = 1
        cells[f'Sheet1!{get_column_letter(C)}{R}'] = 2
        cells[f'Sheet1!A{R}'] = 4
        ref = f'A1:{get_column_letter(C)}{R}'
        cells['Sheet1!ZZ1'] = f'=SUM({ref})'
        cells['Sheet1!ZZ2'] = f'=MAX({ref})'
        total, mx = (7, 4) if C > 1 else (5, 4)
        probes = [('Sheet1!ZZ1', ('num', total)), ('Sheet1!ZZ2', ('num', mx))]
    if k.startswith('name'):
        # (named ranges over never-stored cells cannot be linked by ModelCompiler - C11's business; dense table here)
        for sh in SHEETS:
            for col in 'ABCD':
                for row in range(1, 5):
                    cells.setdefault(f'{sh}!{col}{row}', 7)
        T = {k_: v for k_, v in cells.items()}
    if k in ('name-cell', 'name-direct'):
        target = f'{c["sheet"]}!{c["col"]}{c["row"]}'
        names = {'my_name': f'{q(c["sheet"])}!${c["col"]}${c["row"]}'}
        cells[f'{c["home"]}!H9'] = '=my_name+1'
        v = T.get(target, 0)
        probes = [(f'{c["home"]}!H9', ('num', v + 1))] if k == 'name-cell' else [('my_name', ('num', v))]
    elif k == 'name-range':
        names = {'my_range': f'{q(c["sheet"])}!${c["c0"]}${c["r0"]}:${c["c1"]}${c["r1"]}'}
        vals = [T.get(f'{c["sheet"]}!{chr(ci)}{row}') for row in range(c['r0'], c['r1'] + 1)
                for ci in range(ord(c['c0']), ord(c['c1']) + 1)]
        present = [v for v in vals if v is not None]
        cells[f'{c["home"]}!H9'] = '=SUM(my_range)'
        cells[f'{c["home"]}!H10'] = '=COUNTA(my_range)'
        probes = [(f'{c["home"]}!H9', ('num', sum(present))), (f'{c["home"]}!H10', ('num', len(present)))]
    elif k == 'chain':
        # hop i lives on sheet hops[i] in cell F{i+1}; it adds its own sheet's A1 (unqualified!) to the next hop
        cells = {f'{s}!A1': (i + 1) * 100 for i, s in enumerate(SHEETS[:3])}
        hops = c['hops']
        total = 0
        for i, s in enumerate(hops):
            own = cells[f'{s}!A1']
            nxt = f'{q(hops[i + 1])}!F{i + 2}' if i + 1 < len(hops) else '0'
            a1 = f'{q(s)}!A1' if c['qualified'][i] else 'A1'
            cells[f'{s}!F{i + 1}'] = f'={a1}+{nxt}'
            total += own
        probes = [(f'{hops[0]}!F1', ('num', total))]
    try:
        model = build_model(cells, names)
        ev = xlcalculator.Evaluator(model)
        obs = []
        for addr, exp in probes:
            try:
                obs.append(observe(ev.evaluate(addr)))
            except Exception as ex:      # noqa
                obs.append(('raise', f'{type(ex).__name__}: {str(ex)[:120]}'))
    except Exception as ex:      # noqa
        return False, [e for _, e in probes], f'model: raise {type(ex).__name__}: {str(ex)[:160]}'
    exp = [e for _, e in probes]
    ok = all(_same(o, e) for o, e in zip(obs, exp))
    return ok, exp, obs


def _same(o, e):
    if o == e:
        return True
    if o[0] == e[0] == 'num':
        return abs(o[1] - e[1]) < 1e-9
    if e == ('text', '') and o == ('blank',):
        return True
    return False


def oracle_colnum(c):
    from xlcalculator.tokenizer import col2num, num2col
    from openpyxl.utils.cell import get_column_letter
    bad = []
    for n in range(c['lo'], c['hi']):
        s = num2col(n)
        if s != get_column_letter(n) or col2num(s) != n or col2num('$' + s) != n:
            bad.append(n)
    return not bad, 'col2num(num2col(n)) == n and num2col(n) == openpyxl letter', bad[:5]


def _letters(n):
    """bijective base 26, written out independently of the library and of openpyxl"""
    out = ''
    while n > 0:
        n, r = divmod(n - 1, 26)
        out = chr(65 + r) + out
    return out


def cases_order(tier, seed):
    step = 1500
    for lo in range(1, 18279, step):
        yield dict(lo=lo, hi=min(lo + step, 18279))


def oracle_order(c):
    """resolve_ranges lists a rectangle row by row, left to right - for EVERY starting column and every width 1..4"""
    import importlib
    utils = importlib.import_module('xlcalculator.utils')        # (the package rebinds `utils` to xlfunctions.utils)
    bad = []
    for n in range(c['lo'], c['hi']):
        for w in (1, 2, 3, 4):
            if n + w - 1 > 18278:
                continue
            r0 = 1 + (n % 7)
            text = f'{_letters(n)}{r0}:{_letters(n + w - 1)}{r0 + 1}'
            sheet, cells = utils.resolve_ranges(('Data!' if n % 2 else '') + text, default_sheet='Home')
            sh = 'Data' if n % 2 else 'Home'
            exp = [[f'{sh}!{_letters(k)}{r}' for k in range(n, n + w)] for r in (r0, r0 + 1)]
            if sheet != sh or cells != exp:
                bad.append((text, cells[:1]))
    return not bad, 'rows x columns cells in row-major order', bad[:3]


def cases_wide(tier, seed):
    for start in (23, 24, 25, 26, 27, 700, 701, 702, 703):
        for w in (2, 3, 6):
            for style in ('plain', 'abs'):
                yield dict(start=start, w=w, style=style)


def oracle_wide(c):
    """end to end: a two-row range crossing the Z/AA (ZZ/AAA) column boundary read by order-sensitive functions"""
    import xlcalculator
    from drivers.common import build_model, observe
    cols = [_letters(k) for k in range(c['start'], c['start'] + c['w'])]
    cells, expect = {}, ''
    for r in (1, 2):
        for j, col in enumerate(cols):
            v = f'{col.lower()}{r}.'
            cells[f'Data!{col}{r}'] = v
            expect += v
    d = '$' if c['style'] == 'abs' else ''
    ref = f'Data!{d}{cols[0]}{d}1:{d}{cols[-1]}{d}2'
    cells['Sheet1!A1'] = f'=CONCAT({ref})'
    cells['Sheet1!A2'] = f'=VLOOKUP("{cols[0].lower()}2.",{ref},{c["w"]},FALSE)'
    exp = [('text', expect), ('text', f'{cols[-1].lower()}2.')]
    try:
        ev = xlcalculator.Evaluator(build_model(cells))
        obs = []
        for a in ('Sheet1!A1', 'Sheet1!A2'):
            try:
                obs.append(observe(ev.evaluate(a)))
            except Exception as ex:      # noqa
                obs.append(('raise', f'{type(ex).__name__}: {str(ex)[:100]}'))
    except Exception as ex:      # noqa
        return False, exp, f'model: raise {type(ex).__name__}: {str(ex)[:160]}'
    return obs == exp, exp, obs


def cases_colnum(tier, seed):
    step = 2000
    for lo in range(1, 18279, step):
        yield dict(lo=lo, hi=min(lo + step, 18279))


DRIVERS = [
    Driver('C03/B10.cells', cases_cells, oracle, nchunks=4, exhaustive=True,
           rule='4 sheets (plain, quoted with blank, quoted with apostrophe) x 5 targets x 4 $-spellings x qualified/unqualified, from a formula on every sheet; empty cells', bound='complete for the listed table'),
    Driver('C03/B10.ranges', cases_ranges, oracle, nchunks=8, exhaustive=True,
           rule='every rectangle inside a 4x4 area with holes x plain/$ x home sheet x target sheet: SUM, COUNTA and CONCAT (row-major, each cell once) against the generator table', bound='4x4 area'),
    Driver('C03/B10.sparse', cases_sparse, oracle, nchunks=6,
           rule='columns and rows of 5..400 cells holding values only at the ends / middle (up to 398 blanks in between); 2-D blocks with > 100 empty rows or columns', bound='<= 400 cells'),
    Driver('C03/B10.names', cases_names, oracle, nchunks=2, exhaustive=True,
           rule='defined names bound to a cell / a range on each sheet, used from a formula on each sheet and evaluated directly', bound='3x3 sheets'),
    Driver('C03/B10.chains', cases_chains, oracle, nchunks=2,
           rule='seeded chains of 2..6 hops over three sheets, every hop adding its own sheet\'s A1 by an unqualified or qualified reference', bound='40 (quick) / 400 (thorough) chains'),
    Driver('C03/F8.range_order', cases_order, oracle_order, nchunks=8, exhaustive=True,
           rule='utils.resolve_ranges on a 2-row rectangle starting at EVERY column 1..18278, widths 1..4, qualified and unqualified: exactly its rows x columns addresses in row-major order on the right sheet (letters from an independent base-26 routine)',
           bound='all starting columns, widths <= 4 (complete for those)'),
    Driver('C03/B10.wide', cases_wide, oracle_wide, nchunks=4, exhaustive=True,
           rule='two-row ranges crossing the Z/AA and ZZ/AAA column boundaries, plain and $: CONCAT (row-major) and VLOOKUP (key in the first column, value from the last)', bound='9 starts x 3 widths'),
    Driver('C03/F8.columns', cases_colnum, oracle_colnum, nchunks=4, exhaustive=True,
           rule='col2num(num2col(n)) == n for all 18278 columns, $ ignored, letters equal openpyxl', bound='all columns (complete)'),
]


# ---- the same references in a workbook LOADED FROM A FILE (identically laid-out sheets) -----------------------------------------------------------
def cases_file(tier, seed):
    for titles in (['Jan', 'Feb 2024', "Bob's"], ['S1', 'S2'], ['Data']):
        for style in ('plain', 'abs'):
            yield dict(kind='file', titles=titles, style=style)
    for titles in (['Budget', 'Budget (2)', 'Summary'], ['S1', 'S2']):
        for twins in (False, True):
            yield dict(kind='file-names', titles=titles, twins=twins)


def oracle_file_names(c):
    """workbook-level names for a cell and a range, and - as after copying a sheet in Excel - names of the same spelling defined for ONE
    sheet only and bound to that sheet's cells: formulas on the other sheets mean the workbook-level binding"""
    import os
    import tempfile
    import xlcalculator
    from drivers.common import observe
    from drivers import c11
    titles = c['titles']
    sheets, expected = [], {}
    for k, t in enumerate(titles):
        base = 10 * (k + 1)
        vals = {'A1': base + 1, 'A2': base + 2, 'A3': base + 3, 'B1': base + 4}
        cells = [dict(r=a, kind='n', v=v) for a, v in vals.items()]
        if k != 1:                                       # (sheet 1 is the copy that carries the sheet-level twins)
            cells += [dict(r='D1', kind='f', f='rate*100', cached=None), dict(r='D2', kind='f', f='SUM(costs)+rate', cached=None)]
            expected[f'{t}!D1'] = (10 + 4) * 100
            expected[f'{t}!D2'] = 11 + 12 + 13 + 14
        sheets.append((t, cells))
    names = {'rate': f'{c11.q(titles[0])}!$B$1', 'costs': f'{c11.q(titles[0])}!$A$1:$A$3'}
    if c['twins']:
        names['rate@1'] = f'{c11.q(titles[1])}!$B$1'
        names['costs@1'] = f'{c11.q(titles[1])}!$A$1:$A$3'
    tmp = tempfile.mkdtemp(dir=os.path.join(c11.ROOT, 'scratch'))
    fn = os.path.join(tmp, 'book.xlsx')
    try:
        c11.write_xlsx(fn, sheets, names)
        model = xlcalculator.ModelCompiler().read_and_parse_archive(fn)
    except Exception as ex:      # noqa
        return False, 'the workbook loads', f'raise {type(ex).__name__}: {str(ex)[:160]}'
    finally:
        try:
            os.remove(fn)
            os.rmdir(tmp)
        except OSError:
            pass
    ev = xlcalculator.Evaluator(model)
    obs = {}
    for a in expected:
        try:
            obs[a] = observe(ev.evaluate(a))
        except Exception as ex:      # noqa
            obs[a] = ('raise', type(ex).__name__)
    bad = {a: (obs[a], expected[a]) for a in expected if obs[a] != ('num', expected[a])}
    if bad:
        return False, 'a workbook-level name means the cell / range it is bound to, on every sheet', str(bad)[:300]
    ev.set_cell_value(f'{titles[0]}!B1', 2)              # the bound cell, overwritten: the formulas follow it
    a = f'{titles[0]}!D1'
    try:
        o = observe(ev.evaluate(a))
    except Exception as ex:      # noqa
        o = ('raise', type(ex).__name__)
    return o == ('num', 200.0), f'{a} == 200 after the cell the name is bound to was set to 2', o


def oracle_file(c):
    """every sheet holds the SAME formula texts over unqualified ranges / cells; each must read its OWN sheet"""
    if c['kind'] == 'file-names':
        return oracle_file_names(c)
    import os
    import tempfile
    import xlcalculator
    from drivers.common import observe
    from drivers import c11
    d = '$' if c['style'] == 'abs' else ''
    sheets, expected = [], {}
    for k, t in enumerate(c['titles']):
        base = 10 * (k + 1)
        vals = {'A1': base + 1, 'A2': base + 2, 'A3': base + 3, 'B1': base + 4, 'B2': base + 5, 'B3': base + 6}
        cells = [dict(r=a, kind='n', v=v) for a, v in vals.items()]
        f1, f2, f3 = f'SUM({d}A{d}1:{d}B{d}3)', f'{d}A{d}1+B2', f'MAX(A1:A3)-MIN({d}B{d}1:{d}B{d}3)'
        cells += [dict(r='D1', kind='f', f=f1, cached=None), dict(r='D2', kind='f', f=f2, cached=None), dict(r='D3', kind='f', f=f3, cached=None)]
        sheets.append((t, cells))
        expected[f'{t}!D1'] = sum(vals.values())
        expected[f'{t}!D2'] = vals['A1'] + vals['B2']
        expected[f'{t}!D3'] = vals['A3'] - vals['B1']
    tmp = tempfile.mkdtemp(dir=os.path.join(c11.ROOT, 'scratch'))
    fn = os.path.join(tmp, 'book.xlsx')
    try:
        c11.write_xlsx(fn, sheets, {})
        model = xlcalculator.ModelCompiler().read_and_parse_archive(fn)
    except Exception as ex:      # noqa
        return False, 'the workbook loads', f'raise {type(ex).__name__}: {str(ex)[:160]}'
    finally:
        try:
            os.remove(fn)
            os.rmdir(tmp)
        except OSError:
            pass
    ev = xlcalculator.Evaluator(model)
    obs = {}
    for a in expected:
        try:
            obs[a] = observe(ev.evaluate(a))
        except Exception as ex:      # noqa
            obs[a] = ('raise', type(ex).__name__)
    bad = {a: (obs[a], expected[a]) for a in expected if obs[a] != ('num', expected[a])}
    return not bad, 'every sheet\'s formulas read that sheet\'s own cells', str(bad)[:300]


DRIVERS.append(Driver('C03/B10.file', cases_file, oracle_file, nchunks=3, exhaustive=True,
                      rule='workbooks written as raw SpreadsheetML with 1-3 identically laid-out sheets (titles needing quotes included) whose formulas have the SAME texts over unqualified cells and ranges, plain and $: loaded through the reader, every formula must read its own sheet; workbooks with workbook-level names for a cell and a range, with and without sheet-level names of the same spelling on a copied sheet: formulas on the other sheets read the workbook-level binding, also after the bound cell is overwritten',
                      bound='3 workbooks x 2 spellings + 2 workbooks x 2 name tables'))
