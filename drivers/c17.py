"""C17 bounded layer at formula level: the text functions and & through compiled models, incl. quotes / non-ASCII."""
import itertools

from pyvc.bounded import Driver

TEXTS = ['', 'a', 'abcabc', 'aXbXa', 'Hello World', '  two  blanks ', 'say "hi"', "it's", 'naïve café', '日本語テキスト', 'aaa',
         'Straße µg ﬁn ς']            # letters whose lower case is not their case-folded form (ß, micro sign, ligature, final sigma)


def q(s):
    return '"' + s.replace('"', '""') + '"'


def cases_formula(tier, seed):
    for s in TEXTS:
        L = len(s)
        for n in range(-2, L + 3):
            yield dict(f='LEFT', s=s, n=n)
            yield dict(f='RIGHT', s=s, n=n)
            for p in range(-1, L + 3):
                yield dict(f='MID', s=s, p=p, n=n)
        yield dict(f='LEN', s=s)
        yield dict(f='UPPER', s=s)
        yield dict(f='LOWER', s=s)
        yield dict(f='TRIM', s=s)
        for t in ('a', 'X', 'ab', '', 'Z', 'é', '"'):
            for p in range(-1, L + 3):
                yield dict(f='FIND', s=s, t=t, p=p)
        for p in range(0, L + 3):
            for k in (0, 1, 2, L + 1):
                yield dict(f='REPLACE', s=s, p=p, k=k, t='<>')
    for a, b in itertools.product(TEXTS[:7], repeat=2):
        yield dict(f='&', a=a, b=b)
        yield dict(f='EXACT', a=a, b=b)
        yield dict(f='CONCAT', a=a, b=b)
        yield dict(f='CONCATENATE', a=a, b=b)


def expected(c):
    f = c['f']
    s = c.get('s')
    ERR = ('err',)
    if f == 'LEFT':
        return ERR if c['n'] < 0 else ('text', s[:c['n']])
    if f == 'RIGHT':
        return ERR if c['n'] < 0 else ('text', s[len(s) - min(c['n'], len(s)):])
    if f == 'MID':
        return ERR if c['p'] < 1 or c['n'] < 0 else ('text', s[c['p'] - 1:c['p'] - 1 + c['n']])
    if f == 'LEN':
        return ('num', len(s))
    if f == 'UPPER':
        return ('text', s.upper())
    if f == 'LOWER':
        return ('text', s.lower())
    if f == 'TRIM':
        return ('trim', s)
    if f == 'FIND':
        if c['p'] < 1:
            return ERR
        if c['p'] - 1 > len(s):
            return ERR
        i = s.find(c['t'], c['p'] - 1)
        return ERR if i < 0 else ('num', i + 1)
    if f == 'REPLACE':
        if c['p'] < 1 or c['k'] < 0:
            return ERR
        return ('text', s[:c['p'] - 1] + c['t'] + s[c['p'] - 1 + c['k']:])
    if f in ('&', 'CONCAT', 'CONCATENATE'):
        return ('text', c['a'] + c['b'])
    if f == 'EXACT':
        return ('bool', c['a'] == c['b'])


def formula(c):
    f = c['f']
    if f in ('LEFT', 'RIGHT'):
        return f'={f}(A1,{c["n"]})', {'A1': c['s']}
    if f == 'MID':
        return f'=MID(A1,{c["p"]},{c["n"]})', {'A1': c['s']}
    if f in ('LEN', 'UPPER', 'LOWER', 'TRIM'):
        return f'={f}(A1)', {'A1': c['s']}
    if f == 'FIND':
        return f'=FIND({q(c["t"])},A1,{c["p"]})', {'A1': c['s']}
    if f == 'REPLACE':
        return f'=REPLACE(A1,{c["p"]},{c["k"]},{q(c["t"])})', {'A1': c['s']}
    if f == '&':
        return f'={q(c["a"])}&A2', {'A2': c['b']}
    return f'={f}({q(c["a"])},A2)', {'A2': c['b']}


def oracle(c):
    from drivers.common import eval_formula
    fm, cells = formula(c)
    exp = expected(c)
    obs = eval_formula(fm, cells)
    if obs[0] == 'err':
        obs = ('err',)
    if obs == ('blank',):
        obs = ('text', '')
    if exp[0] == 'trim':
        s = exp[1]
        ok = obs[0] == 'text' and not obs[1].startswith(' ') and not obs[1].endswith(' ') and obs[1].replace(' ', '') == s.replace(' ', '')
        return ok, exp, obs
    return obs == exp, exp, obs


DRIVERS = [Driver('C17/B6.formulas', cases_formula, oracle, nchunks=12,
                  rule='12 texts (blanks, quotes, repeated substrings, non-ASCII incl. letters that case-folding rewrites) x positions/counts from -2 to len+2 through formulas in a compiled model; reference = Python slicing written independently',
                  bound='texts up to 14 characters')]
