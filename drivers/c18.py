"""C18 bounded layer (B6): date serials and date functions against datetime.date arithmetic written independently.
Thorough tier: EVERY whole serial 1..2958465 (exhaustive). Quick: all boundaries +-400 days, every year's turn and
leap day, 20000 seeded serials."""
import datetime
import random

from pyvc.bounded import Driver

MAX_SERIAL = 2958465
BASE = datetime.date(1899, 12, 30)


def ref_date(serial):
    """the Gregorian date of a whole serial in the 1900 system (serial 60 is the fictitious 1900-02-29)"""
    if serial >= 61:
        return BASE + datetime.timedelta(days=serial)
    if 1 <= serial <= 59:
        return BASE + datetime.timedelta(days=serial + 1)
    raise ValueError(serial)


def ref_serial(d):
    n = (d - BASE).days
    return n if n >= 61 else n - 1


WD = {1: (1, 6), 2: (1, 0), 3: (0, 0), 11: (1, 0), 12: (1, 1), 13: (1, 2), 14: (1, 3), 15: (1, 4), 16: (1, 5), 17: (1, 6)}
# return_type -> (base, python weekday() of the first day of the week)


def ref_weekday(d, rt):
    base, first = WD[rt]
    return (d.weekday() - first) % 7 + base


def blocks(tier, seed):
    if tier == 'thorough':
        step = 4000
        for lo in range(1, MAX_SERIAL + 1, step):
            yield list(range(lo, min(lo + step, MAX_SERIAL + 1)))
        return
    pts = set()
    for b in (1, 59, 60, 61, 366, 367, 36526, 73050, 2958465, 43831, 44196, 401769):
        pts.update(range(max(1, b - 400), min(MAX_SERIAL, b + 400) + 1))
    for y in range(1900, 10000, 1):
        for d in (datetime.date(y, 1, 1), datetime.date(y, 12, 31), datetime.date(y, 2, 28), datetime.date(y, 3, 1)):
            s = ref_serial(d)
            if 1 <= s <= MAX_SERIAL:
                pts.add(s)
    rng = random.Random(seed + 18)
    pts.update(rng.randrange(1, MAX_SERIAL + 1) for _ in range(20000))
    pts = sorted(pts)
    for i in range(0, len(pts), 3000):
        yield pts[i:i + 3000]


def cases_fields(tier, seed):
    for b in blocks(tier, seed):
        yield dict(kind='fields', serials=[b[0], b[-1]] if tier == 'thorough' else b, contiguous=(tier == 'thorough'))


def _val(x):
    from xlcalculator.xlfunctions import func_xltypes as T, xlerrors as E
    if isinstance(x, E.ExcelError):
        return ('err', str(x.value))
    if isinstance(x, T.Number):
        return x.value
    if isinstance(x, T.DateTime):
        return x.value
    return x


def oracle_fields(c):
    from xlcalculator.xlfunctions import date as D, utils as U
    serials = range(c['serials'][0], c['serials'][1] + 1) if c['contiguous'] else c['serials']
    prev = None
    for s in serials:
        if s == 60:
            continue
        d = ref_date(s)
        # conversion both ways on whole days
        got = U.number_to_datetime(s)
        if (got.year, got.month, got.day, got.hour, got.minute, got.second) != (d.year, d.month, d.day, 0, 0, 0):
            return False, f'serial {s} is {d}', f'number_to_datetime({s}) = {got}'
        back = U.datetime_to_number(datetime.datetime(d.year, d.month, d.day))
        if back != s:
            return False, f'{d} is serial {s}', f'datetime_to_number = {back}'
        if s >= 61:
            exp = (d.year, d.month, d.day, d.isocalendar()[1])
            obs = (_val(D.YEAR(s)), _val(D.MONTH(s)), _val(D.DAY(s)), _val(D.ISOWEEKNUM(s)))
            if obs != exp:
                return False, f'YEAR/MONTH/DAY/ISOWEEKNUM({s}) = {exp}', obs
            for rt in WD:
                w = _val(D.WEEKDAY(s, rt))
                if w != ref_weekday(d, rt):
                    return False, f'WEEKDAY({s},{rt}) = {ref_weekday(d, rt)}', w
            if _val(D.WEEKDAY(s)) != ref_weekday(d, 1):
                return False, f'WEEKDAY({s}) = {ref_weekday(d, 1)}', _val(D.WEEKDAY(s))
            r = _val(D.DATE(d.year, d.month, d.day))
            rs = U.datetime_to_number(r) if isinstance(r, datetime.datetime) else r
            if rs != s:
                return False, f'DATE(YEAR,MONTH,DAY of {s}) = {s}', rs
    return True, 'fields, conversion and DATE round trip agree with the Gregorian calendar', f'{len(serials)} serials'


def cases_misc(tier, seed):
    rng = random.Random(seed + 181)
    yield dict(kind='anchors')
    for _ in range(300 if tier == 'quick' else 5000):
        y, m, d = rng.randrange(1900, 9999), rng.randrange(-30, 40), rng.randrange(-400, 500)
        yield dict(kind='date-carry', y=y, m=m, d=d)
    dates = [datetime.date(1900, 3, 1), datetime.date(1999, 12, 31), datetime.date(2000, 2, 29), datetime.date(2024, 1, 31),
             datetime.date(2023, 8, 31), datetime.date(2100, 2, 28), datetime.date(9999, 1, 1)]
    dates += [ref_date(rng.randrange(61, 120000)) for _ in range(60 if tier == 'quick' else 300)]
    dates.sort()
    for d in dates:
        for k in (-25, -12, -1, 0, 1, 2, 11, 12, 13, 37):
            yield dict(kind='edate', d=d.isoformat(), k=k)
    for i, a in enumerate(dates):
        for b in dates[i:i + 12]:
            yield dict(kind='pair', a=a.isoformat(), b=b.isoformat())
    for s in (61, 1000.25, 43831.5, 43831.75, 100.999):
        yield dict(kind='fraction', s=s)


def _add_months(d, k):
    y, m = divmod(d.year * 12 + d.month - 1 + k, 12)
    m += 1
    import calendar
    return datetime.date(y, m, min(d.day, calendar.monthrange(y, m)[1]))


def oracle_misc(c):
    import calendar
    from xlcalculator.xlfunctions import date as D, utils as U, func_xltypes as T
    k = c['kind']
    if k == 'anchors':
        obs = [U.number_to_datetime(s).date().isoformat() for s in (1, 59, 61)]
        return obs == ['1900-01-01', '1900-02-28', '1900-03-01'], ['1900-01-01', '1900-02-28', '1900-03-01'], obs
    if k == 'date-carry':
        y, m, d = c['y'], c['m'], c['d']
        yy, mm = divmod(y * 12 + m - 1, 12)
        try:
            ref = datetime.date(yy, mm + 1, 1) + datetime.timedelta(days=d - 1)
            exp = ref_serial(ref)
        except (ValueError, OverflowError):
            return True, 'out of the calendar', 'skipped'
        if not (61 <= exp <= MAX_SERIAL):
            return True, 'outside 61..2958465', 'skipped'
        r = _val(D.DATE(y, m, d))
        rs = U.datetime_to_number(r) if isinstance(r, datetime.datetime) else r
        return rs == exp, f'DATE({y},{m},{d}) = {exp} ({ref})', rs
    if k == 'edate':
        d = datetime.date.fromisoformat(c['d'])
        s = ref_serial(d)
        try:
            e = _add_months(d, c['k'])
            eo = datetime.date(e.year, e.month, calendar.monthrange(e.year, e.month)[1])
        except ValueError:
            return True, 'out of the calendar', 'skipped'
        if ref_serial(e) < 61 or e.year > 9998:
            return True, 'outside the range', 'skipped'
        r1 = _val(D.EDATE(s, c['k']))
        r1 = U.datetime_to_number(r1) if isinstance(r1, datetime.datetime) else r1
        r2 = _val(D.EOMONTH(s, c['k']))
        exp = (ref_serial(e), ref_serial(eo))
        return (r1, r2) == exp, f'EDATE/EOMONTH({d},{c["k"]}) = {exp}', (r1, r2)
    if k == 'pair':
        a, b = datetime.date.fromisoformat(c['a']), datetime.date.fromisoformat(c['b'])
        sa, sb = ref_serial(a), ref_serial(b)
        days = (b - a).days
        months = (b.year - a.year) * 12 + b.month - a.month - (1 if b.day < a.day else 0)
        years = months // 12
        def safe(fn, *args):
            try:
                return _val(fn(*args))
            except Exception as ex:      # noqa
                return f'raise {type(ex).__name__}: {str(ex)[:80]}'
        obs = dict(DAYS=safe(D.DAYS, sb, sa), D=safe(D.DATEDIF, sa, sb, 'D'), M=safe(D.DATEDIF, sa, sb, 'M'), Y=safe(D.DATEDIF, sa, sb, 'Y'),
                   F2=safe(D.YEARFRAC, sa, sb, 2), F3=safe(D.YEARFRAC, sa, sb, 3))
        exp = dict(DAYS=days, D=days, M=months, Y=years, F2=days / 360, F3=days / 365)
        feb_end = any(d.month == 2 and (d + datetime.timedelta(days=1)).month == 3 for d in (a, b))
        if a.day < 29 and b.day < 29 and not feb_end:       # (the 30/360 conventions differ at the end of February too)
            d360 = (b.year - a.year) * 360 + (b.month - a.month) * 30 + (b.day - a.day)
            exp['F0'] = d360 / 360
            exp['F4'] = d360 / 360
            obs['F0'] = safe(D.YEARFRAC, sa, sb, 0)
            obs['F4'] = safe(D.YEARFRAC, sa, sb, 4)
        elif a == b:
            exp['F0'] = 0.0
            obs['F0'] = safe(D.YEARFRAC, sa, sb, 0)
        bad = {k_: (exp[k_], obs[k_]) for k_ in exp if not (obs[k_] == exp[k_] or (isinstance(obs[k_], (int, float)) and abs(obs[k_] - exp[k_]) < 1e-9))}
        return not bad, f'{a} .. {b}: {exp}', bad
    if k == 'fraction':
        s = c['s']
        dt = U.number_to_datetime(s)
        secs = dt.hour * 3600 + dt.minute * 60 + dt.second + dt.microsecond / 1e6
        ok1 = abs(secs - (s % 1) * 86400) < 1e-3 and dt.date() == ref_date(int(s))
        back = U.datetime_to_number(dt)
        return ok1 and abs(back - s) < 1e-6, f'serial {s}: fraction is the time of day, both ways', (dt.isoformat(), back)
    raise AssertionError(k)


DRIVERS = [
    Driver('C18/B6.fields', cases_fields, oracle_fields, nchunks=16,
           rule='whole serials: conversion both ways, YEAR, MONTH, DAY, ISOWEEKNUM, WEEKDAY (10 return types + default), DATE(YEAR,MONTH,DAY) round trip. quick: all boundaries +-400 days, 4 dates of every year 1900..9999, 20000 seeded serials; thorough: EVERY serial 1..2958465',
           bound='quick: ~50000 serials; thorough: exhaustive'),
    Driver('C18/B6.misc', cases_misc, oracle_misc, nchunks=8,
           rule='anchors 1/59/61; DATE with months -30..40 and days -400..500; EDATE/EOMONTH over 10 offsets; DAYS, DATEDIF D/M/Y, YEARFRAC bases 2, 3 (and 0, 4 where no day of month is 29-31) over pairs of dates; fractional serials',
           bound='see rule'),
]
