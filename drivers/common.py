"""Helpers shared by the bounded drivers: building models from cell tables, normalising results."""
import datetime


def build_model(cells, names=None, build_code=True):
    """cells: {'Sheet!A1' or 'A1': constant | '=formula'}.  Built the way the reader builds a model (each formula
    knows its own sheet), without going through read_and_parse_dict's first-character sniffing (which cannot take
    an empty text constant)."""
    from xlcalculator import model as M, xltypes
    mc = M.ModelCompiler()
    model = mc.model
    for addr, v in cells.items():
        if '!' not in addr:
            addr = 'Sheet1!' + addr
        sheet = addr.split('!')[0]
        if isinstance(v, str) and v.startswith('='):
            f = xltypes.XLFormula(v, sheet_name=sheet)
            model.cells[addr] = xltypes.XLCell(addr, None, formula=f)
            model.formulae[addr] = f
        else:
            model.cells[addr] = xltypes.XLCell(addr, v)
    if names:
        mc.defined_names = dict(names)
        mc.build_defined_names()
        mc.link_cells_to_defined_names()
    mc.build_ranges(default_sheet='Sheet1')
    if build_code:
        model.build_code()
    return model


def evaluator(cells, names=None):
    import xlcalculator
    return xlcalculator.Evaluator(build_model(cells, names))


def observe(out):
    """normalise an evaluation result to a JSON-able tagged tuple"""
    from xlcalculator.xlfunctions import func_xltypes as T, xlerrors as E
    import numpy
    if isinstance(out, E.ExcelError):
        return ('err', str(out.value))
    if isinstance(out, T.Text):
        return ('text', out.value)
    if isinstance(out, T.Boolean):
        return ('bool', bool(out.value))
    if isinstance(out, T.Number):
        v = out.value
        if isinstance(v, int) and not isinstance(v, bool) and abs(v) > 10 ** 15:
            try:
                return ('num', float(v))
            except OverflowError:
                return ('num', float('inf') if v > 0 else float('-inf'))
        if isinstance(v, (numpy.integer,)):
            v = int(v)
        if isinstance(v, (numpy.floating,)):
            v = float(v)
        return ('num', v)
    if isinstance(out, T.Blank):
        return ('blank',)
    if isinstance(out, T.DateTime):
        return ('date', out.value.isoformat())
    if isinstance(out, bool):
        return ('bool', out)
    if isinstance(out, (int, float, numpy.integer, numpy.floating)):
        return ('num', float(out) if isinstance(out, (float, numpy.floating)) else int(out))
    if isinstance(out, str):
        return ('text', out)
    if isinstance(out, datetime.datetime):
        return ('date', out.isoformat())
    if isinstance(out, T.Array):
        return ('array', [[observe(x) for x in row] for row in out.values.tolist()])
    if out is None:
        return ('blank',)
    return ('other', repr(out))


def eval_formula(formula, cells=None, at='Sheet1!Z99', names=None):
    """-> observed tuple, or ('raise', 'Type: msg')"""
    d = dict(cells or {})
    d[at] = formula
    try:
        ev = evaluator(d, names)
        return observe(ev.evaluate(at))
    except Exception as ex:      # noqa
        return ('raise', f'{type(ex).__name__}: {str(ex)[:200]}')


def close(a, b, rel=1e-9, abs_=1e-12):
    try:
        return abs(a - b) <= max(abs_, rel * max(abs(a), abs(b)))
    except Exception:
        return False
