"""C09 bounded layer (B7): the order laws at run time over a pool of concrete values, through formulas
(=A1 op B1 in a compiled model) and through library calls with native spellings."""
import datetime
import itertools

from pyvc.bounded import Driver

POOL = [0, 1, -3, 2.5, -0.5, 1e10, 5, '', 'a', 'A', 'ab', 'B', '1', '5', 'true', 'FALSE', 'é', 'Z z',
        True, False, ('date', 2024, 2, 29), ('date', 1900, 1, 1), ('date', 1999, 12, 31), None]
POOL += [0.1 + 0.2, 0.3, 1 / 3, 0.3333333333333333, 1e15 + 0.5, 1e15 + 0.25]
OPS = {'<': 'OP_LT', '>': 'OP_GT', '<=': 'OP_LE', '>=': 'OP_GE', '=': 'OP_EQ', '<>': 'OP_NE'}


def native(v):
    if isinstance(v, tuple):
        return datetime.datetime(*v[1:])
    return v


def serial(d):
    delta = (d - datetime.datetime(1900, 1, 1)).days
    return delta + (2 if delta > 58 else 1)


def key(v):
    """reference order of the statement, written independently of the code"""
    if isinstance(v, bool):
        return (2, int(v))
    if isinstance(v, (int, float)):
        return (0, v)
    if isinstance(v, str):
        return (1, v.upper())
    if isinstance(v, tuple):
        return (0, serial(native(v)))
    raise AssertionError(v)


def expected(op, a, b):
    if a is None or b is None:
        if op != '=':
            return None                       # statement only fixes equality with blanks
        other = b if a is None else a
        if other is None:
            return True
        if isinstance(other, tuple):
            return None                       # blank against a date: not in the statement
        return other in (0, '', False) and not (isinstance(other, float) and other != 0)
    ka, kb = key(a), key(b)
    return {'<': ka < kb, '>': ka > kb, '<=': ka <= kb, '>=': ka >= kb, '=': ka == kb, '<>': ka != kb}[op]


def cases_pairs(tier, seed):
    for a, b in itertools.product(range(len(POOL)), repeat=2):
        for op in OPS:
            for via in ('formula', 'call'):
                yield dict(a=a, b=b, op=op, via=via)


def oracle_pairs(c):
    from drivers.common import build_model, observe
    import xlcalculator
    a, b = POOL[c['a']], POOL[c['b']]
    exp = expected(c['op'], a, b)
    if exp is None:
        return True, 'unconstrained', 'skipped'
    if c['via'] == 'formula':
        cells = {'C1': f'=A1{c["op"]}B1'}
        if a is not None:
            cells['A1'] = native(a)
        if b is not None:
            cells['B1'] = native(b)
        try:
            obs = observe(xlcalculator.Evaluator(build_model(cells)).evaluate('Sheet1!C1'))
        except Exception as ex:   # noqa
            obs = ('raise', f'{type(ex).__name__}: {str(ex)[:120]}')
    else:
        from xlcalculator.xlfunctions import operator, func_xltypes as T
        fn = getattr(operator, OPS[c['op']])
        try:
            obs = observe(fn(T.BLANK if a is None else native(a), T.BLANK if b is None else native(b)))
        except Exception as ex:   # noqa
            obs = ('raise', f'{type(ex).__name__}: {str(ex)[:120]}')
    return obs == ('bool', exp), ('bool', exp), obs


def cases_triples(tier, seed):
    idx = [i for i, v in enumerate(POOL) if v is not None]
    for t in itertools.product(idx, repeat=3):
        yield dict(t=list(t))


def oracle_triples(c):
    from xlcalculator.xlfunctions import operator, func_xltypes as T
    a, b, d = [T.ExcelType.cast_from_native(native(POOL[i])) for i in c['t']]

    def lt(x, y):
        r = operator.OP_LT(x, y)
        return bool(r.value)
    try:
        x, y, z = lt(a, b), lt(b, d), lt(a, d)
    except Exception as ex:   # noqa
        return False, 'booleans', f'raise {type(ex).__name__}: {ex}'
    return (not (x and y)) or z, 'a<b and b<c implies a<c', (x, y, z)


DRIVERS = [
    Driver('C09/B7.pairs', cases_pairs, oracle_pairs, nchunks=12,
           rule='all ordered pairs of a 24-value pool (ints, floats, dates, texts incl. numeric-looking / true,false / mixed case / prefixes, booleans, blank) x 6 operators, as formulas =A1 op B1 and as library calls on native spellings; reference = independent key function',
           bound='24 x 24 x 6 x 2 (complete for the pool)', exhaustive=True),
    Driver('C09/B7.transitivity', cases_triples, oracle_triples, nchunks=8,
           rule='all ordered triples of the 23 non-blank pool values through OP_LT', bound='23^3 (complete for the pool)', exhaustive=True),
]
