"""C09 bounded layer (B7): the order laws at run time over a pool of concrete values, through formulas
(=A1 op B1 in a compiled model) and through library calls with native spellings."""
import datetime
import itertools

from pyvc.bounded import Driver

POOL = [0, 1, -3, 2.5, -0.5, 1e10, 5, '', 'a', 'A', 'ab', 'B', '1', '5', 'true', 'FALSE', 'é', 'Z z',
        True, False, ('date', 2024, 2, 29), ('date', 1900, 1, 1), ('date', 1999, 12, 31), None]
POOL += [0.1 + 0.2, 0.3, 1 / 3, 0.3333333333333333, 1e15 + 0.5, 1e15 + 0.25]
OPS = {'<': 'OP_LT', '>': 'OP_GT', '<=': 'OP_LE', '>=': 'OP_GE', '=': 'OP_EQ', '<>': 'OP_NE'}


def native(v):
    if isinstance(v, tuple):
        return datetime.datetime(*v[1:])
    return v


def serial(d):
    delta = (d - datetime.datetime(1900, 1, 1)).days
    return delta + (2 if delta > 58 else 1)


def key(v):
    """reference order of the statement, written independently of the code"""
    if isinstance(v, bool):
        return (2, int(v))
    if isinstance(v, (int, float)):
        return (0, v)
    if isinstance(v, str):
        return (1, v.upper())
    if isinstance(v, tuple):
        return (0, serial(native(v)))
    raise AssertionError(v)


def expected(op, a, b):
    if a is None or b is None:
        if op != '=':
            return None                       # statement only fixes equality with blanks
        other = b if a is None else a
        if other is None:
            return True
        if isinstance(other, tuple):
            return None                       # blank against a date: not in the statement
        return other in (0, '', False) and not (isinstance(other, float) and other != 0)
    ka, kb = key(a), key(b)
    return {'<': ka < kb, '>': ka > kb, '<=': ka <= kb, '>=': ka >= kb, '=': ka == kb, '<>': ka != kb}[op]


def cases_pairs(tier, seed):
    for a, b in itertools.product(range(len(POOL)), repeat=2):
        for op in OPS:
            for via in ('formula', 'call'):
                yield dict(a=a, b=b, op=op, via=via)


def oracle_pairs(c):
    from drivers.common import build_model, observe
    import xlcalculator
    a, b = POOL[c['a']], POOL[c['b']]
    exp = expected(c['op'], a, b)
    if exp is None:
        return True, 'unconstrained', 'skipped'
    if c['via'] == 'formula':
        cells = {'C1': f'=A1{c["op"]}B1'}
        if a is not None:
            cells['A1'] = native(a)
        if b is not None:
            cells['B1'] = native(b)
        try:
            obs = observe(xlcalculator.Evaluator(build_model(cells)).evaluate('Sheet1!C1'))
        except Exception as ex:   # noqa
            obs = ('raise', f'{type(ex).__name__}: {str(ex)[:120]}')
    else:
        from xlcalculator.xlfunctions import operator, func_xltypes as T
        fn = getattr(operator, OPS[c['op']])
        try:
            obs = observe(fn(T.BLANK if a is None else native(a), T.BLANK if b is None else native(b)))
        except Exception as ex:   # noqa
            obs = ('raise', f'{type(ex).__name__}: {str(ex)[:120]}')
    return obs == ('bool', exp), ('bool', exp), obs


def cases_triples(tier, seed):
    idx = [i for i, v in enumerate(POOL) if v is not None]
    for t in itertools.product(idx, repeat=3):
        yield dict(t=list(t))


def oracle_triples(c):
    from xlcalculator.xlfunctions import operator, func_xltypes as T
    a, b, d = [T.ExcelType.cast_from_native(native(POOL[i])) for i in c['t']]

    def lt(x, y):
        r = operator.OP_LT(x, y)
        return bool(r.value)
    try:
        x, y, z = lt(a, b), lt(b, d), lt(a, d)
    except Exception as ex:   # noqa
        return False, 'booleans', f'raise {type(ex).__name__}: {ex}'
    return (not (x and y)) or z, 'a<b and b<c implies a<c', (x, y, z)


DRIVERS = [
    Driver('C09/B7.pairs', cases_pairs, oracle_pairs, nchunks=12,
           rule='all ordered pairs of a 24-value pool (ints, floats, dates, texts incl. numeric-looking / true,false / mixed case / prefixes, booleans, blank) x 6 operators, as formulas =A1 op B1 and as library calls on native spellings; reference = independent key function',
           bound='24 x 24 x 6 x 2 (complete for the pool)', exhaustive=True),
    Driver('C09/B7.transitivity', cases_triples, oracle_triples, nchunks=8,
           rule='all ordered triples of the 23 non-blank pool values through OP_LT', bound='23^3 (complete for the pool)', exhaustive=True),
]


# ---- dates with a time of day: whatever serial the library gives a stamp, ALL comparisons must go by that one number -------------------------
STAMPS = [(2020, 1, 1, 12, 0, 0), (2020, 1, 2), (2020, 1, 1), (2020, 1, 1, 0, 0, 0, 500000), (2020, 1, 1, 0, 0, 1), (2020, 1, 1, 23, 59, 59),
          (1999, 12, 31, 6, 30), (2024, 2, 29, 12)]


def cases_stamps(tier, seed):
    n = len(STAMPS)
    for i, j in itertools.product(range(n), repeat=2):
        yield dict(kind='pair', i=i, j=j)
    for i, j in itertools.product(range(n), repeat=2):
        for k in (0, 1, 2):
            yield dict(kind='triple', i=i, j=j, k=k)


def oracle_stamps(c):
    from xlcalculator.xlfunctions import operator, func_xltypes as T
    a, b = datetime.datetime(*STAMPS[c['i']]), datetime.datetime(*STAMPS[c['j']])
    da, db = T.DateTime(a), T.DateTime(b)
    try:
        sa, sb = float(T.Number.cast(da)), float(T.Number.cast(db))                  # the serials the library itself assigns
        if c['kind'] == 'pair':
            obs = {op: bool(getattr(operator, fn)(da, db).value) for op, fn in OPS.items()}
            exp = {'<': sa < sb, '>': sa > sb, '<=': sa <= sb, '>=': sa >= sb, '=': sa == sb, '<>': sa != sb}
            if obs != exp:
                return False, (f'two dates compare as their serials {sa} and {sb}', exp), obs
            mixed = {op: (bool(getattr(operator, fn)(da, T.Number(sb)).value), bool(getattr(operator, fn)(T.Number(sa), db).value)) for op, fn in OPS.items()}
            if any(v != (exp[op], exp[op]) for op, v in mixed.items()):
                return False, (f'a date against a number compares as its serial ({sa} vs {sb})', exp), mixed
            return True, 'dates compare as their serials', 'ok'
        # transitivity through a plain number lying between / beside the two serials
        mid = [min(sa, sb) + abs(sa - sb) / 2, max(sa, sb) + 1, min(sa, sb) - 1][c['k']]
        m = T.Number(mid)

        def lt(x, y):
            return bool(operator.OP_LT(x, y).value)
        for x, y, z in ((da, m, db), (db, m, da), (m, da, db), (da, db, m)):
            if lt(x, y) and lt(y, z) and not lt(x, z):
                return False, 'a<b and b<c implies a<c (dates and a number)', (str(x), str(y), str(z))
    except Exception as ex:      # noqa
        return False, 'booleans', f'raise {type(ex).__name__}: {str(ex)[:160]}'
    return True, 'transitive', 'ok'


DRIVERS.append(Driver('C09/B7.stamps', cases_stamps, oracle_stamps, nchunks=2, exhaustive=True,
                      rule='8 dates with and without a time of day (noon, one second, half a second, end of day): all ordered pairs x 6 operators - two dates '
                           'compare exactly as the serial numbers the library assigns them do, and a date against the number equal to the other serial likewise; '
                           'transitivity of < over (date, number, date) triples with the number between / above / below the serials',
                      bound='8 x 8 pairs, 8 x 8 x 3 triples'))
