"""C01 bounded layer (B6): `evaluate(render(t)) == val(t)` and `shape(parse(render(t))) == t` for every ordered
operator pair and triple (quadruples seeded), all minimal and one redundant parenthesisation, blanks, operand kinds.

Two independent references:
  * shape: the tree the generator built (the reference parse);
  * value: structural recursion over that tree - (a) with the operator functions taken BY NAME from the operator /
    math / text modules (not through the evaluator's dispatch table), exact comparison; (b) with a float
    evaluator written here (numbers, booleans, #DIV/0!), for trees without `&`.
"""
import itertools
import math
import random

from pyvc.bounded import Driver

BIN = ['^', '*', '/', '+', '-', '&', '=', '<>', '<', '>', '<=', '>=']
LEVEL = {'^': 5, '*': 4, '/': 4, '+': 3, '-': 3, '&': 2, '=': 1, '<>': 1, '<': 1, '>': 1, '<=': 1, '>=': 1}
UNARY_LEVEL = 7
FUNC_BY_NAME = {'^': ('math', 'POWER'), '*': ('operator', 'OP_MUL'), '/': ('operator', 'OP_DIV'),
                '+': ('operator', 'OP_ADD'), '-': ('operator', 'OP_SUB'), '&': ('text', 'CONCAT'),
                '=': ('operator', 'OP_EQ'), '<>': ('operator', 'OP_NE'), '<': ('operator', 'OP_LT'),
                '>': ('operator', 'OP_GT'), '<=': ('operator', 'OP_LE'), '>=': ('operator', 'OP_GE')}

# a tree is: ('leaf', i) | ('neg', t) | (op, l, r)


def shapes(ops):
    """all binary trees over the operator sequence ops (in-order), leaves numbered left to right"""
    def build(lo, hi):          # leaves lo..hi inclusive, operators lo..hi-1
        if lo == hi:
            yield ('leaf', lo)
            return
        for k in range(lo, hi):
            for l in build(lo, k):
                for r in build(k + 1, hi):
                    yield (ops[k], l, r)
    return build(0, len(ops))


def level(t):
    if t[0] == 'leaf':
        return 9
    if t[0] == 'neg':
        return UNARY_LEVEL
    return LEVEL[t[0]]


def render(t, leaves, mode='min', sp=''):
    """mode 'min': only the parentheses Excel's grammar needs; 'full': parentheses around every sub-expression"""
    if t[0] == 'leaf':
        s = leaves[t[1]]
        return f'({s})' if mode == 'full' else s
    if t[0] == 'neg':
        inner = render(t[1], leaves, mode, sp)
        if mode == 'min' and level(t[1]) < UNARY_LEVEL:
            inner = f'({inner})'
        s = '-' + inner
        return f'({s})' if mode == 'full' else s
    op, l, r = t
    ls, rs = render(l, leaves, mode, sp), render(r, leaves, mode, sp)
    if mode == 'min':
        if level(l) < LEVEL[op]:
            ls = f'({ls})'
        # every binary operator associates to the left: an equal-level right child needs parentheses
        if level(r) <= LEVEL[op]:
            rs = f'({rs})'
    s = f'{ls}{sp}{op}{sp}{rs}'
    return f'({s})' if mode == 'full' else s


def canonical(t):
    """the tree a grammar-conforming parser yields for render(t, 'min') is t itself; used as the reference shape"""
    return t


# ---- reference values ----------------------------------------------------------------------------------------------
def _fn(sym):
    import importlib
    mod, name = FUNC_BY_NAME[sym]
    return getattr(importlib.import_module('xlcalculator.xlfunctions.' + mod), name)


def val_lib(t, leafvals):
    """fold the reference tree with the library's operator functions looked up by name"""
    from xlcalculator.xlfunctions import operator, func_xltypes as T
    if t[0] == 'leaf':
        return T.ExcelType.cast_from_native(leafvals[t[1]])
    if t[0] == 'neg':
        return operator.OP_NEG(val_lib(t[1], leafvals))
    return _fn(t[0])(val_lib(t[1], leafvals), val_lib(t[2], leafvals))


class Err(Exception):
    pass


class TooBig(Exception):
    pass


def val_float(t, leafvals):
    """independent evaluator: ('num', x) | ('bool', b) | ('err', code); None when the tree uses & (text forms are
    not constrained)"""
    def num(v):
        return float(v[1]) if v[0] == 'num' else float(int(v[1]))

    def key(v):
        return (0, v[1]) if v[0] == 'num' else (2, int(v[1]))

    def ev(t):
        if t[0] == 'leaf':
            x = leafvals[t[1]]
            return ('bool', x) if isinstance(x, bool) else ('num', float(x))
        if t[0] == 'neg':
            return ('num', -num(ev(t[1])))
        op = t[0]
        if op == '&':
            raise NotImplementedError
        a, b = ev(t[1]), ev(t[2])
        if op in ('+', '-', '*', '/', '^'):
            x, y = num(a), num(b)
            if op == '+':
                return ('num', x + y)
            if op == '-':
                return ('num', x - y)
            if op == '*':
                return ('num', x * y)
            if op == '/':
                if y == 0:
                    raise Err('#DIV/0!')
                return ('num', x / y)
            if abs(y) > 64 or (abs(x) > 1e4 and abs(y) > 4):
                raise TooBig()          # power towers: not generated (the library computes exact big integers)
            if x == 0 and y < 0:
                raise Err('#DIV/0!')
            if x < 0 and y != int(y):
                raise Err('#NUM!')
            try:
                return ('num', math.pow(x, y))
            except OverflowError:
                raise NotImplementedError       # overflow: the statement does not say what an overflowing power gives
        ka, kb = key(a), key(b)
        return ('bool', {'=': ka == kb, '<>': ka != kb, '<': ka < kb, '>': ka > kb, '<=': ka <= kb, '>=': ka >= kb}[op])
    try:
        return ev(t)
    except Err as e:
        return ('err', str(e))
    except NotImplementedError:
        return None
    except TooBig:
        return ('skip',)


def tower(t, leafvals):
    """True when the tree contains a power whose (estimated) operands would make the library build an
    astronomically large exact integer - such trees are not generated (overflow is outside the statement)"""
    big = [False]

    def est(t):
        if t[0] == 'leaf':
            x = leafvals[t[1]]
            return float(x)
        if t[0] == 'neg':
            return -est(t[1])
        a, b = est(t[1]), est(t[2])
        op = t[0]
        try:
            if op == '&':
                return float(str(int(abs(a))) + str(int(abs(b)))) if abs(a) < 1e15 and abs(b) < 1e15 else 1e30
            if op == '^':
                if abs(b) > 64 or (abs(a) > 1e4 and abs(b) > 4):
                    big[0] = True
                    return 1e30
                return math.pow(a, b)
            if op == '+':
                return a + b
            if op == '-':
                return a - b
            if op == '*':
                return a * b
            if op == '/':
                return a / b if b else 0.0
            return 1.0
        except (OverflowError, ValueError, ZeroDivisionError):
            return 1e30
    est(t)
    return big[0]


def shape_of(node):
    """shape of the real AST produced by the real parser"""
    from xlcalculator import ast_nodes
    if isinstance(node, ast_nodes.OperatorNode):
        if node.ttype == 'operator-prefix':
            return ('neg', shape_of(node.right))
        return (node.tvalue, shape_of(node.left), shape_of(node.right))
    if isinstance(node, ast_nodes.RangeNode):
        return ('ref', node.tvalue)
    return ('lit', node.tvalue)


def expected_shape(t, leaves):
    if t[0] == 'leaf':
        s = leaves[t[1]]
        if s[0].isalpha():
            return ('ref', s)
        return ('lit', s)
    if t[0] == 'neg':
        return ('neg', expected_shape(t[1], leaves))
    return (t[0], expected_shape(t[1], leaves), expected_shape(t[2], leaves))


LEAFSETS = [
    # (texts as written, values they denote, cells)
    (['2', '3', '4', '5', '6'], [2, 3, 4, 5, 6], {}),
    (['A1', 'B1', 'C1', 'D1', 'E1'], [7, 2, 0, 3, 1.5], {'A1': 7, 'B1': 2, 'C1': 0, 'D1': 3, 'E1': 1.5}),
    (['50%', '2.5', '1.5E+1', 'B2', '3'], [0.5, 2.5, 15.0, -4, 3], {'B2': -4}),
]


def _lit_matches(shape_lit, written):
    """a literal node's tvalue for the written literal (percent literals are folded by the tokenizer)"""
    if written.endswith('%'):
        try:
            return abs(float(shape_lit) - float(written[:-1]) / 100) < 1e-15
        except Exception:
            return False
    return str(shape_lit) == written


def shapes_equal(obs, exp):
    if obs[0] != exp[0]:
        return False
    if exp[0] == 'lit':
        return _lit_matches(obs[1], exp[1])
    if exp[0] == 'ref':
        return obs[1] == exp[1]
    return len(obs) == len(exp) and all(shapes_equal(o, e) for o, e in zip(obs[1:], exp[1:]))


def _cases(seqs, with_neg):
    n = 0
    for ops in seqs:
        for t in shapes(list(ops)):
            for li in range(len(LEAFSETS)):
                for mode, sp in (('min', ''), ('min', ' '), ('full', '')):
                    if li > 0 and mode == 'full':
                        continue
                    yield dict(tree=t, leafset=li, mode=mode, sp=sp)
            if with_neg:
                # unary minus on each leaf and on the whole expression
                nl = len(ops) + 1
                for k in range(nl):
                    yield dict(tree=_neg_leaf(t, k), leafset=0, mode='min', sp='')
                yield dict(tree=('neg', t), leafset=1, mode='min', sp=' ')
                # stacked minuses over the whole expression (each applies to the VALUE below it)
                yield dict(tree=('neg', ('neg', t)), leafset=1, mode='min', sp='')
                yield dict(tree=('neg', ('neg', ('neg', t))), leafset=0, mode='min', sp=' ')


def _neg_inner(t, rng):
    """one or two minuses in front of randomly chosen operator sub-trees"""
    if t[0] == 'leaf':
        return t
    if t[0] == 'neg':
        return ('neg', _neg_inner(t[1], rng))
    t = (t[0], _neg_inner(t[1], rng), _neg_inner(t[2], rng))
    x = rng.random()
    if x < 0.2:
        return ('neg', t)
    if x < 0.3:
        return ('neg', ('neg', t))
    return t


def _neg_leaf(t, k):
    if t[0] == 'leaf':
        return ('neg', t) if t[1] == k else t
    if t[0] == 'neg':
        return ('neg', _neg_leaf(t[1], k))
    return (t[0], _neg_leaf(t[1], k), _neg_leaf(t[2], k))


def cases_pairs(tier, seed):
    yield from _cases(itertools.product(BIN, repeat=2), True)
    for op in BIN:
        yield from _cases([(op,)], True)
    # double negation, negation of a power's operands
    for t in (('neg', ('neg', ('leaf', 0))), ('^', ('neg', ('leaf', 0)), ('leaf', 1)), ('^', ('leaf', 0), ('neg', ('leaf', 1))),
              ('neg', ('^', ('leaf', 0), ('leaf', 1)))):
        for li in range(3):
            yield dict(tree=t, leafset=li, mode='min', sp='')


def cases_triples(tier, seed):
    yield from _cases(itertools.product(BIN, repeat=3), False)


def cases_quads(tier, seed):
    rng = random.Random(seed * 101 + 7)
    n = 1500 if tier == 'quick' else 15000
    for _ in range(n):
        k = rng.choice([4, 4, 5])
        ops = [rng.choice(BIN) for _ in range(k - 1)]
        ts = list(shapes(ops))
        t = rng.choice(ts)
        for _ in range(rng.randrange(0, 3)):
            t = _neg_leaf(t, rng.randrange(k))
        if rng.random() < 0.5:
            t = _neg_inner(t, rng)
        yield dict(tree=t, leafset=rng.randrange(3), mode=rng.choice(['min', 'min', 'full']), sp=rng.choice(['', ' ', '  ']))


def _tup(t):
    return tuple(_tup(x) if isinstance(x, list) else x for x in t) if isinstance(t, (list, tuple)) else t


def oracle(c):
    from drivers.common import build_model, observe, close
    import xlcalculator
    from xlcalculator import parser
    t = _tup(c['tree'])
    texts, vals, cells = LEAFSETS[c['leafset']]
    text = '=' + render(t, texts, c['mode'], c['sp'])
    if tower(t, vals):
        return True, 'skipped (power tower)', 'skipped'
    # 1. shape
    try:
        ast = parser.FormulaParser().parse(text, {})
        obs_shape = shape_of(ast)
    except Exception as ex:      # noqa
        return False, 'parse', f'{text}: raise {type(ex).__name__}: {str(ex)[:120]}'
    exp_shape = expected_shape(t, texts)
    if not shapes_equal(obs_shape, exp_shape):
        return False, f'{text}: shape {exp_shape}', f'shape {obs_shape}'
    # 2. value
    d = dict(cells)
    d['Z9'] = text
    try:
        obs = observe(xlcalculator.Evaluator(build_model(d)).evaluate('Sheet1!Z9'))
    except Exception as ex:      # noqa
        obs = ('raise', f'{type(ex).__name__}: {str(ex)[:160]}')
    try:
        exp = observe(val_lib(t, vals))
    except Exception as ex:      # noqa
        exp = ('ref-raise', f'{type(ex).__name__}: {ex}')
    ok = obs == exp or (obs[0] == exp[0] == 'num' and close(obs[1], exp[1]))
    if ok:
        f = val_float(t, vals)
        if f is not None and not (f[0] == 'num' and (math.isinf(f[1]) or abs(f[1]) > 1e300)):
            ok = (f[0] == obs[0] and (close(f[1], obs[1], rel=1e-9) if f[0] == 'num' else f[1] == obs[1])) or \
                (f[0] == 'num' and obs[0] == 'num' and (math.isinf(f[1]) or math.isinf(obs[1]) or abs(f[1]) > 1e300))
            if not ok:
                return False, f'{text} = {f} (float reference)', obs
    return ok, f'{text} = {exp}', obs


def nontrivial(c):
    return c['tree'][0] != 'leaf'


DRIVERS = [
    Driver('C01/B6.pairs', cases_pairs, oracle, nchunks=8, exhaustive=True, nontrivial=nontrivial,
           rule='every single operator and every ordered pair of the 12 binary operators, both tree shapes, 3 operand sets (literals; cell references incl. a zero; percent/decimal/scientific literals and a negative reference), minimal parentheses with and without blanks, full parentheses; unary minus on every leaf / on the whole expression; shape of the parsed AST == generated tree and value == structural fold (library operators by name; independent float evaluator)',
           bound='all ordered pairs (complete)'),
    Driver('C01/B6.triples', cases_triples, oracle, nchunks=16, exhaustive=True, nontrivial=nontrivial,
           rule='every ordered triple of the 12 binary operators x all 5 tree shapes x 3 operand sets x renderings', bound='all ordered triples (complete)'),
    Driver('C01/B6.deeper', cases_quads, oracle, nchunks=8, nontrivial=nontrivial,
           rule='seeded trees with 4-5 operands, random shapes, unary minus, renderings', bound='1500 (quick) / 15000 (thorough) seeded trees'),
]
