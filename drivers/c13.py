"""C13 bounded layer (B4): an extracted sub-model computes the same values as the full model, also after the same
input changes; it is closed under dependencies; extraction leaves the original unchanged."""
import itertools
import random

from pyvc.bounded import Driver

MODELS = {
    'chain': dict(cells={'A1': 1, 'B1': '=A1+1', 'C1': '=B1*2', 'D1': '=C1+B1', 'E1': 7}, names={}, inputs=['A1', 'E1']),
    'range': dict(cells={'A1': 1, 'A2': 2, 'A3': 3, 'B1': '=SUM(A1:A3)', 'B2': '=B1+MAX(A1:A2)', 'C1': '=B2&"!"'}, names={}, inputs=['A1', 'A3']),
    'names': dict(cells={'A1': 4, 'A2': 5, 'B1': '=A1*A2', 'B2': '=B1+in_a', 'C1': '=SUM(rng)+B2'},
                  names={'in_a': 'Sheet1!$A$1', 'rng': 'Sheet1!$A$1:$A$2', 'out': 'Sheet1!$B$2'}, inputs=['A1', 'A2']),
    'sheets': dict(cells={'Sheet1!A1': 4, 'Data!A1': 10, 'Data!B1': '=A1*2', 'Sheet1!B1': '=Data!B1+A1', 'Sheet1!C1': '=B1+Data!A1', 'Sheet1!D1': '=$A$1+1'},
                   names={}, inputs=['Sheet1!A1', 'Data!A1']),
    'zeros': dict(cells={'A1': 7, 'A2': 0, 'A3': False, 'A4': 3.5, 'B1': '=AVERAGE(A1:A4)', 'B2': '=COUNT(A1:A4)&"/"&COUNTA(A1:A4)', 'C1': '=MIN(A1:A4)+B1'},
                  names={}, inputs=['A1']),
    # defined names written in the formulas in ANOTHER letter case than in their definition: whatever the library makes of such a name, the
    # extracted model must make the same of it
    'namecase': dict(cells={'A1': 0.5, 'A2': 100, 'A3': 900, 'B1': '=A2*rate', 'B2': '=SUM(AMOUNTS)', 'C1': '=B1+B2', 'D1': '=A2*Rate+SUM(Amounts)'},
                     names={'Rate': 'Sheet1!$A$1', 'Amounts': 'Sheet1!$A$2:$A$3'}, inputs=['A1', 'A2']),
    'deep': dict(cells={'A1': 1, 'A2': '=A1+1', 'A3': '=A2+1', 'A4': '=A3+1', 'A5': '=A4+A2', 'B1': '=SUM(A1:A5)'}, names={}, inputs=['A1']),
}


def full(a):
    return a if '!' in a else 'Sheet1!' + a


def cases(tier, seed):
    rng = random.Random(seed + 13)
    for m, spec in MODELS.items():
        items = [full(c) for c in spec['cells']] + list(spec['names'])
        subsets = []
        for k in range(1, len(items) + 1):
            for sub in itertools.combinations(items, k):
                subsets.append(list(sub))
        if tier == 'quick' and len(subsets) > 80:
            subsets = [s for s in subsets if len(s) <= 2] + rng.sample([s for s in subsets if len(s) > 2], 40)
        for sub in subsets:
            yield dict(model=m, focus=sub, changes=[])
            ch = [[full(i), rng.choice([11, -2.5, 0])] for i in spec['inputs']]
            yield dict(model=m, focus=sub, changes=ch)
            if spec['names']:
                yield dict(model=m, focus=sub, changes=ch, by_name=True)
            yield dict(model=m, focus=sub, changes=ch, evaluate_first=True)


def deps(spec, focus):
    """reference closure: cells reachable from the focus through references, ranges and names"""
    import re
    cells = {full(k): v for k, v in spec['cells'].items()}
    names = spec['names']

    def expand(addr_or_name):
        if addr_or_name in names:
            t = names[addr_or_name].replace('$', '')
            return expand_ref(t, t.split('!')[0])
        return [addr_or_name]

    def expand_ref(ref, sheet):
        if '!' in ref:
            sheet, ref = ref.split('!')
        if ':' in ref:
            a, b = ref.split(':')
            ca, ra, cb, rb = a[0], int(a[1:]), b[0], int(b[1:])
            return [f'{sheet}!{chr(c)}{r}' for r in range(ra, rb + 1) for c in range(ord(ca), ord(cb) + 1)]
        return [f'{sheet}!{ref}']
    todo = [a for f in focus for a in expand(f)]
    seen = set()
    while todo:
        a = todo.pop()
        if a in seen or a not in cells:
            continue
        seen.add(a)
        v = cells[a]
        if isinstance(v, str) and v.startswith('='):
            sheet = a.split('!')[0]
            body = re.sub(r'"[^"]*"', '', v)
            for tok in re.findall(r"(?:[A-Za-z0-9_]+!)?\$?[A-Z]+\$?[0-9]+(?::\$?[A-Z]+\$?[0-9]+)?|[a-z_]+(?![a-zA-Z(])", body):
                if tok in names:
                    todo += expand(tok)
                elif re.match(r'^[a-z_]+$', tok):
                    continue
                else:
                    todo += expand_ref(tok.replace('$', ''), sheet)
    return seen


def snapshot(model):
    return (sorted(model.cells), {a: (repr(c.value), c.formula.formula if c.formula else None) for a, c in model.cells.items()},
            sorted(model.defined_names), sorted(model.ranges))


def oracle(c):
    import xlcalculator
    from xlcalculator import ModelCompiler
    from drivers.common import build_model, observe
    spec = MODELS[c['model']]
    try:
        model = build_model({full(k): v for k, v in spec['cells'].items()}, spec['names'] or None)
        before = snapshot(model)
        sub = ModelCompiler.extract(model, focus=c['focus'])
        after = snapshot(model)
    except Exception as ex:      # noqa
        return False, 'extraction succeeds', f'raise {type(ex).__name__}: {str(ex)[:160]}'
    if before != after:
        return False, 'the original model is unchanged by extraction', 'changed'
    need = deps(spec, c['focus'])
    missing = sorted(need - set(sub.cells))
    if missing:
        return False, f'extracted model contains the focus and all it depends on ({sorted(need)})', f'missing {missing}'
    ev_full, ev_sub = xlcalculator.Evaluator(model), xlcalculator.Evaluator(sub)
    rev = {t.replace('$', ''): n for n, t in spec['names'].items() if ':' not in t}
    if c.get('evaluate_first'):
        for f in c['focus']:                        # a history: evaluate, change the inputs, evaluate again
            for ev_ in (ev_full, ev_sub):
                try:
                    ev_.evaluate(f)
                except Exception:      # noqa
                    pass
    for addr, v in c['changes']:
        if addr in need:
            # the same change in both models - addressed through the cell's defined name where it has one and the
            # extracted model knows the name
            how = rev[addr] if (c.get('by_name') and addr in rev and rev[addr] in sub.defined_names) else addr
            ev_full.set_cell_value(how, v)
            ev_sub.set_cell_value(how, v)
    for f in c['focus']:
        try:
            a = observe(ev_full.evaluate(f))
        except Exception as ex:      # noqa
            a = ('raise', type(ex).__name__)
        try:
            b = observe(ev_sub.evaluate(f))
        except Exception as ex:      # noqa
            b = ('raise', type(ex).__name__)
        if a != b:
            return False, f'{f}: {a} as in the full model', b
    # reading through a cell's defined name gives what reading through its address gives - in both models
    for n, addr in ((n, t.replace('$', '')) for n, t in spec['names'].items() if ':' not in t):
        for label, ev_, mod in (('full', ev_full, model), ('extracted', ev_sub, sub)):
            if n in mod.defined_names and addr in mod.cells:
                g1, g2 = observe(ev_.get_cell_value(n)), observe(ev_.get_cell_value(addr))
                if g1 != g2:
                    return False, f'{label} model: get_cell_value({n!r}) == get_cell_value({addr!r}) == {g2}', g1
    return True, 'same values', 'ok'


DRIVERS = [
    Driver('C13/B4.extract', cases, oracle, nchunks=8,
           rule='7 acyclic models (chain, ranges, defined names for a cell / a range / an output, names written in another letter case, two sheets with a $ reference, zeros and FALSE in a range, dependency depth 4) x every non-empty focus subset of their cells and names (quick: all subsets up to 2 elements + 40 larger ones per model) x {no change, every input changed in both models by address, ... through its defined name}: closure, equal values of every focused item, original unchanged',
           bound='models of <= 6 cells'),
]


# ---- seeded random acyclic models (thorough tier: many) -------------------------------------------------------------------------------------
def cases_random(tier, seed):
    from drivers.gen_models import gen_model
    rng = random.Random(seed * 7 + 13)
    n = 40 if tier == 'quick' else 10000
    for i in range(n):
        ms = seed * 100000 + i
        m = gen_model(ms)
        items = [a for a in m['cells'] if isinstance(m['cells'][a], str) and m['cells'][a].startswith('=')] + list(m['names'])
        if not items:
            continue
        for _ in range(3):
            k = rng.randrange(1, min(3, len(items)) + 1)
            focus = rng.sample(items, k)
            ch = [[a, rng.choice([11, -2.5, 0, 4])] for a in m['inputs'] if rng.random() < 0.6]
            yield dict(mseed=ms, focus=focus, changes=ch, by_name=rng.random() < 0.5, evaluate_first=rng.random() < 0.5)


def oracle_random(c):
    import xlcalculator
    from xlcalculator import ModelCompiler
    from drivers.common import build_model, observe
    from drivers.gen_models import gen_model, closure
    m = gen_model(c['mseed'])
    try:
        model = build_model(dict(m['cells']), m['names'] or None)
        before = snapshot(model)
        sub = ModelCompiler.extract(model, focus=c['focus'])
        after = snapshot(model)
    except Exception as ex:      # noqa
        return False, 'extraction succeeds', f'raise {type(ex).__name__}: {str(ex)[:160]}'
    if before != after:
        return False, 'the original model is unchanged by extraction', 'changed'
    need = closure(m, c['focus'])
    missing = sorted(need - set(sub.cells))
    if missing:
        return False, f'extracted model contains the focus and all it depends on ({sorted(need)})', f'missing {missing}'
    ev_full, ev_sub = xlcalculator.Evaluator(model), xlcalculator.Evaluator(sub)
    rev = {t.replace('$', '').replace("'", ''): n for n, t in m['names'].items() if ':' not in t}
    if c.get('evaluate_first'):
        for f in c['focus']:
            for ev_ in (ev_full, ev_sub):
                try:
                    ev_.evaluate(f)
                except Exception:      # noqa
                    pass
    for addr, v in c['changes']:
        if addr in need:
            how = rev[addr] if (c.get('by_name') and addr in rev and rev[addr] in sub.defined_names) else addr
            ev_full.set_cell_value(how, v)
            ev_sub.set_cell_value(how, v)
    for f in c['focus']:
        if f in m['names'] and ':' in m['names'][f]:
            continue                                   # a range name cannot be evaluated as a cell (ValueError in both models)
        try:
            a = observe(ev_full.evaluate(f))
        except Exception as ex:      # noqa
            a = ('raise', type(ex).__name__)
        try:
            b = observe(ev_sub.evaluate(f))
        except Exception as ex:      # noqa
            b = ('raise', type(ex).__name__)
        if a != b:
            return False, f'{f}: {a} as in the full model', b
    return True, 'same values', 'ok'


DRIVERS.append(Driver('C13/B4.random', cases_random, oracle_random, nchunks=8,
                      rule='seeded random acyclic models (1-3 sheets incl. a quoted one, constants of every type with holes, 3-8 formulas over cells / ranges / a cell name / a range name, $ references) x 3 random focus lists x random input changes (by address or through the name): closure against the generator\'s own dependency table, equal values of every focused item, original unchanged',
                      bound='40 (quick) / 10000 (thorough) models'))
