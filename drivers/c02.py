"""C02 bounded layer (B8): walk(parse(render(ast))) == ast for generated ASTs of the formula grammar and all of their
renderings (blanks/newlines between tokens incl. leading/trailing, redundant parentheses, leading '=', '@' on function
names, quoted sheet names, string literals over the full printable alphabet incl. the tokenizer's own delimiters).
The generator's own AST is the reference parse."""
import itertools
import random

from pyvc.bounded import Driver

LEVEL = {'^': 5, '*': 4, '/': 4, '+': 3, '-': 3, '&': 2, '=': 1, '<>': 1, '<': 1, '>': 1, '<=': 1, '>=': 1}
BIN = list(LEVEL)
ERRORS = ['#NULL!', '#DIV/0!', '#VALUE!', '#REF!', '#NAME?', '#NUM!', '#N/A']
DELIMS = '"\'!#%(),:;[]{}'
TRICKY = ['', ' ', 'a', 'a b', '"', '""', "'", '!', '#', '%', '(', ')', ',', ':', ';', '[', ']', '{', '}', '=', '+', '-',
          ': ', ':A1', 'a:b', ', ', '(x', 'x)', '#N/A', '#REF!', 'TRUE', '1', '1E+', 'A1', "it's", 'say "hi"', '{1;2}', '[1]',
          'a,b', 'x ', ' x', '\n', 'é', '日本', '100%', "'q'", 'SUM(', ')(', '<>', '>=', '&', '^', '*', '/', '@', '$A$1']
SHEETS = [None, 'Sheet2', 'My Sheet', "O'Brien", 'Data-2024', 'S!x']
CELLS = ['A1', 'B12', '$A$1', 'A$1', '$A1', 'AA100', 'XFD1048576']
RANGES = ['A1:B2', '$A$1:$B$2', 'A1:A250', 'C3:C3', 'A:A', '1:1']
FUNCS = ['SUM', 'IF', 'MAX', 'CONCAT', 'PI', 'NA', 'VLOOKUP', 'LEFT', 'sum', 'Xyz_1']

# ast: ('num', text) ('str', s) ('bool', 'TRUE') ('err', code) ('ref', sheet, coord) ('call', name, [args]) ('op', sym, l, r) ('neg', x)


def qsheet(s):
    plain = s.replace('_', '').isalnum() and not s[0].isdigit()
    return s if plain else "'" + s.replace("'", "''") + "'"


def render(t, rng=None, full=False):
    """rng given: blanks/newlines are inserted at token boundaries where the grammar allows them"""
    def ws():
        if rng is None:
            return ''
        return rng.choice(['', '', ' ', '  ', '\n', ' \n '])

    def r(t, parent_level=0, right_child=False):
        k = t[0]
        if k == 'num':
            s = t[1]
        elif k == 'str':
            s = '"' + t[1].replace('"', '""') + '"'
        elif k in ('bool', 'err'):
            s = t[1]
        elif k == 'ref':
            s = (qsheet(t[1]) + '!' if t[1] else '') + t[2]
        elif k == 'call':
            at = '@' if (rng is not None and rng.random() < 0.2) else ''
            args = (ws() + ',' + ws()).join(r(a) for a in t[2])
            s = f'{at}{t[1]}({ws() if t[2] else ""}{args}{ws() if t[2] else ""})'
        elif k == 'neg':
            inner = r(t[1], 7)
            s = '-' + inner
            if parent_level > 7:
                s = '(' + s + ')'
        else:
            _, sym, a, b = t
            lv = LEVEL[sym]
            s = r(a, lv) + ws() + sym + ws() + r(b, lv, True)
            if lv < parent_level or (lv == parent_level and right_child):
                s = '(' + ws() + s + ws() + ')'
                return s
        if full and k != 'call':
            s = '(' + s + ')'
        return s

    def lvl(t):
        return 9

    return r(t)


def walk(node):
    """the real AST -> generator form"""
    from xlcalculator import ast_nodes
    if isinstance(node, ast_nodes.FunctionNode):
        return ('call', node.tvalue, [walk(a) for a in node.args])
    if isinstance(node, ast_nodes.OperatorNode):
        if node.ttype == 'operator-prefix':
            return ('neg', walk(node.right))
        return ('op', node.tvalue, walk(node.left), walk(node.right))
    if isinstance(node, ast_nodes.RangeNode):
        v = node.tvalue
        if '!' in v:
            sheet, coord = v.rsplit('!', 1)
            return ('ref', sheet, coord)
        return ('ref', None, v)
    st = node.tsubtype
    if st == 'text':
        return ('str', node.tvalue)
    if st == 'logical':
        return ('bool', node.tvalue)
    if st == 'error':
        return ('err', node.tvalue)
    if st == 'number':
        return ('num', str(node.tvalue))
    return ('other', st, node.tvalue)


def norm(t):
    if isinstance(t, (list, tuple)):
        return tuple(norm(x) for x in t)
    return t


def gen(rng, depth):
    r = rng.random()
    if depth <= 0 or r < 0.35:
        k = rng.randrange(7)
        if k == 0:
            return ('num', rng.choice(['0', '1', '42', '3.14', '0.5', '1E+3', '2.5E-2', '100']))
        if k == 1:
            s = rng.choice(TRICKY) if rng.random() < 0.6 else ''.join(rng.choice(DELIMS + 'ab1 .Zé') for _ in range(rng.randrange(0, 8)))
            return ('str', s)
        if k == 2:
            return ('bool', rng.choice(['TRUE', 'FALSE']))
        if k == 3:
            return ('err', rng.choice(ERRORS))
        return ('ref', rng.choice(SHEETS), rng.choice(CELLS + RANGES))
    if r < 0.65:
        n = rng.choice([0, 1, 1, 2, 2, 3, 4])
        return ('call', rng.choice(FUNCS), [gen(rng, depth - 1) for _ in range(n)])
    if r < 0.93:
        return ('op', rng.choice(BIN), gen(rng, depth - 1), gen(rng, depth - 1))
    return ('neg', gen(rng, depth - 1))


def cases_systematic(tier, seed):
    # every tricky string content, alone / as call argument / as operand of & / with blanks after
    for s in TRICKY:
        yield dict(ast=('str', s), mode='plain')
        yield dict(ast=('call', 'LEN', [('str', s)]), mode='plain')
        yield dict(ast=('op', '&', ('ref', None, 'A1'), ('str', s)), mode='plain')
        yield dict(ast=('op', '&', ('op', '&', ('ref', None, 'A1'), ('str', s)), ('ref', None, 'B1')), mode='plain')
        yield dict(ast=('call', 'CONCAT', [('str', s), ('str', s), ('num', '1')]), mode='plain')
    # every reference spelling
    for sh in SHEETS:
        for c in CELLS + RANGES:
            yield dict(ast=('ref', sh, c), mode='plain')
            yield dict(ast=('call', 'SUM', [('ref', sh, c), ('num', '1')]), mode='plain')
            yield dict(ast=('op', '+', ('ref', sh, c), ('ref', None, 'B2')), mode='plain')
    # error / boolean / number literals, argument counts 0..4, nesting
    for e in ERRORS:
        yield dict(ast=('err', e), mode='plain')
        yield dict(ast=('call', 'IF', [('err', e), ('num', '1'), ('err', e)]), mode='plain')
        yield dict(ast=('op', '+', ('err', e), ('num', '1')), mode='plain')
    for n in range(5):
        args = [('num', str(i + 1)) for i in range(n)]
        yield dict(ast=('call', 'SUM', args), mode='plain')
        yield dict(ast=('call', 'MAX', [('call', 'SUM', args), ('call', 'MIN', args)]), mode='plain')
        yield dict(ast=('call', 'F', [('call', 'G', [('call', 'H', args)])]), mode='plain')
    # leading '=', leading/trailing blanks and newlines, '@'
    base = ('op', '+', ('ref', None, 'A1'), ('num', '1'))
    call = ('call', 'SUM', [('num', '1'), ('num', '2')])
    for t in (base, call, ('str', 'x'), ('ref', 'My Sheet', 'A1'), ('neg', ('ref', None, 'A1')), ('bool', 'TRUE')):
        for pre in ('', '=', ' =', '\n=', '  ', '= '):
            for post in ('', ' ', '  ', '\n', ' \n'):
                yield dict(ast=t, mode='wrap', pre=pre, post=post)
    yield dict(ast=call, mode='at')
    yield dict(ast=('call', 'MAX', [call, call]), mode='at')


def cases_random(tier, seed):
    rng = random.Random(seed * 7 + 1)
    n = 2500 if tier == 'quick' else 25000
    for i in range(n):
        t = gen(rng, rng.choice([1, 2, 2, 3]))
        yield dict(ast=t, mode=rng.choice(['plain', 'ws', 'ws', 'full']), rseed=rng.randrange(1 << 30))


def text_of(c):
    t = norm(c['ast'])
    m = c['mode']
    if m == 'plain':
        return '=' + render(t)
    if m == 'wrap':
        return c['pre'] + render(t) + c['post']
    if m == 'at':
        return '=' + render(t).replace('SUM(', '@SUM(')
    if m == 'ws':
        return '=' + render(t, random.Random(c['rseed']))
    if m == 'full':
        return '=' + render(t, None, full=True)
    raise AssertionError(m)


def oracle(c):
    from xlcalculator import parser
    t = norm(c['ast'])
    text = text_of(c)
    try:
        ast = parser.FormulaParser().parse(text, {})
        obs = norm(walk(ast))
    except Exception as ex:      # noqa
        return False, f'{text!r} -> {t}', f'raise {type(ex).__name__}: {str(ex)[:140]}'
    return obs == t, f'{text!r} -> {t}', obs


def nontrivial(c):
    return c['ast'][0] in ('call', 'op', 'neg') or c['mode'] != 'plain'


DRIVERS = [
    Driver('C02/B8.systematic', cases_systematic, oracle, nchunks=4, nontrivial=nontrivial, exhaustive=True,
           rule='52 string contents (each delimiter alone and in combination, quotes, non-ASCII, blanks) alone / as argument / as & operand; 6 sheet spellings x 13 cell and range spellings; 7 error literals; calls with 0..4 arguments nested to depth 3; leading =, leading/trailing blanks and newlines, @ on function names',
           bound='the listed spellings (complete)'),
    Driver('C02/B8.random', cases_random, oracle, nchunks=8, nontrivial=nontrivial,
           rule='seeded random ASTs (depth <= 3, calls with 0..4 arguments, the 12 binary operators, unary minus, all literal kinds, qualified references) rendered plain / with blanks and newlines at every token boundary the grammar allows / with redundant parentheses',
           bound='2500 (quick) / 25000 (thorough) ASTs'),
]
