"""C19 bounded layer: F3 (whole binary window x places, exhaustive), window boundaries +-4, seeded 40-bit sweep,
round trips, and the formula-level reachability of the twelve functions."""
import random

from pyvc.bounded import Driver

NAMES = {'bin': 'BIN', 'oct': 'OCT', 'hex': 'HEX', 'dec': 'DEC'}
W = {'bin': 10, 'oct': 30, 'hex': 40}
BASE = {'bin': 2, 'oct': 8, 'hex': 16}
FMT = {'bin': 'b', 'oct': 'o', 'hex': 'X'}


def _eng():
    from xlcalculator.xlfunctions import engineering
    return engineering


def ref_digits(v, base):
    """reference digits written independently of the code under test (repeated division)"""
    w = W[base]
    u = v % (1 << w)
    if u == 0:
        return '0'
    out = ''
    b = BASE[base]
    while u:
        out = '0123456789ABCDEF'[u % b] + out
        u //= b
    return out


def ref_value(s, base):
    u = 0
    for ch in s:
        u = u * BASE[base] + '0123456789ABCDEF'.index(ch.upper())
    return u - (1 << W[base]) if u >= (1 << (W[base] - 1)) else u


def expected(origin, dest, v, places):
    """v: the integer denoted; returns ('text', s) | ('num', n) | ('err', '#NUM!')"""
    ws = [W[b] for b in (origin, dest) if b != 'dec']
    bound = 1 << (min(ws) - 1)
    if places is not None and not (1 <= places <= 10):
        return ('err', '#NUM!')
    if not (-bound <= v < bound):
        return ('err', '#NUM!')
    if dest == 'dec':
        return ('num', v)
    d = ref_digits(v, dest)
    if places is not None and v >= 0:
        if len(d) > places:
            return ('err', '#NUM!')
        d = '0' * (places - len(d)) + d
    return ('text', d)


def observe(out):
    from xlcalculator.xlfunctions import func_xltypes as T, xlerrors as E
    if isinstance(out, E.ExcelError):
        return ('err', str(out))
    if isinstance(out, T.Text):
        return ('text', out.value)
    if isinstance(out, T.Number):
        return ('num', out.value)
    return ('other', repr(out))


def call(origin, dest, v, places):
    fn = getattr(_eng(), f'{NAMES[origin]}2{NAMES[dest]}')
    arg = v if origin == 'dec' else ref_digits(v, origin)
    try:
        out = fn(arg) if places is None else fn(arg, places)
    except Exception as ex:       # noqa
        return ('raise', f'{type(ex).__name__}: {ex}')
    return observe(out)


PAIRS = [(o, d) for o in ('dec', 'bin', 'oct', 'hex') for d in ('dec', 'bin', 'oct', 'hex') if o != d]


def cases_binary_window(tier, seed):
    for o, d in PAIRS:
        if 'bin' not in (o, d):
            continue
        for v in range(-512, 512):
            for places in ([None] + list(range(1, 11)) if d != 'dec' else [None]):
                yield dict(origin=o, dest=d, v=v, places=places)


def cases_boundaries(tier, seed):
    for o, d in PAIRS:
        srcw = W[o] if o != 'dec' else 41
        lim = 1 << (srcw - 1)
        pts = set()
        for b in (1 << 9, 1 << 29, 1 << 39):
            for k in range(-4, 5):
                for sgn in (1, -1):
                    x = sgn * b + k
                    if -lim <= x < lim:
                        pts.add(x)
        for v in sorted(pts):
            for places in ([None, 1, 9, 10, 0, 11] if d != 'dec' else [None]):
                yield dict(origin=o, dest=d, v=v, places=places)


def cases_sweep(tier, seed):
    rng = random.Random(seed * 7919 + 19)
    n = 2000 if tier == 'quick' else 20000
    for _ in range(n):
        for o, d in PAIRS:
            srcw = W[o] if o != 'dec' else 41
            lim = 1 << (srcw - 1)
            v = rng.choice([rng.randrange(-lim, lim), rng.randrange(-600, 600), rng.randrange(-(1 << 30), 1 << 30)])
            if not (-lim <= v < lim):
                continue
            yield dict(origin=o, dest=d, v=v, places=rng.choice([None, None, 10, rng.randrange(1, 11)]) if d != 'dec' else None)


def oracle(case):
    exp = expected(case['origin'], case['dest'], case['v'], case['places'])
    obs = call(case['origin'], case['dest'], case['v'], case['places'])
    return exp == obs, exp, obs


def cases_roundtrip(tier, seed):
    rng = random.Random(seed * 31 + 5)
    for b in ('bin', 'oct', 'hex'):
        lim = 1 << (W[b] - 1)
        vs = list(range(-512, 512)) if b == 'bin' else [rng.randrange(-lim, lim) for _ in range(1500)] + [-lim, lim - 1, 0, -1]
        for v in vs:
            yield dict(base=b, v=v)


def oracle_roundtrip(case):
    e = _eng()
    b = case['base']
    there = getattr(e, f'DEC2{NAMES[b]}')(case['v'])
    back = getattr(e, f'{NAMES[b]}2DEC')(there)
    obs = observe(back)
    return obs == ('num', case['v']), ('num', case['v']), (observe(there), obs)


INVALID = ['2', '12', '8', 'G', '1.0', '1.5', '-1', ' 1', '1 ', '1e3', '0x1', '11111111111', '77777777777', 'FFFFFFFFFFF', '+1', 'é',
           '1\n', '\n1', '1\r', '1\t', '\t1', '1\x0b', '1\x0c', '1\x00', '1_0', '１', '٣', '1\n\n', 'F\n', '7\n']


def cases_invalid(tier, seed):
    for o, d in PAIRS:
        if o == 'dec':
            continue
        for s in INVALID:
            valid = all(ch in {'bin': '01', 'oct': '01234567', 'hex': '0123456789abcdefABCDEF'}[o] for ch in s) and 1 <= len(s) <= 10
            if valid:
                continue
            yield dict(origin=o, dest=d, s=s)
        for arg in (True, False):
            yield dict(origin=o, dest=d, s=arg)
    for d in ('bin', 'oct', 'hex'):
        yield dict(origin='dec', dest=d, s=True)
        yield dict(origin='dec', dest=d, s=5, places=True)


def oracle_invalid(case):
    fn = getattr(_eng(), f'{NAMES[case["origin"]]}2{NAMES[case["dest"]]}')
    try:
        out = fn(case['s']) if 'places' not in case else fn(case['s'], case['places'])
        obs = observe(out)
    except Exception as ex:       # noqa
        obs = ('raise', f'{type(ex).__name__}: {ex}')
    exp = ('err', '#VALUE!') if isinstance(case['s'], bool) or isinstance(case.get('places'), bool) else ('err', '#NUM!')
    return obs == exp, exp, obs


def cases_formula(tier, seed):
    for (o, d) in PAIRS:
        v = 5
        arg = str(v) if o == 'dec' else '"' + ref_digits(v, o) + '"'
        yield dict(formula=f'={NAMES[o]}2{NAMES[d]}({arg})', origin=o, dest=d, v=v)


def oracle_formula(case):
    """in a fresh interpreter that imports nothing but the package: the function must be reachable from a formula"""
    import os
    import subprocess
    import sys
    code = ("import sys, xlcalculator\n"
            "model = xlcalculator.ModelCompiler().read_and_parse_dict({'A1': sys.argv[1]})\n"
            "out = xlcalculator.Evaluator(model).evaluate('Sheet1!A1')\n"
            "print('OUT', type(out).__name__, getattr(out, 'value', out))\n")
    exp = expected(case['origin'], case['dest'], case['v'], None)
    p = subprocess.run([sys.executable, '-c', code, case['formula']], capture_output=True, text=True, timeout=120,
                       env=dict(os.environ, OMP_NUM_THREADS='1'))
    line = [l for l in p.stdout.splitlines() if l.startswith('OUT ')]
    if not line:
        return False, exp, 'raise ' + (p.stderr.strip().splitlines() or ['?'])[-1][:200]
    _, tname, val = line[0].split(' ', 2)
    obs = ('text', val) if tname == 'Text' else (('num', int(float(val))) if tname == 'Number' else ('other', line[0]))
    return obs == exp, exp, obs


DRIVERS = [
    Driver('C19/F3.binary-window', cases_binary_window, oracle, nchunks=8, exhaustive=True,
           rule='every integer -512..511 x places in {omitted,1..10} x the 6 functions touching base 2 (exhaustive); expected digits by repeated division', bound='binary window, complete'),
    Driver('C19/B.boundaries', cases_boundaries, oracle, nchunks=2,
           rule='+-2^9, +-2^29, +-2^39 each +-4, all 12 functions, places in {omitted,0,1,9,10,11}', bound='window boundaries +-4'),
    Driver('C19/B.sweep', cases_sweep, oracle, nchunks=6,
           rule='seeded integers across the 40-bit range through all 12 functions', bound='2000 (quick) / 20000 (thorough) seeded values per pair'),
    Driver('C19/B.roundtrip', cases_roundtrip, oracle_roundtrip, nchunks=2,
           rule='X2DEC(DEC2X(v)) == v: binary window exhaustive, 1500 seeded + edges for octal/hex', bound='see rule'),
    Driver('C19/B.invalid', cases_invalid, oracle_invalid, nchunks=1,
           rule='digit strings from every invalid character class, >10 digits, fractional; boolean arguments', bound='fixed list'),
    Driver('C19/B.formula', cases_formula, oracle_formula, nchunks=1,
           rule='each of the twelve functions called from a formula in a compiled model', bound='12 formulas'),
]
