"""C07 bounded layer (B6): error propagation through formulas in compiled models, driven from the real signatures."""
import inspect
import itertools

from pyvc.bounded import Driver

CODES = ['#NULL!', '#DIV/0!', '#VALUE!', '#REF!', '#NAME?', '#NUM!', '#N/A']
INSPECTORS = {'ISERR', 'ISERROR', 'ISNA', 'NA', 'ISNUMBER', 'ISTEXT', 'ISBLANK', 'COUNT', 'COUNTA'}
LAZY = {'IF', 'AND', 'OR', 'NOT'}
VOLATILE = {'RAND', 'RANDBETWEEN', 'NOW', 'TODAY'}
INFIX = ['+', '-', '*', '/', '^', '&', '=', '<>', '<', '>', '<=', '>=']


def _funcs():
    import xlcalculator                                     # noqa
    from xlcalculator.xlfunctions import xl, engineering    # noqa
    return dict(xl.FUNCTIONS)


def _literal(annotation):
    from xlcalculator.xlfunctions import func_xltypes as t
    if annotation is t.XlText:
        return '"a"'
    if annotation is t.XlBoolean:
        return 'TRUE'
    if annotation is t.XlArray:
        return 'D1:D2'
    if annotation is t.XlDateTime:
        return '43831'
    return '1'


def cases_functions(tier, seed):
    for name, fn in sorted(_funcs().items()):
        if name in INSPECTORS or name in LAZY or name in VOLATILE or name.startswith('OP_'):
            continue
        sig = inspect.signature(fn)
        params = [p for p in sig.parameters.values()
                  if p.kind in (p.POSITIONAL_ONLY, p.POSITIONAL_OR_KEYWORD) and not p.name.startswith('_')]
        if name == 'VLOOKUP':
            params = params[:3]
        for i in range(len(params)):
            for code in CODES:
                args = [_literal(q.annotation) if j < i else ('A1' if j == i else 'B1') for j, q in enumerate(params)]
                yield dict(f=name, pos=i, code=code, formula=f'={name}({",".join(args)})')


def _cells(code, other='#REF!'):
    other = '#REF!' if code != '#REF!' else '#NUM!'
    return {'A1': '=' + code, 'B1': '=' + other, 'D1': 1, 'D2': 2}, other


def oracle_functions(c):
    from drivers.common import eval_formula
    cells, _ = _cells(c['code'])
    obs = eval_formula(c['formula'], cells)
    return obs == ('err', c['code']), ('err', c['code']), obs


OPERANDS = {'number': 5, 'text': 'abc', 'numeric text': '3', 'bool': True, 'blank': None, 'zero': 0}


def cases_operators(tier, seed):
    for op in INFIX:
        for code in CODES:
            for kind in OPERANDS:
                yield dict(op=op, code=code, other=kind, formula=f'=A1{op}C1', errpos='left')
                yield dict(op=op, code=code, other=kind, formula=f'=C1{op}A1', errpos='right')
            yield dict(op=op, code=code, other='error', formula=f'=A1{op}B1', errpos='both')
    for code in CODES:
        yield dict(op='u-', code=code, other='-', formula='=-A1', errpos='only')
        yield dict(op='%', code=code, other='-', formula='=A1*5%', errpos='left')


def oracle_operators(c):
    from drivers.common import eval_formula
    cells, _ = _cells(c['code'])
    if c['other'] in OPERANDS and OPERANDS[c['other']] is not None:
        cells['C1'] = OPERANDS[c['other']]
    obs = eval_formula(c['formula'], cells)
    ok = obs == ('err', c['code'])
    if not ok and c['other'] == 'text' and c['errpos'] == 'right' and c['op'] in ('+', '-', '*', '/', '^') \
            and obs == ('err', '#VALUE!'):
        # a non-numeric text operand LEFT of the error value fails its own conversion first: the statement
        # orders errors left to right and does not say which of the two wins - not demanded
        ok = True
    return ok, ('err', c['code']), obs


VALUES = [0, 1, -8, 0.5, -0.5, 2, 1e200, -1e200, 1e-300, '', 'abc', '3', '-1.5e2', 'true', 'TRUE', '1/0', True, False, None,
          ('date', 2020, 1, 31)]


def cases_typed(tier, seed):
    for op in INFIX:
        for a, b in itertools.product(range(len(VALUES)), repeat=2):
            yield dict(op=op, a=a, b=b)
    for a in range(len(VALUES)):
        yield dict(op='u-', a=a, b=a)
        yield dict(op='%', a=a, b=a)


def oracle_typed(c):
    import datetime
    from drivers.common import eval_formula

    def nat(v):
        return datetime.datetime(*v[1:]) if isinstance(v, tuple) else v
    cells = {}
    if VALUES[c['a']] is not None:
        cells['A1'] = nat(VALUES[c['a']])
    if VALUES[c['b']] is not None:
        cells['B1'] = nat(VALUES[c['b']])
    f = {'u-': '=-A1', '%': '=A1*50%'}.get(c['op'], f'=A1{c["op"]}B1')
    obs = eval_formula(f, cells)
    ok = obs[0] in ('num', 'text', 'bool', 'blank', 'date') or (obs[0] == 'err' and obs[1] in ('#VALUE!', '#DIV/0!', '#NUM!'))
    return ok, 'a value or #VALUE!/#DIV/0!/#NUM!', obs


def cases_chain(tier, seed):
    for code in CODES:
        for src in ('literal', 'function', 'division'):
            if src == 'division' and code != '#DIV/0!':
                continue
            if src == 'function' and code != '#N/A':
                continue
            for depth in (1, 2, 5):
                yield dict(code=code, src=src, depth=depth)


def oracle_chain(c):
    import xlcalculator
    from drivers.common import build_model, observe
    cells = {'A1': {'literal': '=' + c['code'], 'function': '=NA()', 'division': '=1/0'}[c['src']]}
    for i in range(2, c['depth'] + 2):
        cells[f'A{i}'] = f'=A{i - 1}+1' if i % 2 else f'=SUM(A{i - 1},1)'
    last = f'Sheet1!A{c["depth"] + 1}'
    try:
        model = build_model(cells)
        ev = xlcalculator.Evaluator(model)
        obs = observe(ev.evaluate(last))
        stored = [observe(model.cells[f'Sheet1!A{i}'].value) for i in range(1, c['depth'] + 2)]
    except Exception as ex:   # noqa
        return False, ('err', c['code']), f'raise {type(ex).__name__}: {str(ex)[:150]}'
    exp = ('err', c['code'])
    return obs == exp and all(s == exp for s in stored), exp, (obs, stored)


AGG = ['SUM', 'AVERAGE', 'MIN', 'MAX', 'CONCAT', 'CONCATENATE', 'SUMPRODUCT']
FILL = [1, 2.5, None, 'txt']


def cases_aggregates(tier, seed):
    for f in AGG:
        for code in ('#N/A', '#DIV/0!', '#NUM!'):
            for pos in range(3):
                for fill in range(len(FILL)):
                    yield dict(f=f, code=code, pos=pos, fill=fill, via='range')
                yield dict(f=f, code=code, pos=pos, fill=0, via='args')


def oracle_aggregates(c):
    from drivers.common import eval_formula
    cells = {}
    for i in range(3):
        if i == c['pos']:
            cells[f'A{i + 1}'] = '=' + c['code']
        elif FILL[c['fill']] is not None:
            cells[f'A{i + 1}'] = FILL[c['fill']]
    cells['B1'], cells['B2'], cells['B3'] = 1, 2, 3
    if c['f'] == 'SUMPRODUCT':
        formula = '=SUMPRODUCT(A1:A3,B1:B3)'
    elif c['via'] == 'range':
        formula = f'={c["f"]}(A1:A3,7)'
    else:
        formula = f'={c["f"]}(A1,A2,A3)'
    if c['f'] == 'SUMPRODUCT' and c['via'] == 'args':
        return True, 'n/a', 'skipped'
    obs = eval_formula(formula, cells)
    return obs == ('err', c['code']), ('err', c['code']), obs


DRIVERS = [
    Driver('C07/B6.functions', cases_functions, oracle_functions, nchunks=8,
           rule='every registered function (except the IS*/COUNT family, lazy logicals, volatile) x every scalar parameter position x the 7 error codes, as a formula whose argument cells hold the error (later arguments hold a different error)', bound='complete for the registered functions', exhaustive=True),
    Driver('C07/B6.operators', cases_operators, oracle_operators, nchunks=4,
           rule='12 infix operators, unary minus, percent x error in left/right/both x 7 codes x 6 other-operand kinds', bound='complete for the listed kinds', exhaustive=True),
    Driver('C07/B6.typed-operands', cases_typed, oracle_typed, nchunks=12,
           rule='12 infix operators x all ordered pairs of 20 scalar values (0, negatives, 1e200, 1e-300, texts numeric/non-numeric/boolean-like, booleans, blank, date); unary minus and percent on each', bound='20x20 values'),
    Driver('C07/B6.chain', cases_chain, oracle_chain, nchunks=1,
           rule='error born in A1 (literal, NA(), 1/0) handed on through 1,2,5 dependant cells; every cell stores the error', bound='depth <= 5'),
    Driver('C07/B6.aggregates', cases_aggregates, oracle_aggregates, nchunks=2,
           rule='SUM, AVERAGE, MIN, MAX, CONCAT, CONCATENATE, SUMPRODUCT over a 3-cell range / 3 arguments with an error at each position, other cells number/blank/text', bound='3 cells'),
]
