"""C10 bounded layer (B5): IF/AND/OR/NOT select lazily and follow Excel's truth rules - through formulas in compiled
models with a spy function registered in the evaluator's namespace (logs every evaluation of a branch) and poisoned
branches (error value, unknown function, circular reference)."""
import itertools

from pyvc.bounded import Driver

CONDS = [('TRUE', True), ('FALSE', False), ('1', True), ('0', False), ('2.5', True), ('-1', True), ('0.0', False),
         ('K1', True), ('K2', False), ('K3', True), ('K4', False), ('K9', False), ('K1=K1', True), ('K3>5', False),
         ('AND(K1,K3)', True), ('OR(K2,K4)', False), ('NOT(K2)', True),
         # numbers that are tiny but not zero: a literal, a cell, the residue of a decimal sum, the smallest double
         ('1E-16', True), ('K5', True), ('0.1+0.2-0.3', True), ('K6', True), ('-1E-300', True)]
CELLS = {'K1': True, 'K2': False, 'K3': 3, 'K4': 0, 'K5': -3e-16, 'K6': 5e-324, 'L1': 10, 'L2': 20}      # K9 stays empty
POISON = ['1/0', 'NOSUCHFUNCTION(1)', 'Z50', '#N/A', 'SPYFAIL()']            # Z50 is the formula's own cell (circular)


def cases_if(tier, seed):
    for ctext, truth in CONDS:
        for a, b in (('SPY(1,L1)', 'SPY(2,L2)'), ('SPY(1,"yes")', 'SPY(2,"no")'),
                     ('SPY(1,IF(K1,L1,SPY(3,0)))', 'SPY(2,IF(K2,SPY(4,0),L2))')):
            yield dict(kind='if', cond=ctext, truth=truth, a=a, b=b)
        yield dict(kind='if-noelse', cond=ctext, truth=truth, a='SPY(1,L1)')
        for p in POISON:
            yield dict(kind='if-poison', cond=ctext, truth=truth, poison=p)


def cases_andor(tier, seed):
    atoms = [('TRUE', [True]), ('FALSE', [False]), ('1', [True]), ('0', [False]), ('K9', []), ('K3', [True]), ('K4', [False]),
             ('M1:M2', [True, True]), ('M1:M3', [True, True, False]), ('N1:N2', []), ('7', [True])]
    for f in ('AND', 'OR'):
        for n in (1, 2, 3):
            for combo in itertools.product(range(len(atoms)), repeat=n):
                yield dict(kind='andor', f=f, args=[atoms[i][0] for i in combo], truths=[atoms[i][1] for i in combo])
        for n in (4, 5):
            for combo in itertools.islice(itertools.product(range(0, len(atoms), 2), repeat=n), 0, 400):
                yield dict(kind='andor', f=f, args=[atoms[i][0] for i in combo], truths=[atoms[i][1] for i in combo])
        for err in ('#N/A', '1/0', '#REF!'):
            for pos in range(3):
                for others in (('TRUE', True), ('FALSE', False), ('1', True), ('0', False)):
                    args = [others[0]] * 3
                    args[pos] = err
                    yield dict(kind='andor-err', f=f, args=args, pos=pos, other=others[1], err=err)
        # an error CELL inside a range argument (R1:R3 = TRUE, #DIV/0!, 1 ; S1:S3 = FALSE, #DIV/0!, 0), alone and after other arguments
        for rng_, first in (('R1:R3', True), ('S1:S3', False)):
            for lead in ([], ['TRUE'], ['FALSE'], ['1', 'K1']):
                yield dict(kind='andor-range-err', f=f, args=lead + [rng_], lead=[x in ('TRUE', '1', 'K1') for x in lead], first=first)
    for t, v in [('TRUE', True), ('FALSE', False), ('0', False), ('1', True), ('2', True), ('K9', False), ('K3', True), ('K2', False)]:
        yield dict(kind='not', arg=t, truth=v)
    # an empty cell that the model HOLDS (as '': a range of another formula covers it, or it was cleared) is as blank as one it does not hold
    for f, exp in (('NOT(K9)', ('bool', True)), ('IF(K9,1,2)', ('num', 2.0)), ('AND(K9,TRUE)', ('bool', True)), ('OR(K9,FALSE)', ('bool', False)),
                   ('NOT(NOT(K9))', ('bool', False)), ('IF(NOT(K9),1,2)', ('num', 1.0)), ('AND(NOT(K9),K1)', ('bool', True))):
        for how in ('absent', 'covered', 'cleared'):
            yield dict(kind='held-empty', f=f, exp=list(exp), how=how)
    # the deciding element lies far down a long range (beyond the 100 cells after which a range is cut to its used part)
    for f in ('AND', 'OR'):
        for deciding in (False, 0, 0.0, True, 1):
            for row in (101, 130, 250):
                yield dict(kind='long-range', f=f, deciding=deciding, row=row, rng=f'N1:N{row}')
        yield dict(kind='long-range', f=f, deciding=(f != 'AND'), row=130, rng='N:N')              # (a whole column is slow to compile: one case)
    for err in ('#N/A', '1/0'):
        yield dict(kind='not-err', arg=err)
        yield dict(kind='if-err', arg=err)


LOG = []


def _evaluator(cells):
    import xlcalculator
    from xlcalculator.xlfunctions import func_xltypes as T, xlerrors
    from drivers.common import build_model
    d = dict(CELLS, M1=True, M2=5, M3=0)
    d.update(cells)
    model = build_model(d)
    ev = xlcalculator.Evaluator(model)
    del LOG[:]

    def SPY(tag, value):
        LOG.append(int(tag))
        return value

    def SPYFAIL():
        LOG.append(99)
        raise RuntimeError('poisoned branch was evaluated')
    ev.namespace['SPY'] = SPY
    ev.namespace['SPYFAIL'] = SPYFAIL
    return ev


def _err_code(e):
    return {'1/0': '#DIV/0!'}.get(e, e)


def oracle(c):
    from drivers.common import observe
    k = c['kind']
    try:
        if k == 'if':
            ev = _evaluator({'Z50': f'=IF({c["cond"]},{c["a"]},{c["b"]})'})
            obs = observe(ev.evaluate('Sheet1!Z50'))
            log = list(LOG)
            sel = c['a'] if c['truth'] else c['b']
            exp = {'SPY(1,L1)': ('num', 10), 'SPY(2,L2)': ('num', 20), 'SPY(1,"yes")': ('text', 'yes'), 'SPY(2,"no")': ('text', 'no'),
                   'SPY(1,IF(K1,L1,SPY(3,0)))': ('num', 10), 'SPY(2,IF(K2,SPY(4,0),L2))': ('num', 20)}[sel]
            explog = [1] if c['truth'] else [2]
            return (obs == exp and log == explog), (exp, f'evaluated branches {explog}'), (obs, log)
        if k == 'if-noelse':
            ev = _evaluator({'Z50': f'=IF({c["cond"]},{c["a"]})'})
            obs = observe(ev.evaluate('Sheet1!Z50'))
            exp = ('num', 10) if c['truth'] else ('bool', False)
            return (obs == exp and list(LOG) == ([1] if c['truth'] else [])), exp, (obs, list(LOG))
        if k == 'if-poison':
            f = f'=IF({c["cond"]},SPY(1,L1),{c["poison"]})' if c['truth'] else f'=IF({c["cond"]},{c["poison"]},SPY(2,L2))'
            ev = _evaluator({'Z50': f})
            obs = observe(ev.evaluate('Sheet1!Z50'))
            exp = ('num', 10) if c['truth'] else ('num', 20)
            return (obs == exp and list(LOG) == ([1] if c['truth'] else [2])), (exp, 'the other branch has no effect'), (obs, list(LOG))
        if k == 'andor':
            ev = _evaluator({'Z50': f'={c["f"]}({",".join(c["args"])})'})
            obs = observe(ev.evaluate('Sheet1!Z50'))
            ts = [t for el in c['truths'] for t in el]
            if not ts:
                return True, 'all blank: not in the statement', obs
            exp = ('bool', all(ts) if c['f'] == 'AND' else any(ts))
            return obs == exp, exp, obs
        if k == 'andor-err':
            ev = _evaluator({'Z50': f'={c["f"]}({",".join(c["args"])})'})
            obs = observe(ev.evaluate('Sheet1!Z50'))
            err = ('err', _err_code(c['err']))
            decided_before = c['pos'] > 0 and ((c['f'] == 'AND' and not c['other']) or (c['f'] == 'OR' and c['other']))
            ok = obs == err or (decided_before and obs == ('bool', c['f'] == 'OR'))
            return ok, (err, 'or the decided value when an earlier argument decides'), obs
        if k == 'andor-range-err':
            ev = _evaluator({'Z50': f'={c["f"]}({",".join(c["args"])})', 'R1': True, 'R2': '=1/0', 'R3': 1, 'S1': False, 'S2': '=1/0', 'S3': 0})
            obs = observe(ev.evaluate('Sheet1!Z50'))
            seq = list(c['lead']) + [c['first']]           # truth values met before the error cell
            deciding = (c['f'] == 'OR')
            decided = any(v == deciding for v in seq)
            exp = ('bool', deciding) if decided else ('err', '#DIV/0!')
            return obs == exp, (exp, 'the error cell is the result unless an earlier value decides'), obs
        if k == 'not':
            ev = _evaluator({'Z50': f'=NOT({c["arg"]})'})
            obs = observe(ev.evaluate('Sheet1!Z50'))
            return obs == ('bool', not c['truth']), ('bool', not c['truth']), obs
        if k == 'long-range':
            cells = {'Z50': f'={c["f"]}({c["rng"]})', f'N{c["row"]}': c['deciding']}
            filler = (c['f'] == 'AND')                      # the other cells hold the value that does NOT decide
            for r in range(1, 4):
                cells[f'N{r}'] = filler
            ev = _evaluator(cells)
            obs = observe(ev.evaluate('Sheet1!Z50'))
            truths = [filler] * 3 + [bool(c['deciding'])]
            exp = ('bool', all(truths) if c['f'] == 'AND' else any(truths))
            return obs == exp, (exp, f'{c["f"]} over {c["rng"]} with {c["deciding"]!r} in row {c["row"]}'), obs
        if k == 'held-empty':
            cells = {'Z50': '=' + c['f']}
            if c['how'] == 'covered':
                cells['Z60'] = '=SUM(K8:K10)'
            ev = _evaluator(cells)
            if c['how'] == 'cleared':
                ev.model.set_cell_value('Sheet1!K9', 5)
                ev.evaluate('Sheet1!Z50')
                ev.model.set_cell_value('Sheet1!K9', '')
            obs = observe(ev.evaluate('Sheet1!Z50'))
            exp = tuple(c['exp'])
            return obs == exp, (exp, 'an empty cell counts as blank however the model holds it'), obs
        if k == 'not-err':
            ev = _evaluator({'Z50': f'=NOT({c["arg"]})'})
            obs = observe(ev.evaluate('Sheet1!Z50'))
            return obs == ('err', _err_code(c['arg'])), ('err', _err_code(c['arg'])), obs
        if k == 'if-err':
            ev = _evaluator({'Z50': f'=IF({c["arg"]},SPY(1,1),SPY(2,2))'})
            obs = observe(ev.evaluate('Sheet1!Z50'))
            return obs == ('err', _err_code(c['arg'])) and not LOG, (('err', _err_code(c['arg'])), 'no branch evaluated'), (obs, list(LOG))
    except Exception as ex:     # noqa
        return False, 'a value', f'raise {type(ex).__name__}: {str(ex)[:200]}'
    raise AssertionError(k)


DRIVERS = [
    Driver('C10/B5.if', cases_if, oracle, nchunks=4, exhaustive=True,
           rule='17 conditions (TRUE/FALSE, zero / non-zero numbers, references to boolean / numeric / empty cells, comparisons, nested AND/OR/NOT) x 3 branch pairs with a spy in every branch (incl. nested IF), omitted else, and 5 poisoned other-branches (error value, unknown function, circular reference, failing function): value and the log of evaluated branches',
           bound='the listed conditions and branches (complete)'),
    Driver('C10/B5.and-or-not', cases_andor, oracle, nchunks=6,
           rule='AND/OR over all 1..3-argument combinations of 11 atoms (logical and numeric literals, references, an empty cell, ranges mixing booleans, numbers and blanks) and 400 4..5-argument ones; an error at each of 3 positions; NOT over 8 arguments and errors; IF with an error condition; AND / OR over a range of 101 - 250 rows (and the whole column) whose deciding FALSE / 0 / TRUE / 1 is the last cell; NOT / IF / AND / OR over an empty cell that the model does not hold, holds because a range covers it, or holds after being cleared',
           bound='argument counts 1..5'),
]


# ---- seeded random nestings of IF / AND / OR / NOT --------------------------------------------------------------------------------------------
ATOMS = [('TRUE', True), ('FALSE', False), ('1', True), ('0', False), ('K1', True), ('K2', False), ('K3', True), ('K4', False),
         ('K3>2', True), ('K3<2', False), ('K1=K1', True), ('L1>L2', False), ('2.5', True), ('0.0', False), ('K5', True), ('1E-16', True)]


def _rand_cond(rng, depth):
    """(text, truth) of a spy-free condition"""
    if depth == 0 or rng.random() < 0.35:
        return rng.choice(ATOMS)
    k = rng.choice(['AND', 'OR', 'NOT', 'IFC'])
    if k == 'NOT':
        t, v = _rand_cond(rng, depth - 1)
        return f'NOT({t})', (not v)
    if k == 'IFC':
        c, cv = _rand_cond(rng, depth - 1)
        a, av = _rand_cond(rng, depth - 1)
        b, bv = _rand_cond(rng, depth - 1)
        return f'IF({c},{a},{b})', (av if cv else bv)
    parts = [_rand_cond(rng, depth - 1) for _ in range(rng.randrange(1, 4))]
    vals = [v for _, v in parts]
    return f'{k}({",".join(t for t, _ in parts)})', (all(vals) if k == 'AND' else any(vals))


def _rand_if(rng, depth, counter):
    """(text, value, log) of a value expression whose leaves are spied"""
    if depth == 0 or rng.random() < 0.3:
        counter[0] += 1
        tag = counter[0]
        v = rng.choice([10, 20, 0, -1.5, 7])
        return f'SPY({tag},{v!r})', v, [tag]
    c, cv = _rand_cond(rng, 2)
    a, av, al = _rand_if(rng, depth - 1, counter)
    b, bv, bl = _rand_if(rng, depth - 1, counter)
    return f'IF({c},{a},{b})', (av if cv else bv), (al if cv else bl)


def cases_random(tier, seed):
    import random
    rng = random.Random(seed + 10)
    n = 60 if tier == 'quick' else 5000
    for i in range(n):
        counter = [0]
        t, v, log = _rand_if(rng, rng.randrange(1, 5), counter)
        if len(t) < 900:
            yield dict(kind='random', formula='=' + t, value=v, log=log)


def oracle_random(c):
    from drivers.common import observe
    try:
        ev = _evaluator({'Z50': c['formula']})
        obs = observe(ev.evaluate('Sheet1!Z50'))
        log = list(LOG)
    except Exception as ex:     # noqa
        return False, 'a value', f'raise {type(ex).__name__}: {str(ex)[:200]}'
    exp = ('num', c['value'])
    ok = (obs == exp or (obs[0] == 'num' and abs(obs[1] - c['value']) < 1e-12)) and log == c['log']
    return ok, (c['formula'], exp, f'evaluated leaves {c["log"]}'), (obs, log)


DRIVERS.append(Driver('C10/B5.random', cases_random, oracle_random, nchunks=8,
                      rule='seeded random value expressions: IF nested up to depth 4 whose conditions are random spy-free nestings of AND / OR / NOT / IF over 14 atoms (logical and numeric literals, references, comparisons) and whose leaves are spied: the value and the exact sequence of evaluated leaves (only the selected branch at every level) against a reference lazy evaluator',
                      bound='60 (quick) / 5000 (thorough) expressions, depth <= 4'))
