"""C12 bounded layer (B2): a persisted model restores to an equivalent model - at every point of a
build / evaluate / set_cell_value history, plain and gzip-compressed."""
import datetime
import os
import random
import tempfile

from pyvc.bounded import Driver

ROOT = os.path.dirname(os.path.dirname(os.path.abspath(__file__)))

MODELS = {
    'types': dict(cells={'A1': 1, 'A2': 2.5, 'A3': 'text', 'A4': 'naïve café 日本', 'A5': True, 'A6': False, 'A7': 1e300, 'A8': 5e-324,
                         'A9': -0.0, 'A10': '', 'A11': 'say "hi"', 'B1': '=A1+A2', 'B2': '=A3&A4', 'B3': '=1/0', 'B4': '=NA()',
                         'B5': '=IF(A5,A7,A8)', 'B6': '=SUM(A1:A2)', 'B7': '=LEN(A4)'}, names={'first': 'Sheet1!$A$1', 'nums': 'Sheet1!$A$1:$A$2'}),
    'dates': dict(cells={'A1': ('date', 2024, 2, 29), 'A2': ('date', 1900, 3, 1), 'A3': ('date', 2021, 3, 4, 5, 6, 7, 250000),
                         'A4': ('date', 1999, 12, 31, 23, 59, 59), 'B4': '=A3', 'B1': '=YEAR(A1)', 'B2': '=A1-A2', 'B3': '=DATE(2020,1,31)'}, names={}),
    'sheets': dict(cells={'Sheet1!A1': 4, 'Data!A1': 10, 'My Sheet!A1': 7, 'Data!B1': '=A1*2', 'Sheet1!B1': "=Data!B1+'My Sheet'!A1",
                          'Sheet1!C1': '=SUM(Data!A1:B1)', 'My Sheet!B1': '=Sheet1!B1&"x"'}, names={'total': 'Sheet1!$C$1'}),
}
POINTS = ['built', 'uncompiled', 'evaluated', 'overwritten', 'evaluated-then-overwritten', 'evaluated-after-overwrite', 'switched-off']


def full(a):
    return a if '!' in a else 'Sheet1!' + a


def nat(v):
    return datetime.datetime(*v[1:]) if isinstance(v, tuple) else v


def cases_random(tier, seed):
    rng = random.Random(seed + 12)
    n = 12 if tier == 'quick' else 3000
    for i in range(n):
        yield dict(model=f'random:{seed * 100000 + i}', point=rng.choice(POINTS), ext=rng.choice(['.json', '.gz', '.gzip', '.JSON.GZ']))


def model_spec(name):
    if name.startswith('random:'):
        from drivers.gen_models import gen_model
        m = gen_model(int(name.split(':')[1]))
        return dict(cells=m['cells'], names=m['names'])
    return MODELS[name]


def cases(tier, seed):
    for m in MODELS:
        for point in POINTS:
            for ext in ('.json', '.gz', '.gzip', '.JSON.GZ'):
                yield dict(model=m, point=point, ext=ext)


def snapshot(model):
    from drivers.common import observe
    cells = {a: (observe(c.value) if not isinstance(c.value, (list, dict)) else repr(c.value), c.formula.formula if c.formula else None)
             for a, c in model.cells.items()}
    formulae = {a: (f.formula, f.sheet_name, f.evaluate, tuple(f.terms)) for a, f in model.formulae.items()}
    names = {n: (type(d).__name__, getattr(d, 'address_str', None) or d.address) for n, d in model.defined_names.items()}
    ranges = {k: r.cells for k, r in model.ranges.items()}
    return cells, formulae, names, ranges


def oracle(c):
    import xlcalculator
    from xlcalculator import model as M
    from drivers.common import build_model, observe
    spec = model_spec(c['model'])
    cells = {full(k): nat(v) for k, v in spec['cells'].items()}
    try:
        model = build_model(cells, spec['names'] or None, build_code=(c['point'] != 'uncompiled'))
        ev = xlcalculator.Evaluator(model)
        if c['point'] in ('evaluated', 'evaluated-after-overwrite', 'overwritten', 'evaluated-then-overwritten'):
            if c['point'] != 'overwritten':
                for a in list(model.cells):
                    try:
                        ev.evaluate(a)
                    except Exception:      # noqa
                        pass
        if c['point'] in ('overwritten', 'evaluated-after-overwrite', 'evaluated-then-overwritten'):
            first = [a for a in model.cells if model.cells[a].formula is None][0]
            ev.set_cell_value(first, 42)
            if c['point'] == 'evaluated-after-overwrite':
                for a in list(model.cells):
                    try:
                        ev.evaluate(a)
                    except Exception:      # noqa
                        pass
        if c['point'] == 'switched-off':
            # a formula whose evaluation is switched off (XLFormula.evaluate = False): the cell keeps the value it holds
            fcells = [a for a in model.cells if model.cells[a].formula is not None]
            if fcells:
                model.cells[fcells[0]].formula.evaluate = False
                model.cells[fcells[0]].value = 5
        d = tempfile.mkdtemp(dir=os.path.join(ROOT, 'scratch'))
        fn = os.path.join(d, 'model' + c['ext'])
        try:
            model.persist_to_json_file(fn)
            raw = open(fn, 'rb').read(2)
            gz = raw == b'\x1f\x8b'
            want_gz = os.path.splitext(fn)[-1].lower() in ('.gz', '.gzip')
            if gz != want_gz:
                return False, f'compression chosen by the extension ({c["ext"]}: gzip={want_gz})', f'gzip={gz}'
            new = M.Model()
            new.construct_from_json_file(fn, build_code=True)
        finally:
            try:
                os.remove(fn)
                os.rmdir(d)
            except OSError:
                pass
        a, b = snapshot(model), snapshot(new)
        for what, x, y in zip(('cells', 'formulae', 'defined names', 'ranges'), a, b):
            if x != y:
                diff = {k: (x.get(k), y.get(k)) for k in set(x) | set(y) if x.get(k) != y.get(k)}
                return False, f'{what} equal after the round trip', str(diff)[:300]
        if c['point'] == 'uncompiled':
            model.build_code()
        e1, e2 = xlcalculator.Evaluator(model), xlcalculator.Evaluator(new)
        for addr in list(model.cells):
            try:
                v1 = observe(e1.evaluate(addr))
            except Exception as ex:      # noqa
                v1 = ('raise', type(ex).__name__)
            try:
                v2 = observe(e2.evaluate(addr))
            except Exception as ex:      # noqa
                v2 = ('raise', type(ex).__name__)
            if v1 != v2:
                return False, f'{addr} evaluates to {v1} in the restored model', v2
    except Exception as ex:      # noqa
        return False, 'persist / restore completes', f'raise {type(ex).__name__}: {str(ex)[:200]}'
    return True, 'restored model equivalent', 'ok'


DRIVERS = [
    Driver('C12/B2.random', cases_random, oracle, nchunks=6,
           rule='seeded random acyclic models (drivers/gen_models.py: 1-3 sheets incl. a quoted one, constants of every type with holes, formulas over cells / ranges / names) x a random point of the history x a random extension: same checks as B2.roundtrip',
           bound='12 (quick) / 3000 (thorough) models'),
    Driver('C12/B2.roundtrip', cases, oracle, nchunks=6, exhaustive=True,
           rule='3 models (all value types: ints, floats incl. 1e300 / 5e-324 / -0.0, booleans, empty and non-ASCII text, quotes, dates, formulas yielding errors, ranges, defined names; three sheets incl. a quoted one) x 7 points of a build / evaluate / set_cell_value history (incl. evaluate, overwrite, persist without evaluating again; a formula whose evaluation is switched off) x 4 file extensions (.json, .gz, .gzip, .JSON.GZ): compression by extension, equality of cells / formulae (text, sheet, evaluate flag, terms) / names / ranges, equal evaluation of every cell',
           bound='the listed models (complete)'),
]
