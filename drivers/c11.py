"""C11 bounded layer (B3): a workbook file loads into a model with the same cells and formulas.
The .xlsx files are written here as raw SpreadsheetML (zip + XML) - no openpyxl writer in the oracle path - covering
every cell storage form: n, s, str, inlineStr, b, e, formulas with and without cached value, shared-formula master and
members, dates, defined names for cells and ranges, and every subset of ignored sheets."""
import itertools
import os
import tempfile
import zipfile
from xml.sax.saxutils import escape

from pyvc.bounded import Driver

ROOT = os.path.dirname(os.path.dirname(os.path.abspath(__file__)))

CT = '''<?xml version="1.0" encoding="UTF-8" standalone="yes"?>
<Types xmlns="http://schemas.openxmlformats.org/package/2006/content-types">
<Default Extension="rels" ContentType="application/vnd.openxmlformats-package.relationships+xml"/>
<Default Extension="xml" ContentType="application/xml"/>
<Override PartName="/xl/workbook.xml" ContentType="application/vnd.openxmlformats-officedocument.spreadsheetml.sheet.main+xml"/>
%s
<Override PartName="/xl/sharedStrings.xml" ContentType="application/vnd.openxmlformats-officedocument.spreadsheetml.sharedStrings+xml"/>
<Override PartName="/xl/styles.xml" ContentType="application/vnd.openxmlformats-officedocument.spreadsheetml.styles+xml"/>
</Types>'''
RELS = '''<?xml version="1.0" encoding="UTF-8" standalone="yes"?>
<Relationships xmlns="http://schemas.openxmlformats.org/package/2006/relationships">
<Relationship Id="rId1" Type="http://schemas.openxmlformats.org/officeDocument/2006/relationships/officeDocument" Target="xl/workbook.xml"/>
</Relationships>'''
STYLES = '''<?xml version="1.0" encoding="UTF-8" standalone="yes"?>
<styleSheet xmlns="http://schemas.openxmlformats.org/spreadsheetml/2006/main">
<fonts count="1"><font><sz val="11"/><name val="Calibri"/></font></fonts>
<fills count="2"><fill><patternFill patternType="none"/></fill><fill><patternFill patternType="gray125"/></fill></fills>
<borders count="1"><border><left/><right/><top/><bottom/><diagonal/></border></borders>
<cellStyleXfs count="1"><xf numFmtId="0" fontId="0" fillId="0" borderId="0"/></cellStyleXfs>
<cellXfs count="2"><xf numFmtId="0" fontId="0" fillId="0" borderId="0" xfId="0"/><xf numFmtId="14" fontId="0" fillId="0" borderId="0" xfId="0" applyNumberFormat="1"/></cellXfs>
</styleSheet>'''


def write_xlsx(path, sheets, names, date1904=False):
    """sheets: [(title, [cell spec])]; cell spec: dict(r, kind, ...)"""
    sst = []

    def si(text):
        if text not in sst:
            sst.append(text)
        return sst.index(text)
    sheet_xml = []
    for title, cells in sheets:
        rows = {}
        for c in cells:
            rows.setdefault(int(''.join(ch for ch in c['r'] if ch.isdigit())), []).append(c)
        out = ['<?xml version="1.0" encoding="UTF-8" standalone="yes"?>',
               '<worksheet xmlns="http://schemas.openxmlformats.org/spreadsheetml/2006/main"><sheetData>']
        for rn in sorted(rows):
            out.append(f'<row r="{rn}">')
            for c in sorted(rows[rn], key=lambda c: (len(c['r']), c['r'])):
                k, r = c['kind'], c['r']
                if k == 'n':
                    out.append(f'<c r="{r}"><v>{c["v"]!r}</v></c>')
                elif k == 's':
                    out.append(f'<c r="{r}" t="s"><v>{si(c["v"])}</v></c>')
                elif k == 'inlineStr':
                    out.append(f'<c r="{r}" t="inlineStr"><is><t xml:space="preserve">{escape(c["v"])}</t></is></c>')
                elif k == 'b':
                    out.append(f'<c r="{r}" t="b"><v>{int(c["v"])}</v></c>')
                elif k == 'e':
                    out.append(f'<c r="{r}" t="e"><v>{escape(c["v"])}</v></c>')
                elif k == 'date':
                    # (the 1904 date system counts from 1904-01-01: the same day has a serial smaller by 1462)
                    out.append(f'<c r="{r}" s="1"><v>{c["v"] - (1462 if date1904 else 0)}</v></c>')
                elif k == 'f':
                    t = ' t="str"' if isinstance(c.get('cached'), str) else (' t="b"' if isinstance(c.get('cached'), bool) else '')
                    cv = c.get('cached')
                    v = '' if cv is None else f'<v>{escape(str(int(cv) if isinstance(cv, bool) else cv))}</v>'
                    out.append(f'<c r="{r}"{t}><f>{escape(c["f"])}</f>{v}</c>')
                elif k == 'shared-master':
                    out.append(f'<c r="{r}"><f t="shared" ref="{c["ref"]}" si="{c["si"]}">{escape(c["f"])}</f><v>{c["cached"]}</v></c>')
                elif k == 'shared-member':
                    out.append(f'<c r="{r}"><f t="shared" si="{c["si"]}"/><v>{c["cached"]}</v></c>')
            out.append('</row>')
        out.append('</sheetData></worksheet>')
        sheet_xml.append('\n'.join(out))
    wb = ['<?xml version="1.0" encoding="UTF-8" standalone="yes"?>',
          '<workbook xmlns="http://schemas.openxmlformats.org/spreadsheetml/2006/main" xmlns:r="http://schemas.openxmlformats.org/officeDocument/2006/relationships">'
          + ('<workbookPr date1904="1"/>' if date1904 else '') + '<sheets>']
    for i, (title, _) in enumerate(sheets):
        wb.append(f'<sheet name="{escape(title, {chr(34): "&quot;"})}" sheetId="{i + 1}" r:id="rId{i + 1}"/>')
    wb.append('</sheets>')
    if names:
        # a key 'name@k' is a name defined for sheet k only (localSheetId), as Excel makes them when a sheet with named cells is copied
        wb.append('<definedNames>' + ''.join(
            (f'<definedName name="{n.split("@")[0]}" localSheetId="{n.split("@")[1]}">{escape(v)}</definedName>' if '@' in n
             else f'<definedName name="{n}">{escape(v)}</definedName>') for n, v in names.items()) + '</definedNames>')
    wb.append('</workbook>')
    rels = ['<?xml version="1.0" encoding="UTF-8" standalone="yes"?>', '<Relationships xmlns="http://schemas.openxmlformats.org/package/2006/relationships">']
    for i in range(len(sheets)):
        rels.append(f'<Relationship Id="rId{i + 1}" Type="http://schemas.openxmlformats.org/officeDocument/2006/relationships/worksheet" Target="worksheets/sheet{i + 1}.xml"/>')
    n = len(sheets)
    rels.append(f'<Relationship Id="rId{n + 1}" Type="http://schemas.openxmlformats.org/officeDocument/2006/relationships/sharedStrings" Target="sharedStrings.xml"/>')
    rels.append(f'<Relationship Id="rId{n + 2}" Type="http://schemas.openxmlformats.org/officeDocument/2006/relationships/styles" Target="styles.xml"/>')
    rels.append('</Relationships>')
    sst_xml = ('<?xml version="1.0" encoding="UTF-8" standalone="yes"?><sst xmlns="http://schemas.openxmlformats.org/spreadsheetml/2006/main" '
               f'count="{len(sst)}" uniqueCount="{len(sst)}">' + ''.join(f'<si><t xml:space="preserve">{escape(t)}</t></si>' for t in sst) + '</sst>')
    overrides = ''.join(f'<Override PartName="/xl/worksheets/sheet{i + 1}.xml" ContentType="application/vnd.openxmlformats-officedocument.spreadsheetml.worksheet+xml"/>' for i in range(n))
    with zipfile.ZipFile(path, 'w', zipfile.ZIP_DEFLATED) as z:
        z.writestr('[Content_Types].xml', CT % overrides)
        z.writestr('_rels/.rels', RELS)
        z.writestr('xl/workbook.xml', '\n'.join(wb))
        z.writestr('xl/_rels/workbook.xml.rels', '\n'.join(rels))
        z.writestr('xl/styles.xml', STYLES)
        z.writestr('xl/sharedStrings.xml', sst_xml)
        for i, x in enumerate(sheet_xml):
            z.writestr(f'xl/worksheets/sheet{i + 1}.xml', x)


def q(s):
    return s if s.replace('_', '').isalnum() else "'" + s.replace("'", "''") + "'"


def sheet_cells(title, idx, other):
    """cell specs of one sheet + the expected model contents {coord: ('const', v) | ('formula', text, cached)}"""
    cells = [
        dict(r='A1', kind='n', v=idx + 1), dict(r='A2', kind='n', v=2.5), dict(r='A3', kind='s', v='shared text'),
        dict(r='A4', kind='inlineStr', v='inline <text> & "more"'), dict(r='A5', kind='b', v=True), dict(r='A6', kind='b', v=False),
        dict(r='A7', kind='e', v='#DIV/0!'), dict(r='A8', kind='date', v=44000), dict(r='A9', kind='s', v='naïve 日本'),
        dict(r='B1', kind='f', f='A1+A2', cached=idx + 3.5), dict(r='B2', kind='f', f='A3&"x"', cached='shared textx'),
        dict(r='B3', kind='f', f='A1*10', cached=None), dict(r='B4', kind='f', f='A5', cached=True),
        dict(r='B5', kind='f', f='SUM(A1:A2)', cached=idx + 3.5), dict(r='B6', kind='f', f=f'{q(other)}!A1+1', cached=0),
        dict(r='C1', kind='shared-master', f='A1*2', ref='C1:C2', si=0, cached=2 * (idx + 1)), dict(r='C2', kind='shared-member', si=0, cached=5.0),
        dict(r='D1', kind='shared-master', f='$A$1+A1', ref='D1:E1', si=1, cached=2 * (idx + 1)), dict(r='E1', kind='shared-member', si=1, cached=0),
    ]
    import datetime
    exp = {'A1': ('const', idx + 1), 'A2': ('const', 2.5), 'A3': ('const', 'shared text'), 'A4': ('const', 'inline <text> & "more"'),
           'A5': ('const', True), 'A6': ('const', False), 'A7': ('const', '#DIV/0!'), 'A8': ('const', datetime.datetime(2020, 6, 18)),
           'A9': ('const', 'naïve 日本'),
           'B1': ('formula', '=A1+A2', idx + 3.5), 'B2': ('formula', '=A3&"x"', 'shared textx'), 'B3': ('formula', '=A1*10', None),
           'B4': ('formula', '=A5', True), 'B5': ('formula', '=SUM(A1:A2)', idx + 3.5), 'B6': ('formula', f'={q(other)}!A1+1', 0),
           'C1': ('formula', '=A1*2', 2 * (idx + 1)), 'C2': ('formula', '=A2*2', 5.0),
           'D1': ('formula', '=$A$1+A1', 2 * (idx + 1)), 'E1': ('formula', '=$A$1+B1', 0)}
    return cells, exp


TITLES = ['Sheet1', 'My Sheet', "It's", 'Data_2']


def cases(tier, seed):
    for n in (1, 2, 3, 4):
        titles = TITLES[:n]
        for k in range(0, n):
            for ignored in itertools.combinations(titles, k):
                yield dict(titles=titles, ignored=list(ignored), names=(n >= 2))
    yield dict(titles=TITLES[:2], ignored=[], names=True, name_over_empty=True)
    yield dict(titles=TITLES[:2], ignored=[], names=True, date1904=True)            # a workbook in the 1904 date system
    yield dict(titles=TITLES[:1], ignored=[], names=False, date1904=True)


def oracle(c):
    import xlcalculator
    from drivers.common import build_model, observe
    titles = c['titles']
    sheets, expected = [], {}
    for i, t in enumerate(titles):
        cells, exp = sheet_cells(t, i, titles[(i + 1) % len(titles)])
        sheets.append((t, cells))
        if t not in c['ignored']:
            for coord, e in exp.items():
                expected[f'{t}!{coord}'] = e
    names = {}
    if c['names']:
        names = {'first_cell': f'{q(titles[0])}!$A$1', 'a_range': f'{q(titles[0])}!$A$1:$A$2', 'quoted_cell': f'{q(titles[1])}!$A$2'}
    if c.get('name_over_empty'):
        names['sparse_range'] = f'{q(titles[0])}!$A$1:$A$12'
    d = tempfile.mkdtemp(dir=os.path.join(ROOT, 'scratch'))
    fn = os.path.join(d, 'book.xlsx')
    try:
        write_xlsx(fn, sheets, names, date1904=bool(c.get('date1904')))
        try:
            mc = xlcalculator.ModelCompiler()
            model = mc.read_and_parse_archive(fn, ignore_sheets=list(c['ignored']))
        except Exception as ex:      # noqa
            return False, 'the workbook loads', f'raise {type(ex).__name__}: {str(ex)[:200]}'
    finally:
        try:
            os.remove(fn)
            os.rmdir(d)
        except OSError:
            pass
    # 1. one cell per stored cell of every sheet that is not ignored (cells created for ranges are empty extras)
    got = {a: cell for a, cell in model.cells.items() if not (cell.formula is None and cell.value in ('', None))}
    if sorted(got) != sorted(expected):
        return False, f'cells {sorted(expected)[:6]}... ({len(expected)})', f'{sorted(set(got) ^ set(expected))[:10]}'
    ev = xlcalculator.Evaluator(model)
    for a, e in expected.items():
        cell = model.cells[a]
        if e[0] == 'const':
            if cell.formula is not None or cell.value != e[1] or type(cell.value) is not type(e[1]):
                return False, f'{a} holds the constant {e[1]!r}', f'{cell.value!r} formula={cell.formula and cell.formula.formula}'
        else:
            if cell.formula is None or cell.formula.formula != e[1]:
                return False, f'{a} holds the formula {e[1]}', cell.formula and cell.formula.formula
            cached = ev.get_cell_value(a)
            if cached != e[2] or (e[2] is not None and type(cached) is not type(e[2])):
                return False, f'{a}: cached result {e[2]!r} available before evaluation', repr(cached)
    # 2. defined names
    if c['names'] and titles[0] not in c['ignored']:
        dn = model.defined_names
        if 'first_cell' not in dn or getattr(dn['first_cell'], 'address', None) != f'{titles[0]}!A1':
            return False, 'first_cell bound to its cell', repr(dn.get('first_cell'))[:100]
        if 'a_range' not in dn or getattr(dn['a_range'], 'cells', None) != [[f'{titles[0]}!A1'], [f'{titles[0]}!A2']]:
            return False, 'a_range bound to its range', repr(dn.get('a_range'))[:100]
    if c['names'] and titles[1] not in c['ignored']:
        if 'quoted_cell' not in model.defined_names:
            return False, f'quoted_cell bound to {titles[1]}!A2', sorted(model.defined_names)
    # 3. evaluation == a model built directly from the same contents
    direct = build_model({a: (e[1] if e[0] == 'formula' else e[1]) for a, e in expected.items()})
    ev2 = xlcalculator.Evaluator(direct)
    for a in expected:
        try:
            v1 = observe(ev.evaluate(a))
        except Exception as ex:      # noqa
            v1 = ('raise', type(ex).__name__)
        try:
            v2 = observe(ev2.evaluate(a))
        except Exception as ex:      # noqa
            v2 = ('raise', type(ex).__name__)
        if v1 != v2:
            return False, f'{a} evaluates to {v2} as in the directly built model', v1
    return True, 'loaded model equals the generated contents', 'ok'


DRIVERS = [
    Driver('C11/B3.workbooks', cases, oracle, nchunks=8, exhaustive=True,
           rule='1..4 sheets (titles needing quotes included), each with 19 cells covering every storage form (n, s, inlineStr, b, e, date-styled number, non-ASCII shared string, formulas with numeric / string / boolean / no cached value, a range formula, a cross-sheet formula, two shared-formula groups - down a column and across a row with a $ reference), defined names for a cell / a range / a cell on a quoted sheet, every proper subset of ignored sheets; the same in the 1904 date system (date-styled serials smaller by 1462 denote the same days); cell table, cached values before evaluation, names, evaluation == directly built model',
           bound='4 sheets x 19 cells; all subsets of ignored sheets'),
]


# ---- seeded random workbooks (thorough tier: many) ------------------------------------------------------------------------------------------
def cases_random(tier, seed):
    import random
    rng = random.Random(seed + 11)
    n = 10 if tier == 'quick' else 3000
    for i in range(n):
        yield dict(mseed=seed * 100000 + i, ignore_mask=rng.randrange(8), cached=rng.random() < 0.5)


def oracle_random(c):
    """a generated model written as raw SpreadsheetML, loaded, compared with the same contents built directly"""
    import random
    import xlcalculator
    from drivers.common import build_model, observe
    from drivers.gen_models import gen_model
    m = gen_model(c['mseed'])
    rng = random.Random(c['mseed'])
    contents = {a: v for a, v in m['cells'].items() if v != ''}            # (an empty text cell is not a stored value in SpreadsheetML)
    sheets = m['sheets']
    ignored = [s for i, s in enumerate(sheets) if (c['ignore_mask'] >> i) & 1 and s != 'Sheet1']
    # cached results: what a directly built model computes (or none at all)
    direct_all = build_model(dict(contents), None)
    ev_all = xlcalculator.Evaluator(direct_all)
    specs = {s: [] for s in sheets}
    expected = {}
    for a, v in contents.items():
        sh, coord = a.split('!')
        if isinstance(v, str) and v.startswith('='):
            cached = None
            if c['cached']:
                try:
                    o = observe(ev_all.evaluate(a))
                    cached = o[1] if o[0] in ('num', 'text', 'bool') else None
                    if cached == '':
                        # SpreadsheetML stores an empty text result as <v></v>, which the XML layer (openpyxl) reads as "no value": the file
                        # format as read cannot tell it from a formula without a cached result, so none is written and none expected
                        cached = None
                except Exception:      # noqa
                    cached = None
            specs[sh].append(dict(r=coord, kind='f', f=v[1:], cached=cached))
            e = ('formula', v, cached)
        elif isinstance(v, bool):
            specs[sh].append(dict(r=coord, kind='b', v=v))
            e = ('const', v)
        elif isinstance(v, str):
            specs[sh].append(dict(r=coord, kind=rng.choice(['s', 'inlineStr']), v=v))
            e = ('const', v)
        else:
            specs[sh].append(dict(r=coord, kind='n', v=v))
            e = ('const', v)
        if sh not in ignored:
            expected[a] = e
    names = {n: t for n, t in m['names'].items()}
    d = tempfile.mkdtemp(dir=os.path.join(ROOT, 'scratch'))
    fn = os.path.join(d, 'book.xlsx')
    try:
        write_xlsx(fn, [(s, specs[s]) for s in sheets], names)
        try:
            model = xlcalculator.ModelCompiler().read_and_parse_archive(fn, ignore_sheets=list(ignored))
        except Exception as ex:      # noqa
            return False, 'the workbook loads', f'raise {type(ex).__name__}: {str(ex)[:200]}'
    finally:
        try:
            os.remove(fn)
            os.rmdir(d)
        except OSError:
            pass
    got = {a: cell for a, cell in model.cells.items() if not (cell.formula is None and cell.value in ('', None))}
    if sorted(got) != sorted(expected):
        return False, f'cells {sorted(expected)[:6]}... ({len(expected)})', f'{sorted(set(got) ^ set(expected))[:10]}'
    ev = xlcalculator.Evaluator(model)
    for a, e in expected.items():
        cell = model.cells[a]
        if e[0] == 'const':
            if cell.formula is not None or cell.value != e[1] or type(cell.value) is not type(e[1]):
                return False, f'{a} holds the constant {e[1]!r}', f'{cell.value!r}'
        else:
            if cell.formula is None or cell.formula.formula != e[1]:
                return False, f'{a} holds the formula {e[1]}', cell.formula and cell.formula.formula
            cached = ev.get_cell_value(a)
            same = cached == e[2] and (e[2] is None or type(cached) is type(e[2]) or (isinstance(e[2], (int, float)) and not isinstance(e[2], bool) and isinstance(cached, (int, float)) and not isinstance(cached, bool)))
            if not same:
                return False, f'{a}: cached result {e[2]!r} available before evaluation', repr(cached)
    for n, t in names.items():
        sh = t.replace("'", '').split('!')[0]
        if sh in ignored:
            continue
        target = t.replace('$', '').replace("'", '')
        if ':' not in t and target not in expected:
            continue                                   # a name for a hole is not loaded (warning)
        if n not in model.defined_names:
            return False, f'defined name {n} bound to {t}', sorted(model.defined_names)
    # evaluation == a model built directly from the loaded contents (references into ignored sheets read as blank in both)
    direct = build_model({a: e[1] for a, e in expected.items()}, {n: t for n, t in names.items() if n in model.defined_names} or None)
    ev2 = xlcalculator.Evaluator(direct)
    for a in expected:
        try:
            v1 = observe(ev.evaluate(a))
        except Exception as ex:      # noqa
            v1 = ('raise', type(ex).__name__)
        try:
            v2 = observe(ev2.evaluate(a))
        except Exception as ex:      # noqa
            v2 = ('raise', type(ex).__name__)
        if v1 != v2:
            return False, f'{a} evaluates to {v2} as in the directly built model', v1
    return True, 'loaded model equals the generated contents', 'ok'


DRIVERS.append(Driver('C11/B3.random', cases_random, oracle_random, nchunks=8,
                      rule='seeded random workbooks (drivers/gen_models.py contents written as raw SpreadsheetML: n / s / inlineStr / b cells, formulas with or without cached results, holes, 1-3 sheets incl. a quoted one, cell and range names, a random set of ignored sheets): cell table, cached values, names, evaluation == directly built model',
                      bound='10 (quick) / 3000 (thorough) workbooks'))
