"""C06 bounded layer (B4): cycles are reported promptly, acyclic sharing is never flagged, failure reports stay small.
Every case runs in a child process under RLIMIT_AS and a wall-clock limit (a cyclic workbook must not be able to take
the checker down): outcome class value / cycle-exception / other exception / timeout / memory."""
import itertools
import json
import os
import subprocess
import sys

from pyvc.bounded import Driver

ROOT = os.path.dirname(os.path.dirname(os.path.abspath(__file__)))
CELLS = ['A1', 'B1', 'C1', 'D1']

CHILD = r'''
import json, resource, sys, time
resource.setrlimit(resource.RLIMIT_AS, (3 << 30, 3 << 30))
sys.path.insert(0, %(root)r)
sys.setrecursionlimit(3000)
import signal
import xlcalculator
from drivers.common import build_model, observe


class Alarm(Exception):
    pass


def _alarm(s, f):
    raise Alarm()


signal.signal(signal.SIGALRM, _alarm)
jobs = json.loads(sys.argv[1])
for case in jobs:
  signal.alarm(12)
  try:
    model = build_model(case['cells'])
    ev = xlcalculator.Evaluator(model)
    res = {}
    for probe in case['probes']:
        t1 = time.time()
        try:
            v = ev.evaluate(probe)
            res[probe] = dict(kind='value', value=observe(v), secs=time.time() - t1)
        except Alarm:
            raise
        except RecursionError as ex:
            res[probe] = dict(kind='recursion', secs=time.time() - t1, msg_len=len(str(ex)))
        except MemoryError as ex:
            res[probe] = dict(kind='memory', secs=time.time() - t1)
        except Exception as ex:
            msg = str(ex)
            res[probe] = dict(kind='exception', type=type(ex).__name__, cycle=('ycle' in msg or 'ircular' in msg),
                              msg_len=len(msg), head=msg[:160], secs=time.time() - t1)
    out = dict(ok=True, res=res)
  except Alarm:
    out = dict(ok=False, why='no result within 12 s')
  except MemoryError:
    out = dict(ok=False, why='memory')
  except Exception as ex:
    out = dict(ok=False, why=f'{type(ex).__name__}: {str(ex)[:200]}')
  finally:
    signal.alarm(0)
  print('RESULT ' + json.dumps(out), flush=True)
'''


def run_children(jobs, limit=None):
    """-> one result per job; jobs whose child died or hung are re-run alone"""
    code = CHILD % dict(root=ROOT)
    limit = limit or (15 * len(jobs) + 20)
    out = []
    why = ''
    try:
        p = subprocess.run([sys.executable, '-c', code, json.dumps(jobs)], capture_output=True, text=True, timeout=limit,
                           env=dict(os.environ, OMP_NUM_THREADS='1', OPENBLAS_NUM_THREADS='1'))
        out = [json.loads(line[7:]) for line in p.stdout.splitlines() if line.startswith('RESULT ')]
        why = f'child died rc={p.returncode}: {(p.stderr or "")[-300:]}'
    except subprocess.TimeoutExpired as ex:
        txt = ex.stdout.decode() if isinstance(ex.stdout, bytes) else (ex.stdout or '')
        out = [json.loads(line[7:]) for line in txt.splitlines() if line.startswith('RESULT ')]
        why = f'timeout after {limit}s'
    if len(out) == len(jobs):
        return out
    if len(jobs) == 1:
        return [dict(ok=False, why=why)]
    rest = jobs[len(out):]
    return out + run_children(rest[:1]) + (run_children(rest[1:]) if len(rest) > 1 else [])


def run_child(case, limit=20):
    return run_children([case], limit)[0]


def graphs():
    """every digraph on <= 4 cells given as successor lists (cell i's formula adds the cells it points to)"""
    for n in (1, 2, 3, 4):
        nodes = list(range(n))
        pairs = [(i, j) for i in nodes for j in nodes]
        # all edge sets for n <= 3; for n = 4 the edge sets with at most 5 edges
        for k in range(0, len(pairs) + 1 if n <= 3 else 6):
            for edges in itertools.combinations(pairs, k):
                yield n, edges


def reach_cycle(n, edges, start):
    """does evaluating `start` meet a cycle (is a cycle reachable from it)?"""
    succ = {i: [j for (a, j) in edges if a == i] for i in range(n)}
    state = {}

    def dfs(u):
        state[u] = 1
        for v in succ[u]:
            if state.get(v) == 1:
                return True
            if v not in state and dfs(v):
                return True
        state[u] = 2
        return False
    return dfs(start)


def value_of(n, edges, start, memo=None):
    succ = {i: [j for (a, j) in edges if a == i] for i in range(n)}
    memo = {}

    def val(u):
        if u not in memo:
            memo[u] = (u + 1) + sum(val(v) for v in succ[u])
        return memo[u]
    return val(start)


def cases_graphs(tier, seed):
    batch = []
    for n, edges in graphs():
        if tier == 'quick' and n == 4 and len(edges) > 4:
            continue
        batch.append(dict(n=n, edges=[list(e) for e in edges]))          # every cell is used as entry point
        if len(batch) == 60:
            yield dict(kind='batch', graphs=batch)
            batch = []
    if batch:
        yield dict(kind='batch', graphs=batch)
    # cycles closed through ranges, repeated references, diamonds
    yield dict(kind='explicit', cells={'A1': '=SUM(A1:A3)', 'A2': 1, 'A3': 2}, probes=['Sheet1!A1'], cyclic=['Sheet1!A1'])
    yield dict(kind='explicit', cells={'A1': '=SUM(B1:B3)', 'B1': 1, 'B2': '=A1', 'B3': 2}, probes=['Sheet1!A1', 'Sheet1!B2'], cyclic=['Sheet1!A1', 'Sheet1!B2'])
    yield dict(kind='explicit', cells={'A1': '=B1+B1+B1', 'B1': '=C1*C1', 'C1': 3}, probes=['Sheet1!A1'], cyclic=[], values={'Sheet1!A1': 27})
    yield dict(kind='explicit', cells={'A1': '=SUM(B1:B2)+B1+SUM(B1:B2)', 'B1': '=C1', 'B2': '=C1+B1', 'C1': 1}, probes=['Sheet1!A1'], cyclic=[], values={'Sheet1!A1': 7})
    yield dict(kind='explicit', cells={'A1': '=IF(TRUE,1,A1)'}, probes=['Sheet1!A1'], cyclic=[], values={'Sheet1!A1': 1})
    yield dict(kind='explicit', cells={'A1': '=A1'}, probes=['Sheet1!A1'], cyclic=['Sheet1!A1'])
    yield dict(kind='explicit', cells={'A1': '=IF(ISERROR(B1),0,B1)', 'B1': '=A1+1'}, probes=['Sheet1!A1', 'Sheet1!B1'], cyclic=['Sheet1!A1', 'Sheet1!B1'])
    yield dict(kind='explicit', cells={'A1': '=IF(ISERR(SUM(B1:B3)),0,1)', 'B1': 1, 'B2': '=A1', 'B3': 2}, probes=['Sheet1!A1'], cyclic=['Sheet1!A1'])
    yield dict(kind='explicit', cells={'A1': '=IF(ISERROR(B1),0,B1)', 'B1': '=1/0'}, probes=['Sheet1!A1'], cyclic=[], values={'Sheet1!A1': 0})
    yield dict(kind='explicit', cells={'A1': '=Data!A1+1', 'Data!A1': '=Sheet1!A1+1'}, probes=['Sheet1!A1', 'Data!A1'], cyclic=['Sheet1!A1', 'Data!A1'])


def cases_chains(tier, seed):
    for depth in (1, 2, 5, 10, 20, 40, 60):
        for fail in ('unknown-function', 'python-error', 'cycle-at-end'):
            yield dict(kind='chain', depth=depth, fail=fail)
    for depth in (10, 40, 60):
        for at in (1, depth // 2):
            yield dict(kind='chain', depth=depth, fail='unknown-function', at=at)
    # the chain travels through function calls - lazy ones (IF, AND, OR, NOT evaluate the next cell INSIDE the function) and eager ones
    for link in ('twice', 'diamond'):
        for depth in (12, 22, 40):
            for fail in ('unknown-function', 'cycle-at-end'):
                yield dict(kind='chain', depth=depth, fail=fail, link=link)
    # a failure at the end of a chain B whose every level first reads (successfully) a cell of a doubling chain A: A(k+1) = A(k) + A(k)
    for depth in (10, 18, 26, 40):
        for fail in ('unknown-function', 'cycle-at-end'):
            yield dict(kind='shared', depth=depth, fail=fail)
    for link in ('if', 'if-else', 'not', 'and', 'sum', 'range', 'guarded', 'guarded-err', 'guarded-na'):
        for depth in (10, 20, 40):
            for fail in ('unknown-function', 'python-error', 'cycle-at-end'):
                yield dict(kind='chain', depth=depth, fail=fail, link=link)


def _graph_job(g):
    n, edges = g['n'], [tuple(e) for e in g['edges']]
    cells = {}
    for i in range(n):
        terms = [str(i + 1)] + [CELLS[j] for (a, j) in edges if a == i]
        cells[CELLS[i]] = '=' + '+'.join(terms)
    return dict(cells=cells, probes=[f'Sheet1!{CELLS[i]}' for i in range(n)])


def oracle_graphs(c):
    if c['kind'] == 'batch':
        results = run_children([_graph_job(g) for g in c['graphs']])
        for g, r in zip(c['graphs'], results):
            ok, exp, obs = _judge_graph(g, r)
            if not ok:
                return False, exp, obs
        return True, 'cyclic probes report a cycle, acyclic ones a value', f'{len(results)} graphs ok'
    if c['kind'] == 'graph':
        return _judge_graph(c, run_child(_graph_job(c)))
    return _oracle_explicit(c)


def _judge_graph(g, r):
        n, edges = g['n'], [tuple(e) for e in g['edges']]
        probes = [f'Sheet1!{CELLS[i]}' for i in range(n)]
        if not r.get('ok'):
            return False, f'every probe terminates promptly (graph {edges})', r.get('why')
        for i, p in enumerate(probes):
            o = r['res'][p]
            cyc = reach_cycle(n, edges, i)
            if cyc:
                if not (o['kind'] == 'exception' and o['cycle']):
                    return False, f'{p}: an exception reporting a cycle (graph {edges})', o
                if o['secs'] > 5 or o['msg_len'] > 5000:
                    return False, f'{p}: cycle reported promptly with a small message', o
            else:
                exp = ('num', value_of(n, edges, i))
                if not (o['kind'] == 'value' and tuple(o['value']) == exp):
                    return False, f'{p}: value {exp}, no cycle report (acyclic from here; graph {edges})', o
        return True, 'cyclic probes report a cycle, acyclic ones a value', 'ok'


def _oracle_explicit(c):
    r = run_child(dict(cells=c['cells'], probes=c['probes']))
    if not r.get('ok'):
        return False, 'every probe terminates promptly', r.get('why')
    for p in c['probes']:
        o = r['res'][p]
        if p in c['cyclic']:
            if not (o['kind'] == 'exception' and o['cycle'] and o['secs'] < 5):
                return False, f'{p}: prompt exception reporting a cycle', o
        else:
            exp = ('num', c['values'][p])
            if not (o['kind'] == 'value' and tuple(o['value'])[0] == 'num' and abs(o['value'][1] - exp[1]) < 1e-9):
                return False, f'{p}: {exp} and no cycle report', o
    return True, 'ok', 'ok'


def oracle_shared(c):
    d = c['depth']
    cells = {'A1': 1, 'B1': '=NOSUCHFUNCTION(1)' if c['fail'] == 'unknown-function' else f'=B{d}+1'}
    for k in range(1, d):
        cells[f'A{k + 1}'] = f'=A{k}+A{k}'
        cells[f'B{k + 1}'] = f'=A{k}+B{k}'
    r = run_child(dict(cells=cells, probes=[f'Sheet1!B{d}']), limit=30)
    if not r.get('ok'):
        return False, 'the failure is reported promptly', r.get('why')
    o = r['res'][f'Sheet1!B{d}']
    bound = 3000 + 600 * d + 10 * d * d
    if o['kind'] != 'exception':
        return False, f'an exception reporting the failure at depth {d}', o
    if c['fail'] == 'cycle-at-end' and not o['cycle']:
        return False, 'the exception reports a cycle', o
    return (o['secs'] < 5 and o['msg_len'] <= bound), f'reported within 5 s with a message of at most {bound} characters (shared precedents are evaluated once per formula)', o


def oracle_chains(c):
    if c['kind'] == 'shared':
        return oracle_shared(c)
    d = c['depth']
    at = c.get('at', d)
    cells = {}
    link = {'plus': '=A{n}+1', 'if': '=IF(TRUE,A{n},0)', 'if-else': '=IF(1>2,0,A{n}+1)', 'not': '=NOT(A{n})', 'and': '=AND(TRUE,A{n})',
            'sum': '=SUM(A{n},1)', 'range': '=SUM(A{n}:A{n})+1',
            # the everyday guard idioms: a failure (or a cycle) below is not an Excel error value and must not be answered by the guard
            'guarded': '=IF(ISERROR(A{n}),0,A{n}+1)', 'guarded-err': '=IF(ISERR(A{n}),0,A{n}+1)', 'guarded-na': '=IF(ISNA(A{n}),0,A{n}+1)',
            # every level reads the level below twice (directly / through a second cell of its own level)
            'twice': '=A{n}+A{n}', 'diamond': '=A{n}+B{n}'}[c.get('link', 'plus')]
    for i in range(1, d + 1):
        cells[f'A{i}'] = link.format(n=i + 1)
        if c.get('link') == 'diamond':
            cells[f'B{i}'] = f'=A{i + 1}*1' if i > 1 else '=1'
    leaf = {'unknown-function': '=NOSUCHFUNCTION(1)', 'python-error': '=VLOOKUP(1,1,1,TRUE)', 'cycle-at-end': f'=A{max(1, d)}+1'}[c['fail']]
    cells[f'A{at + 1}'] = leaf
    if at < d:
        for i in range(at + 2, d + 2):
            cells.pop(f'A{i}', None)
    r = run_child(dict(cells=cells, probes=['Sheet1!A1']), limit=30)
    if not r.get('ok'):
        return False, 'the failure is reported promptly', r.get('why')
    o = r['res']['Sheet1!A1']
    depth = at + 1
    bound = 3000 + 600 * depth + 10 * depth * depth
    if o['kind'] != 'exception':
        return False, f'an exception reporting the failure at depth {depth}', o
    if c['fail'] == 'cycle-at-end' and not o['cycle']:
        return False, 'the exception reports a cycle', o
    ok = o['secs'] < 5 and o['msg_len'] <= bound
    return ok, f'reported within 5 s with a message of at most {bound} characters (polynomial in depth {depth})', o


DRIVERS = [
    Driver('C06/B4.graphs', cases_graphs, oracle_graphs, nchunks=16,
           rule='every digraph on <= 3 cells and every digraph on 4 cells with <= 5 edges (self references, 2/3/4-cycles, every entry point, diamonds, repeated references), plus cycles closed through ranges / across sheets and an IF whose dead branch refers to itself; each evaluated in a child process with a 20 s / 3 GB limit',
           bound='<= 4 cells'),
    Driver('C06/B4.chains', cases_chains, oracle_chains, nchunks=8,
           rule='dependency chains of depth 1..60 ending in an unknown function / a Python-level error / a cycle, failures half-way, and chains whose links go through IF / NOT / AND (lazy), SUM, one-cell ranges and the guard idioms IF(ISERROR(x),0,x) / ISERR / ISNA, and chains on which every level reads the level below twice (shared precedents): time and message size of the report', bound='depth <= 60'),
]


# ---- several evaluators at work at once: the evaluation path belongs to one evaluator ---------------------------------------------------
def cases_nested(tier, seed):
    for depth in (1, 2, 3):
        for same_address in (True, False):
            for how in ('nested', 'thread'):
                yield dict(depth=depth, same=same_address, how=how)


def oracle_nested(c):
    """An acyclic workbook whose A1 asks, through a user function, for a cell of ANOTHER (acyclic) workbook evaluated by that workbook's own
    evaluator - the same address in both when `same`; or two threads, each with its own workbook and evaluator, the second evaluating while
    the first is inside its formula.  No cycle report may appear; real cycles are still reported."""
    import threading
    import xlcalculator
    from drivers.common import build_model, observe
    inner_cells = {'A1': '=B1+1', 'B1': 41}
    addr = 'Sheet1!A1'
    try:
        if c['how'] == 'nested':
            evs = []
            for level in range(c['depth'] + 1):
                cells = dict(inner_cells) if level == c['depth'] else {('A1' if c['same'] else f'C{level + 1}'): '=EXTERNAL()+1', 'B1': 0}
                evs.append(xlcalculator.Evaluator(build_model(cells)))
            for level in range(c['depth']):
                nxt = evs[level + 1]
                target = addr if (c['same'] or level + 1 == c['depth']) else f'Sheet1!C{level + 2}'
                evs[level].namespace['EXTERNAL'] = (lambda e, t: (lambda: e.evaluate(t)))(nxt, target)
            first = addr if c['same'] else 'Sheet1!C1'
            obs = observe(evs[0].evaluate(first))
            exp = ('num', float(42 + c['depth']))
            return obs == exp, (exp, 'no cycle report: the other workbooks are acyclic'), obs
        inside, go_on, result = threading.Event(), threading.Event(), {}
        ev1 = xlcalculator.Evaluator(build_model({'A1': '=WAIT()+1', 'B1': 0}))
        ev2 = xlcalculator.Evaluator(build_model({('A1' if c['same'] else 'C1'): '=B1+1', 'B1': 41}))

        def WAIT():
            inside.set()
            go_on.wait(10)
            return 1
        ev1.namespace['WAIT'] = WAIT
        t = threading.Thread(target=lambda: result.setdefault('one', observe(ev1.evaluate(addr))))
        t.start()
        inside.wait(10)
        try:
            obs2 = observe(ev2.evaluate(addr if c['same'] else 'Sheet1!C1'))
        finally:
            go_on.set()
            t.join(10)
        ok = obs2 == ('num', 42.0) and result.get('one') == ('num', 2.0)
        return ok, ('42 and 2: two evaluators at work at once do not see each other', ), (obs2, result.get('one'))
    except Exception as ex:     # noqa
        return False, 'a value (acyclic workbooks)', f'raise {type(ex).__name__}: {str(ex)[:200]}'


DRIVERS.append(Driver('C06/B4.several-evaluators', cases_nested, oracle_nested, nchunks=2, exhaustive=True,
                      rule='an acyclic workbook reaching, through a user function in the namespace, a cell of 1-3 other acyclic workbooks each evaluated by its own '
                           'Evaluator (same address in all of them, or different ones); and two threads with their own workbook and evaluator, the second '
                           'evaluating while the first is inside its formula: never a cycle report',
                      bound='nesting depth 3, two threads'))
