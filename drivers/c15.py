"""C15 bounded layer (B4): criteria counting and lookups agree with a linear scan of the range (through formulas)."""
import itertools

from pyvc.bounded import Driver

COLUMNS = [
    [1, 5, -3, 5, 0],
    ['apple', 'Banana', 'APPLE', 'cherry', 'banana'],
    [2, 'b', -2, 'B', 10],
    [3.5, 3.5, 'x', -7, 'X'],
]
NUM_OPERANDS = [5, 0, -3, 3.5, -2, 100]
TXT_OPERANDS = ['apple', 'b', 'X', 'zzz', 'Banana']
PREFIXES = ['', '=', '<>', '<', '<=', '>', '>=']


def key(v):
    if isinstance(v, bool):
        return (2, int(v))
    if isinstance(v, (int, float)):
        return (0, v)
    return (1, v.upper())


def matches(cell, prefix, operand):
    """the statement's criterion semantics by linear-scan reference"""
    kc, ko = key(cell), key(operand)
    if prefix in ('', '='):
        return kc == ko
    if prefix == '<>':
        return kc != ko
    if kc[0] != ko[0]:
        return False                     # an ordering criterion only matches cells of its operand's own type
    return {'<': kc < ko, '<=': kc <= ko, '>': kc > ko, '>=': kc >= ko}[prefix]


def crit_text(prefix, operand):
    return f'{prefix}{operand}'


def cases_countif(tier, seed):
    for ci, col in enumerate(COLUMNS):
        for operand in NUM_OPERANDS + TXT_OPERANDS:
            for prefix in PREFIXES:
                yield dict(kind='countif', col=ci, prefix=prefix, operand=operand, via='text')
            if not isinstance(operand, str):
                yield dict(kind='countif', col=ci, prefix='', operand=operand, via='value')
    for (c1, c2) in ((0, 2), (1, 2), (0, 3), (2, 3)):
        for (p1, o1), (p2, o2) in itertools.product([('>', 0), ('', 5), ('<>', 'apple'), ('<=', 5), ('', 'b')], repeat=2):
            yield dict(kind='countifs', cols=[c1, c2], crits=[[p1, o1], [p2, o2]])


def cases_countifs3(tier, seed):
    """three and four criteria: the conjunction is taken row by row (survivors of the first criteria need not be a prefix)"""
    import random
    rng = random.Random(seed + 153)
    cols = [[1, 1, 5, 1, 0, 7], ['a', 'b', 'A', 'b', 'a', 'B'], [0, 1, 1, 0, 1, 1], [3, -3, 3, -3, 3, 3]]
    crits = [[('>', 0), ('>', 1), ('<>', 1), ('', 1)], [('', 'a'), ('', 'b'), ('<>', 'a')], [('', 1), ('', 0), ('>=', 0)], [('>', 0), ('<', 0)]]
    for c0 in crits[0]:
        for c1 in crits[1]:
            for c2 in crits[2]:
                yield dict(kind='countifs-n', cols=cols[:3], crits=[list(c0), list(c1), list(c2)])
                for c3 in crits[3]:
                    yield dict(kind='countifs-n', cols=cols, crits=[list(c0), list(c1), list(c2), list(c3)])
    for _ in range(40 if tier == 'quick' else 2000):
        n, k = rng.randrange(2, 9), rng.randrange(2, 5)
        cs = [[rng.choice(POOL_N[:8] + POOL_T[:5]) for _ in range(n)] for _ in range(k)]
        cr = [[rng.choice(PREFIXES), rng.choice(col)] for col in cs]
        yield dict(kind='countifs-n', cols=cs, crits=cr)


def oracle_countifs3(c):
    from drivers.common import eval_formula
    cells = {}
    n = len(c['cols'][0])
    parts = []
    for k, col in enumerate(c['cols']):
        L = 'ABCDEFG'[k]
        for i, v in enumerate(col):
            cells[f'{L}{i + 1}'] = v
        p, o = c['crits'][k]
        parts.append(f'{L}1:{L}{n},"{crit_text(p, o)}"')
    f = '=COUNTIFS(' + ','.join(parts) + ')'
    exp = ('num', sum(1 for i in range(n) if all(matches(col[i], c['crits'][k][0], c['crits'][k][1]) for k, col in enumerate(c['cols']))))
    obs = eval_formula(f, cells)
    return obs == exp, (f, exp), obs


def cases_lookup(tier, seed):
    tables = [
        [[1, 'one', 10], [3, 'three', 30], [5, 'five', 50], [7, 'seven', 70]],
        [['a', 1, 'x'], ['b', 2, 'y'], ['B', 3, 'z'], ['c', 4, 'w']],
        [[2, 20, 200], [2, 21, 201], [4, 40, 400]],
    ]
    for ti, t in enumerate(tables):
        keys = sorted({r[0] for r in t}, key=str) + [99, 'nokey']
        for k in keys:
            for col in range(0, len(t[0]) + 2):
                yield dict(kind='vlookup', table=ti, key=k, col=col)
            yield dict(kind='match0', table=ti, key=k)
    asc = [1, 3, 5, 7, 9]
    for k in (0, 1, 2, 3, 4, 8, 9, 10, 100, 5.5):
        yield dict(kind='match1', data=asc, key=k)
    for data in ([10, 20, 20, 30], [5, 5], [1, 1, 1, 2], [0, 0.0, 7]):                     # ascending with equal neighbours
        for k in (data[0] - 1, data[0], data[1], data[-1], data[-1] + 5, (data[0] + data[-1]) / 2):
            yield dict(kind='match1', data=data, key=k)
    for n in range(1, 6):
        for i in list(range(-1, n + 3)) + [1.5, 2.9]:
            yield dict(kind='choose', n=n, i=i)
    for n in (2, 3, 4):                                         # an error among the alternatives counts only when it is the selected one
        for epos in range(n):
            for i in range(0, n + 2):
                yield dict(kind='choose', n=n, i=i, epos=epos)


def _lit(v):
    return '"' + v + '"' if isinstance(v, str) else repr(v)


def oracle(c):
    from drivers.common import eval_formula
    k = c['kind']
    cells = {}
    if k == 'countif':
        col = COLUMNS[c['col']]
        for i, v in enumerate(col):
            cells[f'A{i + 1}'] = v
        crit = crit_text(c['prefix'], c['operand'])
        f = f'=COUNTIF(A1:A{len(col)},"{crit}")' if c['via'] == 'text' else f'=COUNTIF(A1:A{len(col)},{c["operand"]!r})'
        exp = ('num', sum(1 for v in col if matches(v, c['prefix'], c['operand'])))
    elif k == 'countifs':
        (p1, o1), (p2, o2) = c['crits']
        ca, cb = COLUMNS[c['cols'][0]], COLUMNS[c['cols'][1]]
        for i, (x, y) in enumerate(zip(ca, cb)):
            cells[f'A{i + 1}'] = x
            cells[f'B{i + 1}'] = y
        f = f'=COUNTIFS(A1:A5,"{crit_text(p1, o1)}",B1:B5,"{crit_text(p2, o2)}")'
        exp = ('num', sum(1 for x, y in zip(ca, cb) if matches(x, p1, o1) and matches(y, p2, o2)))
    elif k in ('vlookup', 'match0'):
        t = [[1, 'one', 10], [3, 'three', 30], [5, 'five', 50], [7, 'seven', 70]] if c['table'] == 0 else \
            ([['a', 1, 'x'], ['b', 2, 'y'], ['B', 3, 'z'], ['c', 4, 'w']] if c['table'] == 1 else [[2, 20, 200], [2, 21, 201], [4, 40, 400]])
        for r, row in enumerate(t):
            for ci, v in enumerate(row):
                cells[f'{"ABC"[ci]}{r + 1}'] = v
        rows = [r for r in t if key(r[0]) == key(c['key'])]
        if k == 'vlookup':
            f = f'=VLOOKUP({_lit(c["key"])},A1:C{len(t)},{c["col"]},FALSE)'
            if c['col'] < 1 or c['col'] > 3:
                exp = ('anyerr',)
            elif not rows:
                exp = ('err', '#N/A')
            else:
                v = rows[0][c['col'] - 1]
                exp = ('text', v) if isinstance(v, str) else ('num', v)
        else:
            f = f'=MATCH({_lit(c["key"])},A1:A{len(t)},0)'
            exp = ('num', [i for i, r in enumerate(t) if key(r[0]) == key(c['key'])][0] + 1) if rows else ('err', '#N/A')
    elif k == 'match1':
        for i, v in enumerate(c['data']):
            cells[f'A{i + 1}'] = v
        f = f'=MATCH({c["key"]!r},A1:A{len(c["data"])},1)'
        pos = [i for i, v in enumerate(c['data']) if v <= c['key']]
        exp = ('num', pos[-1] + 1) if pos else ('err', '#N/A')
    elif k == 'choose':
        vals = [10 * (j + 1) for j in range(c['n'])]
        if 'epos' in c:
            vals[c['epos']] = '1/0'
        f = f'=CHOOSE({c["i"]!r},{",".join(map(str, vals))})'
        i = int(c['i'])
        if 1 <= c['i'] <= c['n']:
            exp = ('num', vals[i - 1]) if vals[i - 1] != '1/0' else ('err', '#DIV/0!')
        elif c['i'] < 1 or i > c['n']:
            exp = ('err', '#VALUE!')
        else:
            return True, 'index between n and n+1: not in the statement', 'skipped'
    obs = eval_formula(f, cells)
    if exp == ('anyerr',):
        return obs[0] == 'err', 'an error value', obs
    ok = obs == exp or (obs[0] == exp[0] == 'num' and abs(obs[1] - exp[1]) < 1e-9)
    return ok, (f, exp), obs


DRIVERS = [
    Driver('C15/B4.criteria', cases_countif, oracle, nchunks=8,
           rule='COUNTIF over 4 columns (numbers incl. negative and zero, texts in mixed case, mixed columns) x 11 operands (numeric incl. negative, text) x 7 prefixes as criterion text, plus plain numeric values; COUNTIFS over column pairs x 25 criterion pairs; reference = linear scan with the statement\'s semantics',
           bound='columns of 5 cells'),
    Driver('C15/B4.lookups', cases_lookup, oracle, nchunks=4,
           rule='VLOOKUP over 3 tables (numeric keys, text keys differing in case, duplicate keys) x present/absent keys x every column index 0..5; exact MATCH; approximate MATCH on ascending data for keys below / between / on / beyond the data; CHOOSE for n = 1..5 and every index -1..n+2 and fractional ones, and with 1/0 as one of 2-4 alternatives at every position',
           bound='tables of 3-4 rows'),
]


# ---- seeded random columns and tables (longer scans; thorough tier: many) ---------------------------------------------------------------------
POOL_N = [0, 1, -1, 2, 5, 5.0, -3, 3.5, 10, 100, 0.5, -2.5]
POOL_T = ['apple', 'Apple', 'APPLE', 'b', 'B', 'banana', 'x', 'zz', 'cherry']


def cases_random(tier, seed):
    import random
    rng = random.Random(seed + 15)
    n = 60 if tier == 'quick' else 6000
    for i in range(n):
        length = rng.randrange(1, 41)
        mix = rng.choice(['num', 'txt', 'mixed'])
        pool = POOL_N if mix == 'num' else POOL_T if mix == 'txt' else POOL_N + POOL_T
        col = [rng.choice(pool) for _ in range(length)]
        holes = []        # (columns of numbers and texts, as the statement quantifies; what a criterion does with an EMPTY cell is not stated -
        #                      Excel counts blanks for "<>x" - so no holes are generated: found as a false alarm of this driver's first version)
        kind = rng.choice(['countif', 'countif', 'vlookup', 'match0', 'match1'])
        if kind == 'countif':
            yield dict(kind='r-countif', col=col, holes=holes, prefix=rng.choice(PREFIXES), operand=rng.choice(pool))
        elif kind == 'vlookup':
            keys = [rng.choice(pool) for _ in range(min(length, 12))]
            yield dict(kind='r-vlookup', keys=keys, key=rng.choice(keys + [rng.choice(pool)]), col=rng.randrange(1, 4))
        elif kind == 'match0':
            yield dict(kind='r-match0', col=col[:15], key=rng.choice(col + [rng.choice(pool)]))
        else:
            data = sorted(rng.choice(POOL_N) for _ in range(rng.randrange(1, 10)))          # ascending, ties included
            yield dict(kind='r-match1', data=data, key=rng.choice(POOL_N + [1000, -1000]))


def oracle_random(c):
    from drivers.common import eval_formula
    k = c['kind']
    cells = {}
    if k == 'r-countif':
        col = c['col']
        for i, v in enumerate(col):
            if i not in c['holes']:
                cells[f'A{i + 1}'] = v
        crit = crit_text(c['prefix'], c['operand'])
        f = f'=COUNTIF(A1:A{len(col)},"{crit}")'
        exp = ('num', sum(1 for i, v in enumerate(col) if i not in c['holes'] and matches(v, c['prefix'], c['operand'])))
    elif k == 'r-vlookup':
        for r, kv in enumerate(c['keys']):
            cells[f'A{r + 1}'] = kv
            cells[f'B{r + 1}'] = f'v{r + 1}'
            cells[f'C{r + 1}'] = r + 100
        f = f'=VLOOKUP({_lit(c["key"])},A1:C{len(c["keys"])},{c["col"]},FALSE)'
        rows = [r for r, kv in enumerate(c['keys']) if key(kv) == key(c['key'])]
        if not rows:
            exp = ('err', '#N/A')
        else:
            r = rows[0]
            v = [c['keys'][r], f'v{r + 1}', r + 100][c['col'] - 1]
            exp = ('text', v) if isinstance(v, str) else ('num', v)
    elif k == 'r-match0':
        for i, v in enumerate(c['col']):
            cells[f'A{i + 1}'] = v
        f = f'=MATCH({_lit(c["key"])},A1:A{len(c["col"])},0)'
        pos = [i for i, v in enumerate(c['col']) if key(v) == key(c['key'])]
        exp = ('num', pos[0] + 1) if pos else ('err', '#N/A')
    else:
        for i, v in enumerate(c['data']):
            cells[f'A{i + 1}'] = v
        f = f'=MATCH({c["key"]!r},A1:A{len(c["data"])},1)'
        pos = [i for i, v in enumerate(c['data']) if v <= c['key']]
        exp = ('num', pos[-1] + 1) if pos else ('err', '#N/A')
    obs = eval_formula(f, cells)
    ok = obs == exp or (obs[0] == exp[0] == 'num' and abs(obs[1] - exp[1]) < 1e-9)
    return ok, (f, exp), obs


DRIVERS.append(Driver('C15/B4.random', cases_random, oracle_random, nchunks=8,
                      rule='seeded random columns of 1-40 cells (numbers incl. equal ints/floats, texts differing only in case, mixed) x random criterion: COUNTIF == linear scan; random key columns with duplicates: VLOOKUP == first matching row, exact MATCH == first position; approximate MATCH on random ascending data',
                      bound='60 (quick) / 6000 (thorough) cases, columns <= 40 cells'))
DRIVERS.append(Driver('C15/B4.countifs', cases_countifs3, oracle_countifs3, nchunks=6,
                      rule='COUNTIFS with three and four (range, criterion) pairs over columns in which the rows accepted by the first criteria are not a prefix (systematic: 4 x 3 x 3 (x 2) criteria), plus seeded random columns of 2-8 cells x 2-4 criteria: the count of rows satisfying every criterion, by linear scan',
                      bound='columns <= 8 cells, <= 4 criteria'))
