"""C16 bounded layer (B5): math and rounding functions against exact / IEEE reference values.
Oracles: `decimal` on the shortest decimal representation (repr) for the rounding family; mpmath at 60 digits rounded
to binary64 for the elementary functions (tolerance 4 ulp); domain errors must be Excel error values."""
import decimal
import math
import random

from pyvc.bounded import Driver

D = decimal.Decimal


def dec(x):
    return D(repr(x)) if isinstance(x, float) else D(x)


def rnd(x, n, mode):
    q = D(1).scaleb(-n)
    with decimal.localcontext() as ctx:
        ctx.prec = 60
        return float((dec(x) / q).to_integral_value(rounding=mode) * q)


def ref_round_family(f, x, n=0):
    if f == 'ROUND':
        return rnd(x, n, decimal.ROUND_HALF_UP)
    if f == 'ROUNDUP':
        return rnd(x, n, decimal.ROUND_UP)
    if f in ('ROUNDDOWN', 'TRUNC'):
        return rnd(x, n, decimal.ROUND_DOWN)
    if f == 'INT':
        return rnd(x, 0, decimal.ROUND_FLOOR)
    if f == 'EVEN':
        with decimal.localcontext() as ctx:
            ctx.prec = 60
            h = (abs(dec(x)) / 2).to_integral_value(rounding=decimal.ROUND_CEILING) * 2
            return float(h if x >= 0 else -h)
    raise AssertionError(f)


def ref_ceil_floor(f, x, s):
    if s == 0:
        return ('num', 0.0) if f == 'CEILING' or x == 0 else ('err',)
    if x > 0 and s < 0:
        return ('err',)
    with decimal.localcontext() as ctx:
        ctx.prec = 60
        q = dec(x) / dec(s)
        k = q.to_integral_value(rounding=decimal.ROUND_CEILING if f == 'CEILING' else decimal.ROUND_FLOOR)
        return ('num', float(k * dec(s)))


NUMBERS = [0, 1, -1, 2, 0.5, -0.5, 1.5, 2.5, -2.5, 0.125, 1.13, 2.675, 1.005, -1.005, 8.325, 0.285, 1234.5678, -9876.54321,
           123456789.12345, 1e-7, -3e-9, 5e15, 1.23456789012345e10, 0.1, 0.7, 99.995, -0.045, 14.5, 15.5, 1e22, 7, -7, 12, 35, 1e300]
DIGITS = list(range(-10, 11))


def cases_rounding(tier, seed):
    rng = random.Random(seed + 16)
    nums = list(NUMBERS)
    for _ in range(120 if tier == 'quick' else 1500):
        m = rng.randrange(1, 10 ** rng.randrange(1, 16))
        e = rng.randrange(-12, 13)
        nums.append(float(f'{rng.choice(["", "-"])}{m}e{e - len(str(m)) + 1}'))
    for x in nums:
        for f in ('ROUND', 'ROUNDUP', 'ROUNDDOWN', 'TRUNC'):
            for n in DIGITS:
                yield dict(f=f, x=x, n=n)
        for f in ('INT', 'EVEN'):
            yield dict(f=f, x=x)
    for x in nums[:40]:
        for s in (1, 2, 0.5, 0.1, 3, 10, -1, -2, -0.5, 0, 0.25, 7):
            yield dict(f='CEILING', x=x, s=s)
            yield dict(f='FLOOR', x=x, s=s)


UNARY = {
    'ABS': (lambda mp, x: abs(x), None), 'SQRT': (lambda mp, x: mp.sqrt(x), lambda x: x >= 0),
    'EXP': (lambda mp, x: mp.exp(x), lambda x: x < 709.78), 'LN': (lambda mp, x: mp.log(x), lambda x: x > 0),
    'LOG10': (lambda mp, x: mp.log10(x), lambda x: x > 0),
    'SIN': (lambda mp, x: mp.sin(x), None), 'COS': (lambda mp, x: mp.cos(x), None), 'TAN': (lambda mp, x: mp.tan(x), None),
    'ASIN': (lambda mp, x: mp.asin(x), lambda x: -1 <= x <= 1), 'ACOS': (lambda mp, x: mp.acos(x), lambda x: -1 <= x <= 1),
    'ATAN': (lambda mp, x: mp.atan(x), None), 'COSH': (lambda mp, x: mp.cosh(x), None),
    'ASINH': (lambda mp, x: mp.asinh(x), None), 'ACOSH': (lambda mp, x: mp.acosh(x), lambda x: x >= 1),
    'DEGREES': (lambda mp, x: mp.degrees(x), None), 'RADIANS': (lambda mp, x: mp.radians(x), None),
    'SIGN': (lambda mp, x: (x > 0) - (x < 0), None),
}
POINTS = [0, 1, -1, 0.5, -0.5, 2, -2, 1e-10, 1e-300, 3.141592653589793, 1.5707963267948966, 10, 100, 709, 710, 1000, -1000, 1e10,
          0.9999999999999999, 1.0000000000000002, -1.0000000000000002, 1e308, 5e-324, 2.5, 37.3, 123456.789]


def cases_elementary(tier, seed):
    rng = random.Random(seed + 161)
    pts = list(POINTS) + [rng.uniform(-50, 50) for _ in range(40 if tier == 'quick' else 600)] + \
        [rng.uniform(-1, 1) for _ in range(20 if tier == 'quick' else 300)]
    for f in UNARY:
        for x in pts:
            yield dict(f=f, x=x)
    for x in pts[:30]:
        for y in (2, -2, 0.5, -0.5, 3, 0, 1, 10, -1, 1.5):
            yield dict(f='POWER', x=x, y=y)
            yield dict(f='^', x=x, y=y)
            yield dict(f='MOD', x=x, y=y)
            yield dict(f='ATAN2', x=x, y=y)
            yield dict(f='LOG', x=x, y=y)
    # whole-number bases and exponents around the end of the double range (results representable up to 2^1024 exclusive) and float spellings of the same
    for b, e in ((2, 511), (2, 512), (2, 1000), (2, 1023), (2, 1024), (10, 255), (10, 256), (10, 308), (10, 309), (3, 645), (3, 646), (3, 700), (7, 364), (7, 365),
                 (255, 128), (256, 128), (-3, 645), (-2, 1023), (-2, 1024), (1, 1250), (-1, 1251), (0, 5000), (16, 255), (16, 256), (1000, 102), (1000, 103)):
        for f in ('POWER', '^'):
            yield dict(f=f, x=b, y=e)
            yield dict(f=f, x=float(b), y=e)
    for n in list(range(-2, 25)) + [50, 100, 170, 171, 2.9]:
        yield dict(f='FACT', x=n)
        yield dict(f='FACTDOUBLE', x=n)
    yield dict(f='PI')


def ulps(a, b):
    if a == b:
        return 0
    if math.isinf(a) or math.isinf(b) or math.isnan(a) or math.isnan(b):
        return float('inf')
    u = math.ulp(max(abs(a), abs(b), 5e-324))
    return abs(a - b) / u


def _call(f, *args):
    from drivers.common import eval_formula
    if f == '^':
        return eval_formula('=A1^B1', {'A1': args[0], 'B1': args[1]})
    cells = {f'{"ABC"[i]}1': a for i, a in enumerate(args)}
    return eval_formula(f'={f}({",".join("ABC"[i] + "1" for i in range(len(args)))})', cells)


def _num_ok(obs, exp, tol_ulp=0):
    if obs[0] != 'num' or isinstance(obs[1], bool):
        return False
    v = float(obs[1])
    if math.isnan(v) or math.isinf(v):
        return False
    return ulps(v, float(exp)) <= tol_ulp


def oracle_rounding(c):
    f, x = c['f'], c['x']
    if f in ('CEILING', 'FLOOR'):
        exp = ref_ceil_floor(f, x, c['s'])
        obs = _call(f, x, c['s'])
        if exp == ('err',):
            return obs[0] == 'err', 'an error value', obs
        return _num_ok(obs, exp[1]), exp, obs
    n = c.get('n')
    exp = ref_round_family(f, x, n if n is not None else 0)
    obs = _call(f, x, n) if n is not None else _call(f, x)
    return _num_ok(obs, exp), ('num', exp), obs


def oracle_elementary(c):
    import mpmath
    f = c['f']
    mp = mpmath.mp
    mp.dps = 60
    if f == 'PI':
        obs = _call('PI')
        return _num_ok(obs, math.pi, 1), ('num', math.pi), obs
    x = c['x']
    if f in UNARY:
        fn, dom = UNARY[f]
        obs = _call(f, x)
        if dom is not None and not dom(x):
            return obs[0] == 'err', 'an error value (outside the domain)', obs
        try:
            exp = float(fn(mp, mpmath.mpf(x)))
        except Exception:
            return obs[0] == 'err', 'an error value', obs
        if math.isinf(exp):
            return obs[0] == 'err', 'an error value (overflow)', obs
        tol = 4 if f not in ('SIN', 'COS', 'TAN') or abs(x) < 1e6 else 1e30
        return _num_ok(obs, exp, tol), ('num', exp), obs
    y = c.get('y')
    if f in ('POWER', '^'):
        obs = _call(f, x, y)
        if (x == 0 and y < 0) or (x < 0 and y != int(y)):
            return obs[0] == 'err', 'an error value (outside the domain)', obs
        try:
            exp = float(mpmath.power(mpmath.mpf(x), mpmath.mpf(y)))
        except Exception:
            return obs[0] == 'err', 'an error value', obs
        if math.isinf(exp):
            return obs[0] == 'err', 'an error value (overflow)', obs
        return _num_ok(obs, exp, 4), ('num', exp), obs
    if f == 'MOD':
        obs = _call(f, x, y)
        if y == 0:
            return obs[0] == 'err', 'an error value (division by zero)', obs
        with decimal.localcontext() as ctx:
            ctx.prec = 400
            q = (D(x) / D(y)).to_integral_value(rounding=decimal.ROUND_FLOOR)
            exp = float(D(x) - q * D(y))
        ok = _num_ok(obs, exp, 4) and (obs[1] == 0 or (obs[1] > 0) == (y > 0))
        return ok, ('num', exp, 'sign of the divisor'), obs
    if f == 'ATAN2':
        obs = _call(f, x, y)
        if x == 0 and y == 0:
            return obs[0] in ('err', 'num'), 'ATAN2(0,0): error or 0', obs
        exp = float(mpmath.atan2(mpmath.mpf(y), mpmath.mpf(x)))
        return _num_ok(obs, exp, 4), ('num', exp, '= atan2(y, x)'), obs
    if f == 'LOG':
        obs = _call(f, x, y)
        if x <= 0 or y <= 0 or y == 1:
            return obs[0] == 'err', 'an error value (outside the domain)', obs
        exp = float(mpmath.log(mpmath.mpf(x)) / mpmath.log(mpmath.mpf(y)))
        return _num_ok(obs, exp, 4), ('num', exp), obs
    if f in ('FACT', 'FACTDOUBLE'):
        obs = _call(f, x)
        if x < 0:
            return obs[0] == 'err', 'an error value', obs
        n = int(x)
        if f == 'FACT':
            v = math.factorial(n)
        else:
            v = 1
            for k in range(n, 0, -2):
                v *= k
        if v > 1.7976931348623157e308:
            # beyond the double range the library hands back the exact integer: not an infinity, not demanded otherwise
            return obs[0] in ('err', 'num'), 'an error value or the exact integer', obs
        return _num_ok(obs, float(v), 1), ('num', float(v)), obs
    raise AssertionError(f)


DRIVERS = [
    Driver('C16/B5.rounding', cases_rounding, oracle_rounding, nchunks=12,
           rule='ROUND/ROUNDUP/ROUNDDOWN/TRUNC x 35 fixed + 120 (quick) / 1500 (thorough) seeded decimals of up to 15 significant digits x every digit count -10..10; INT, EVEN; CEILING/FLOOR x 12 significances of both signs; exact decimal reference on repr(x)',
           bound='see rule'),
    Driver('C16/B5.elementary', cases_elementary, oracle_elementary, nchunks=8,
           rule='17 unary functions x 26 fixed + seeded points incl. domain edges; POWER, ^, MOD, ATAN2, LOG x 30 x 10 argument pairs; POWER / ^ on 26 whole-number (base, exponent) pairs around the end of the double range, as ints and as floats; FACT/FACTDOUBLE -2..171; mpmath 60-digit reference rounded to binary64, 4 ulp; arguments outside the domain must give an Excel error value, never NaN / infinity / a Python exception',
           bound='see rule'),
]
