"""C20 bounded layer (B3): financial functions against their defining equations (closed forms and residuals)."""
import math
import random

from pyvc.bounded import Driver


def npv(r, flows):
    return sum(c / (1 + r) ** (i + 1) for i, c in enumerate(flows))


def xnpv(r, flows, days):
    return sum(v / (1 + r) ** ((d - days[0]) / 365) for v, d in zip(flows, days))


def bisect(f, lo, hi):
    flo = f(lo)
    for _ in range(200):
        mid = (lo + hi) / 2
        fm = f(mid)
        if (fm > 0) == (flo > 0):
            lo, flo = mid, fm
        else:
            hi = mid
    return (lo + hi) / 2


def pmt_ref(r, n, pv, fv=0.0):
    if r == 0:
        return -(pv + fv) / n
    g = (1 + r) ** n
    return -(r * (pv * g + fv)) / (g - 1)


def pv_ref(r, n, pmt, fv=0.0, typ=0):
    if r == 0:
        return -(fv + pmt * n)
    g = (1 + r) ** n
    return -(fv + pmt * (1 + r * typ) * (g - 1) / r) / g


def gen_flows(rng, n):
    """an initial outlay followed by returns that exceed it (one sign change, positive sum)"""
    outlay = -rng.uniform(100, 10000)
    rest = [rng.uniform(0, 1) for _ in range(n - 1)]
    scale = -outlay * rng.uniform(1.05, 3.0) / sum(rest)
    return [round(outlay, 2)] + [round(x * scale, 2) for x in rest]


def cases(tier, seed):
    # an outlay and returns on every scale of amount and of holding period: the root does not depend on the unit the amounts are stated in,
    # and short periods make it large
    for scale in (1, 1e-3, 1e-6, 0.01, 1e3, 1e6):
        for fl, days in (([-1000, 300, 400, 500], [43831, 44196, 44561, 44926]), ([-1000, 1100], [43831, 43845]), ([-1000, 1100], [43831, 43862]),
                         ([-500, 100, 100, 100, 100, 100, 100], [43831 + 30 * i for i in range(7)]), ([-100, 60, 60], [43831, 43891, 43951]),
                         ([-1.0, 0.3, 0.4, 0.5], [43831, 44196, 44561, 44926]), ([-2] + [1] * 12, [43831 + 91 * i for i in range(13)])):
            yield dict(kind='xirr', flows=[v * scale for v in fl], days=days)
            yield dict(kind='irr', flows=[v * scale for v in fl])
    rng = random.Random(seed + 20)
    N = 150 if tier == 'quick' else 2500
    rates = [0, 0.05, -0.5, -0.89, 1.0, 10, 0.001, 0.12 / 12]
    for i in range(N):
        r = rng.choice(rates) if i % 3 == 0 else rng.uniform(-0.9, 10) if i % 3 == 1 else rng.uniform(-0.2, 0.5)
        n = rng.randrange(1, 31)
        flows = [round(rng.uniform(-1000, 1000), 2) for _ in range(n)]
        flows2 = [round(rng.uniform(-1000, 1000), 2) for _ in range(n)]
        yield dict(kind='npv', r=r, flows=flows, flows2=flows2, a=round(rng.uniform(-3, 3), 3))
        yield dict(kind='annuity', r=(r if r > -0.9 else 0.05), n=rng.randrange(1, 361), pv=round(rng.uniform(-1e6, 1e6), 2),
                   fv=round(rng.choice([0, 0, rng.uniform(-1e5, 1e5)]), 2), typ=rng.choice([0, 0, 1]))
        yield dict(kind='sln', cost=round(rng.uniform(0, 1e6), 2), salvage=round(rng.uniform(0, 1e5), 2), life=rng.choice([1, 5, 10, 0.5, 12.5, rng.randrange(1, 50)]))
        k = rng.randrange(2, 31)
        fl = gen_flows(rng, k)
        yield dict(kind='irr', flows=fl)
        if k >= 3 and i % 2 == 0:
            # a period without a cash flow (a zero) between the outlay and the last return still counts as a period
            z = list(fl)
            z[rng.randrange(1, k - 1)] = 0
            if sum(z) > 0:
                yield dict(kind='irr', flows=z)
        days = [43831]
        for _ in range(k - 1):
            days.append(days[-1] + rng.randrange(1, 400))
        yield dict(kind='xirr', flows=fl, days=days)
        yield dict(kind='xnpv', r=(r if r > -0.9 else 0.07), flows=fl, flows2=gen_flows(rng, k), days=days, a=round(rng.uniform(-3, 3), 3))
        if i % 10 == 0:
            early = [rng.choice([1, 30, 58, 59])]
            for _ in range(k - 1):
                early.append(early[-1] + rng.choice([1, 1, 2, 30]))
            yield dict(kind='xnpv', r=0.1, flows=fl, flows2=gen_flows(rng, k), days=early, a=1.5)
            yield dict(kind='xirr', flows=fl, days=early)


def _num(x):
    from xlcalculator.xlfunctions import func_xltypes as T, xlerrors as E
    if isinstance(x, E.ExcelError):
        return ('err', str(x.value))
    if isinstance(x, T.Number):
        return float(x.value)
    return float(x)


def close(a, b, rel=1e-9, abs_=1e-7):
    return isinstance(a, float) and isinstance(b, float) and abs(a - b) <= max(abs_, rel * max(abs(a), abs(b)))


def oracle(c):
    from xlcalculator.xlfunctions import financial as F, func_xltypes as T
    k = c['kind']
    try:
        if k == 'npv':
            r, fl, fl2, a = c['r'], c['flows'], c['flows2'], c['a']
            got = _num(F.NPV(r, *fl))
            exp = npv(r, fl)
            if not close(got, exp, 1e-9, 1e-6 * (1 + abs(exp))):
                return False, ('NPV', exp), got
            lin = _num(F.NPV(r, *[x + a * y for x, y in zip(fl, fl2)]))
            exp_lin = got + a * _num(F.NPV(r, *fl2))
            if not close(lin, exp_lin, 1e-9, 1e-6 * (1 + abs(exp_lin))):
                return False, ('NPV linear', exp_lin), lin
            z = _num(F.NPV(0, *fl))
            return close(z, float(sum(fl)), 1e-12, 1e-9), ('NPV at rate 0 is the plain sum', sum(fl)), z
        if k == 'annuity':
            r, n, pv, fv, typ = c['r'], c['n'], c['pv'], c['fv'], c['typ']
            try:
                g = (1.0 + r) ** n
            except OverflowError:
                g = float('inf')
            if not math.isfinite(g) or g > 1e250 or g < 1e-6:
                return True, 'growth factor (1+r)^n outside [1e-6, 1e250]: the closed forms are ill-conditioned in binary64', 'skipped'
            p = _num(F.PMT(r, n, pv, fv))
            exp = pmt_ref(r, n, pv, fv)
            if not close(p, exp, 1e-9, 1e-9 * (1 + abs(exp))):
                return False, ('PMT', exp), p
            back = _num(F.PV(r, n, p, fv))
            if not close(back, pv, 1e-7, 1e-6 * (1 + abs(pv))):
                return False, ('PV(r,n,PMT(r,n,pv,fv),fv) = pv', pv), back
            pmt = round(pv / 100, 2)
            v = _num(F.PV(r, n, pmt, fv, typ))
            exp = pv_ref(r, n, pmt, fv, typ)
            if not close(v, exp, 1e-9, 1e-8 * (1 + abs(exp))):
                return False, ('PV', exp, dict(pmt=pmt, typ=typ)), v
            z = (_num(F.PMT(0, n, pv, fv)), _num(F.PV(0, n, pmt, fv)))
            ez = (-(pv + fv) / n, -(fv + pmt * n))
            return close(z[0], ez[0], 1e-12, 1e-7) and close(z[1], ez[1], 1e-12, 1e-7), ('rate 0 reductions', ez), z
        if k == 'sln':
            got = _num(F.SLN(c['cost'], c['salvage'], c['life']))
            exp = (c['cost'] - c['salvage']) / c['life']
            return close(got, exp, 1e-12, 1e-9), ('SLN', exp), got
        if k == 'irr':
            fl = c['flows']
            root = bisect(lambda r: sum(v / (1 + r) ** i for i, v in enumerate(fl)), -0.999999, 1e6)
            if not (-0.9 < root <= 10):
                return True, 'root outside the rate domain (-0.9, 10]', 'skipped'
            got = _num(F.IRR(T.Array([fl])))
            return isinstance(got, float) and abs(got - root) <= 1e-6 * max(1, abs(root)), ('IRR root', root), got
        if k == 'xirr':
            fl, days = c['flows'], c['days']
            root = bisect(lambda r: xnpv(r, fl, days), -0.999999, 1e7)
            if not (-0.9 < root <= 10):
                return True, 'root outside the rate domain (-0.9, 10]', 'skipped'
            got = _num(F.XIRR(T.Array([fl]), T.Array([days])))
            return isinstance(got, float) and abs(got - root) <= 1e-6 * max(1, abs(root)), ('XIRR root', root), got
        if k == 'xnpv':
            r, fl, fl2, days, a = c['r'], c['flows'], c['flows2'], c['days'], c['a']
            got = _num(F.XNPV(r, T.Array([fl]), T.Array([days])))
            exp = xnpv(r, fl, days)
            if not close(got, exp, 1e-9, 1e-6 * (1 + abs(exp))):
                return False, ('XNPV', exp), got
            lin = _num(F.XNPV(r, T.Array([[x + a * y for x, y in zip(fl, fl2)]]), T.Array([days])))
            exp_lin = got + a * _num(F.XNPV(r, T.Array([fl2]), T.Array([days])))
            return close(lin, exp_lin, 1e-9, 1e-6 * (1 + abs(exp_lin))), ('XNPV linear', exp_lin), lin
    except Exception as ex:      # noqa
        return False, 'a value', f'raise {type(ex).__name__}: {str(ex)[:160]}'
    raise AssertionError(k)


DRIVERS = [
    Driver('C20/B3.equations', cases, oracle, nchunks=8,
           rule='7 outlay-and-returns schedules (yearly, 14 / 31 days, monthly, quarterly) x 6 scales of the amounts (1e-6 .. 1e6): IRR / XIRR root; seeded: rates in (-0.9, 10] incl. 0; NPV definition, linearity, rate 0; PMT/PV closed forms with fv and both timings, PV(PMT) inversion, rate-0 reductions; SLN; IRR and XIRR against the bisection root of the reference NPV/XNPV for flows with one sign change and positive sum (<= 30 flows, increasing dates); XNPV definition and linearity',
           bound='150 (quick) / 2500 (thorough) draws of each kind'),
]
