"""Seeded generator of small acyclic models (shared by the thorough tiers of C04, C05, C11, C12, C13).

A model is {cells: {full address: constant | '=formula'}, names: {name: 'Sheet!$A$1' | 'Sheet!$A$1:$A$3'},
inputs: [addresses of numeric constants], deps: {formula cell: set of addresses it mentions directly (ranges expanded,
names resolved)}}.  Acyclic by construction: a formula only mentions cells generated before it.  No volatile functions."""
import random

SHEETS = ['Sheet1', 'Data', 'My Sheet']
TEXTS = ['x', 'naïve', 'ab c', '', 'Z9', '12', 'true']


def q(s):
    return s if s.replace('_', '').isalnum() else "'" + s.replace("'", "''") + "'"


def ref(addr, home, rng, absolute=False):
    sheet, coord = addr.split('!')
    if absolute:
        col = ''.join(ch for ch in coord if ch.isalpha())
        row = coord[len(col):]
        coord = f'${col}${row}'
    if sheet == home and rng.random() < 0.7:
        return coord
    return f'{q(sheet)}!{coord}'


def gen_model(seed, max_sheets=3, size=None):
    rng = random.Random(seed)
    sheets = ['Sheet1'] + [s for s in SHEETS[1:max_sheets] if rng.random() < 0.6]
    cells, deps, numeric, order = {}, {}, [], []
    consts_by_sheet = {}
    for sh in sheets:
        n = rng.randrange(3, 7)
        consts_by_sheet[sh] = []
        for i in range(1, n + 1):
            a = f'{sh}!A{i}'
            kind = rng.random()
            if kind < 0.45:
                v = rng.choice([0, 1, 2, 7, -3, 10, 250])
            elif kind < 0.75:
                v = rng.choice([0.5, 2.5, -1.25, 0.0, 1e6, 3.75])
            elif kind < 0.88:
                v = rng.choice(TEXTS)
            else:
                v = rng.choice([True, False])
            if rng.random() < 0.12 and i > 1:
                continue                                            # a hole: no cell stored at this address
            cells[a] = v
            order.append(a)
            consts_by_sheet[sh].append(a)
            if isinstance(v, (int, float)) and not isinstance(v, bool):
                numeric.append(a)
    names = {}
    if numeric and rng.random() < 0.7:
        a = rng.choice(numeric)
        sh, coord = a.split('!')
        names['in_a'] = f'{q(sh)}!$A${coord[1:]}'
    sh0 = rng.choice(sheets)
    if len(consts_by_sheet[sh0]) >= 2 and rng.random() < 0.6:
        rows = sorted(int(a.split('!')[1][1:]) for a in consts_by_sheet[sh0])
        lo, hi = rows[0], rows[-1]
        names['rng_n'] = f'{q(sh0)}!$A${lo}:$A${hi}'
    nform = size if size is not None else rng.randrange(3, 9)
    avail = list(order)
    for k in range(nform):
        home = rng.choice(sheets)
        col = rng.choice('BCD')
        row = 1 + sum(1 for a in cells if a.startswith(f'{home}!{col}'))
        addr = f'{home}!{col}{row}'
        t = rng.randrange(10)
        d = set()

        def pick():
            a = rng.choice(avail)
            d.add(a)
            return ref(a, home, rng, absolute=rng.random() < 0.2)

        def pick_range():
            sh = rng.choice(sheets)
            rows = sorted(int(a.split('!')[1][1:]) for a in consts_by_sheet[sh]) or [1]
            lo = rng.choice(rows)
            hi = rng.choice([r for r in rows if r >= lo])
            hi = max(hi, lo)
            for r in range(lo, hi + 1):
                d.add(f'{sh}!A{r}')
            text = f'A{lo}:A{hi}'
            return text if (sh == home and rng.random() < 0.6) else f'{q(sh)}!{text}'
        if t == 0:
            f = f'={pick()}+{pick()}'
        elif t == 1:
            f = f'={pick()}*2-{pick()}'
        elif t == 2:
            f = f'=SUM({pick_range()})'
        elif t == 3:
            r_ = pick_range()
            f = f'=MAX({r_})-MIN({r_})'
        elif t == 4:
            a_, b_ = pick(), pick()
            f = f'=IF({a_}>{b_},{a_},{b_})'
        elif t == 5:
            f = f'={pick()}&"|"&{pick()}'
        elif t == 6:
            f = f'=COUNT({pick_range()})+COUNTA({pick_range()})'
        elif t == 7 and 'in_a' in names:
            f = f'=in_a+{pick()}'
            d.add(names['in_a'].replace('$', '').replace("'", ''))
        elif t == 8 and 'rng_n' in names:
            f = f'=SUM(rng_n)+{pick()}'
            sh, rr = names['rng_n'].replace('$', '').replace("'", '').split('!')
            lo, hi = [int(x[1:]) for x in rr.split(':')]
            for r in range(lo, hi + 1):
                d.add(f'{sh}!A{r}')
        else:
            f = f'=AVERAGE({pick()},{pick()},{pick()})'
        cells[addr] = f
        deps[addr] = d
        avail.append(addr)
    return dict(cells=cells, names=names, inputs=numeric, deps=deps, sheets=sheets)


def closure(model, focus):
    """cells reachable from the focus (addresses or names) through the generator's own dependency table"""
    cells, names, deps = model['cells'], model['names'], model['deps']
    todo = []
    for f in focus:
        if f in names:
            t = names[f].replace('$', '').replace("'", '')
            sh, rr = t.split('!')
            if ':' in rr:
                lo, hi = [int(x[1:]) for x in rr.split(':')]
                todo += [f'{sh}!A{r}' for r in range(lo, hi + 1)]
            else:
                todo.append(t)
        else:
            todo.append(f)
    seen = set()
    while todo:
        a = todo.pop()
        if a in seen or a not in cells:
            continue
        seen.add(a)
        todo += list(deps.get(a, ()))
    return seen
