"""C08 bounded layer (B5): functions coerce arguments the Excel way, however the value is spelt.
function x numeric-parameter position x spelling matrix (driven from the real signatures), arithmetic on mixed
types, case-insensitive names / _xlfn. prefix, user-registered functions."""
import inspect

from pyvc.bounded import Driver

SKIP = {'RAND', 'RANDBETWEEN', 'NOW', 'TODAY', 'IF', 'AND', 'OR', 'NOT', 'ISERR', 'ISERROR', 'ISNA', 'NA', 'ISNUMBER', 'ISTEXT',
        'ISBLANK', 'COUNT', 'COUNTA', 'OP_EQ', 'OP_NE', 'OP_LT', 'OP_GT', 'OP_LE', 'OP_GE', 'CHOOSE', 'VDB'}
BASE = {'ACOSH': [2], 'DATE': [2020, 2, 3], 'FACT': [3], 'FACTDOUBLE': [3], 'MID': ['abcdef', 2, 3], 'LEFT': ['abcdef', 2],
        'RIGHT': ['abcdef', 2], 'REPLACE': ['abcdef', 2, 3, 'X'], 'FIND': ['c', 'abcabc', 2], 'WEEKDAY': [44000, 2],
        'YEARFRAC': [44000, 44400, 2], 'EDATE': [44000, 2], 'EOMONTH': [44000, 2], 'DATEDIF': [44000, 44400, 'D'],
        'LOG': [8, 2], 'POWER': [2, 3], 'MOD': [7, 2], 'ROUND': [2.567, 2], 'ROUNDUP': [2.567, 2], 'ROUNDDOWN': [2.567, 2],
        'TRUNC': [2.567, 2], 'CEILING': [2.5, 2], 'FLOOR': [2.5, 2], 'ATAN2': [2, 3], 'PMT': [2, 3, 100, 5, 1], 'PV': [2, 3, 100, 5, 1],
        'SLN': [1000, 100, 2], 'NPV': [2, 100], 'DAYS': [44400, 44000], 'YEAR': [44000], 'MONTH': [44000], 'DAY': [44000],
        'ISOWEEKNUM': [44000], 'DEC2BIN': [5, 8], 'DEC2OCT': [5, 8], 'DEC2HEX': [5, 8], 'EVEN': [3], 'ISEVEN': [2], 'ISODD': [2]}


def _funcs():
    import xlcalculator                                     # noqa
    from xlcalculator.xlfunctions import xl, engineering    # noqa
    return dict(xl.FUNCTIONS)


def numeric_positions(fn):
    from xlcalculator.xlfunctions import func_xltypes as t
    sig = inspect.signature(fn)
    out = []
    params = [p for p in sig.parameters.values() if p.kind in (p.POSITIONAL_ONLY, p.POSITIONAL_OR_KEYWORD) and not p.name.startswith('_')]
    for i, p in enumerate(params):
        if p.annotation in (t.XlNumber, t.Number, t.XlDateTime):
            out.append(i)
    return params, out


def spellings(v):
    """name -> python object spelling the numeric value v"""
    import numpy as np
    from xlcalculator.xlfunctions import func_xltypes as t
    iv = int(v) if float(v).is_integer() else None
    s = {'float': float(v), 'np.float64': np.float64(v), 'Number[float]': t.Number(float(v)), 'text': repr(float(v)),
         'Text': t.Text(repr(float(v))), 'sci-text': f'{float(v):.10E}'}
    if iv is not None:
        s.update({'int': iv, 'np.int64': np.int64(iv), 'Number[int]': t.Number(iv), 'int-text': str(iv), 'Text[int]': t.Text(str(iv))})
        if iv in (0, 1):
            s['bool'] = bool(iv)
            s['Boolean'] = t.Boolean(bool(iv))
        if iv == 0:
            s['Blank'] = t.BLANK
    return s


def cases_matrix(tier, seed):
    for name, fn in sorted(_funcs().items()):
        if name in SKIP:
            continue
        params, pos = numeric_positions(fn)
        if not pos:
            continue
        n_req = len([p for p in params if p.default is p.empty])
        base = BASE.get(name)
        for i in pos:
            vals = [None]
            if base is None or i >= len(base):
                vals = [1, 0, 2.5]
            else:
                vals = [base[i]] + ([1, 0] if name not in BASE else [])
            for v in vals:
                yield dict(kind='matrix', f=name, pos=i, value=v, nparams=max(n_req, i + 1, len(base) if base else 0))
            if tier == 'thorough':
                import random
                import zlib
                rng = random.Random(zlib.crc32(f'{name}/{i}'.encode()) + seed)
                for v in rng.sample([-1, 3, 0.25, 12, 100, 0.001, -2.5, 7, 1, 0, 59, 60, 61, 1e6, 255, 0.5], 8):
                    yield dict(kind='matrix', f=name, pos=i, value=v, extra=True, nparams=max(n_req, i + 1, len(base) if base else 0))
        yield dict(kind='nonnumeric', f=name, pos=pos[0], nparams=max(n_req, pos[0] + 1, len(base) if base else 0))


def _args(name, n, params):
    from xlcalculator.xlfunctions import func_xltypes as t
    base = BASE.get(name)
    out = []
    for i in range(n):
        if base is not None and i < len(base):
            out.append(base[i])
        else:
            a = params[i].annotation
            out.append('abc' if a is t.XlText else (t.Array([[1.0, 2.0]]) if a is t.XlArray else 1))
    return out


def _outcome(fn, args):
    from drivers.common import observe
    try:
        return observe(fn(*args))
    except Exception as ex:      # noqa
        return ('raise', type(ex).__name__)


def _same(a, b):
    if a == b:
        return True
    if a[0] == b[0] == 'num' and a[1] != a[1] and b[1] != b[1]:
        return True             # NaN in every spelling (what the function computes is another property's business)
    if a[0] == b[0] == 'num':
        try:
            return abs(float(a[1]) - float(b[1])) <= 1e-9 * max(1.0, abs(float(b[1])))
        except Exception:
            return False
    return False


def oracle_matrix(c):
    fn = _funcs()[c['f']]
    params, _ = numeric_positions(fn)
    args = _args(c['f'], c['nparams'], params)
    if c['kind'] == 'nonnumeric':
        res = {}
        for bad in ('abc', 'x1', '1abc', ' '):
            a = list(args)
            a[c['pos']] = bad
            res[bad] = _outcome(fn, a)
        ok = all(r == ('err', '#VALUE!') for r in res.values())
        return ok, 'text that is not numeric gives #VALUE!', res
    a = list(args)
    a[c['pos']] = float(c['value'])
    ref = _outcome(fn, a)
    if ref[0] == 'raise' and not c.get('extra'):
        return False, 'a value or an Excel error for the plain float spelling', ref
    # (the extra values of the thorough tier are arbitrary and may lie outside a function's domain - DATE(0.5, ..), a PV timing of
    #  255: what the function does there is not C08's business, only that every spelling does the SAME)
    from xlcalculator.xlfunctions import func_xltypes as t
    is_date = params[c['pos']].annotation is t.XlDateTime
    bad = {}
    for sp, obj in spellings(c['value']).items():
        if is_date and sp in ('bool', 'Boolean', 'Blank'):
            continue        # a parameter declared as a DATE: the statement speaks of parameters declared numeric
        a = list(args)
        a[c['pos']] = obj
        r = _outcome(fn, a)
        if not _same(r, ref):
            bad[sp] = r
    return not bad, f'every spelling of {c["value"]} at position {c["pos"] + 1} gives {ref}', bad


ARITH = [('="3"+1', ('num', 4)), ('=TRUE+1', ('num', 2)), ('=K9+1', ('num', 1)), ('="3"*"4"', ('num', 12)), ('=TRUE*TRUE', ('num', 1)),
         ('="1.5E+1"-5', ('num', 10)), ('=K9*5', ('num', 0)), ('="abc"+1', ('err', '#VALUE!')), ('=-"3"', ('num', -3)),
         ('=10/"4"', ('num', 2.5)), ('=2^"3"', ('num', 8)), ('=FALSE-1', ('num', -1)), ('=1&2', ('textform', 1, 2)),
         ('=TRUE&"x"', ('textform', True, 'x')), ('="a"&K9', ('text', 'a')), ('=1.5&"x"', ('textform', 1.5, 'x'))]
NAMES = [('=sum(1,2)', ('num', 3)), ('=Sum(1,2)', ('num', 3)), ('=SUM(1,2)', ('num', 3)), ('=_xlfn.SUM(1,2)', ('num', 3)),
         ('=_XLFN.sum(1,2)', ('num', 3)), ('=_xlfn.concat("a","b")', ('text', 'ab')), ('=len("abc")', ('num', 3)),
         ('=Upper("a")', ('text', 'A'))]


def cases_formulas(tier, seed):
    for f, exp in ARITH:
        yield dict(kind='arith', formula=f, exp=list(exp))
    for f, exp in NAMES:
        yield dict(kind='names', formula=f, exp=list(exp))
    yield dict(kind='user-registered')


def oracle_formulas(c):
    from drivers.common import eval_formula, observe
    k = c['kind']
    if k in ('arith', 'names'):
        obs = eval_formula(c['formula'])
        exp = tuple(c['exp'])
        if exp[0] == 'textform':
            from xlcalculator.xlfunctions import func_xltypes as t
            exp = ('text', ''.join(str(t.Text.cast(x)) for x in exp[1:]))
        return _same(obs, exp), exp, obs
    # functions added by the user through the registration decorators
    import subprocess, sys, os
    code = '''
import xlcalculator
from xlcalculator.xlfunctions import xl, func_xltypes
from xlcalculator import ModelCompiler, Evaluator
@xl.register()
@xl.validate_args
def ADDONE(num: func_xltypes.XlNumber) -> func_xltypes.XlNumber:
    return num + 1
model = ModelCompiler().read_and_parse_dict({'A1': '=ADDONE("1")', 'A2': '=addone(TRUE)', 'A3': '=ADDONE(B9)', 'A4': '=ADDONE("x")', 'A5': '=ADDONE(#N/A)'})
ev = Evaluator(model)
print([str(ev.evaluate('Sheet1!A%d' % i)) for i in range(1, 6)], ADDONE('1') == 2)
'''
    p = subprocess.run([sys.executable, '-c', code], capture_output=True, text=True, timeout=120,
                       env=dict(os.environ, OMP_NUM_THREADS='1'))
    out = p.stdout.strip().splitlines()[-1] if p.stdout.strip() else 'no output: ' + p.stderr[-300:]
    exp = "['2', '2', '1', '#VALUE!', '#N/A'] True"
    norm = out.replace('2.0', '2').replace('1.0', '1')
    return norm == exp, exp, out


TEXT_FUNCS = {'LEN': lambda f, x: f(x), 'UPPER': lambda f, x: f(x), 'LOWER': lambda f, x: f(x), 'TRIM': lambda f, x: f(x),
              'CONCAT': lambda f, x: f(x, '!'), 'CONCATENATE': lambda f, x: f('<', x), 'LEFT': lambda f, x: f(x, 9),
              'RIGHT': lambda f, x: f(x, 9), 'EXACT': lambda f, x: f(x, 'True'), 'MID': lambda f, x: f(x, 1, 9),
              'FIND': lambda f, x: f('1', x), 'REPLACE': lambda f, x: f(x, 1, 0, '>')}
SEQUENCES = [[1, True, 1.0], [True, 1, 1.0], [1.0, True, 1], [0, False, 0.0], [False, 0.0, 0], [2, 2.0], [True, False, 1, 0]]


def cases_text(tier, seed):
    for f in TEXT_FUNCS:
        for si in range(len(SEQUENCES)):
            yield dict(kind='text-spellings', f=f, seq=si)


def oracle_text(c):
    """text parameters take numbers and booleans by their text form - whatever was converted before"""
    from xlcalculator.xlfunctions import func_xltypes as t
    fn = _funcs()[c['f']]
    call = TEXT_FUNCS[c['f']]
    bad = {}
    for v in SEQUENCES[c['seq']]:
        native = _outcome(lambda *a: call(fn, *a), [v])
        obj = _outcome(lambda *a: call(fn, *a), [t.ExcelType.cast_from_native(v)])
        if not _same(native, obj):
            bad[repr(v)] = (native, obj)
    return not bad, 'the native spelling gives what the library\'s value object gives', bad


DRIVERS = [
    Driver('C08/B5.spellings', cases_matrix, oracle_matrix, nchunks=8, exhaustive=True,
           rule='every registered function with numeric parameters x every such position x values {1, 0, 2.5 or a function-specific base}: int, float, numpy int64/float64, Number[int/float], decimal text, Text object, scientific text, bool/Boolean (for 0/1), Blank (for 0) must all give the result of the plain float; non-numeric text ("abc", "x1", "1abc", " ") gives #VALUE!',
           bound='complete for the registered functions'),
    Driver('C08/B5.text-spellings', cases_text, oracle_text, nchunks=2,
           rule='12 text functions x 7 call sequences over natives that are equal in Python but different Excel values (1 / True / 1.0, 0 / False / 0.0): each native spelling must give what the corresponding value object gives, in every order of calls',
           bound='fixed list'),
    Driver('C08/B5.formulas', cases_formulas, oracle_formulas, nchunks=2,
           rule='arithmetic on numeric text / booleans / blanks, & on mixed types, function names in any case and with the _xlfn. prefix, a user-registered function (fresh interpreter)', bound='fixed list'),
]
