#!/bin/bash
# Builds the overlay venv used by every check: z3-solver / cvc5 from the offline wheelhouse
# plus a .pth making /venv's site-packages (the repository's own dependencies and its
# editable install of /repo) importable.  Offline, idempotent, ~15 s.
set -e
cd "$(dirname "$0")"
if [ ! -x .venv/bin/python ] || ! .venv/bin/python -c "import z3, xlcalculator, jsonschema, mpmath" 2>/dev/null; then
  rm -rf .venv
  /venv/bin/python -m venv .venv
  PIP_NO_INDEX=1 .venv/bin/python -m pip install -q --no-index --find-links /opt/veriftools/wheels \
      z3-solver cvc5 icontract mpmath jsonschema
  echo "import site; site.addsitedir('/venv/lib/python3.12/site-packages')" \
      > .venv/lib/python3.12/site-packages/zz_repo.pth
fi
.venv/bin/python -c "import z3, xlcalculator, jsonschema, mpmath; print('setup ok: z3', z3.get_version_string(), 'repo', xlcalculator.__file__)"
mkdir -p evidence replays
