"""C09  Comparison operators implement one total order on values.

The real `OP_LT/OP_GT/OP_LE/OP_GE` (through `xl.validate_args`), `OP_EQ/OP_NE`, the rich-comparison methods of
`ExcelType` / `Text`, the `_sort_key` overrides and Python's tuple comparison are interpreted from source over
symbolic values of every class pair (triple).  Two families of obligations:

  * per operator: result == the statement's order on keys  Number/DateTime (0, value) < Text (1, UPPER) < Boolean (2, 0/1)
  * the laws of the statement directly on the real code: trichotomy, <=, >=, <>, a<b == b>a, transitivity,
    and the blank clauses (blank = 0, = "", = FALSE, = blank).
"""
import z3

from pyvc.engine import Unit, Case, Fork, Xl, XlBlank, XlDate, Prim
from pyvc import models as M, spec, sym as S
from pyvc.sym import Sym, is_sym, And, Or, Not, Implies, Ite, lift

OPS = 'xlcalculator.xlfunctions.operator'
EPOCH_ORD = 693596      # date(1900, 1, 1).toordinal()

NUM_DOM = [-2, 0, 1, 5]
REAL_DOM = [-1.5, 0.0, 1.0, 2.5]
STR_DOM = ['', 'a', 'A', 'ab', 'B', '1', '5', 'true', 'FALSE', 'é']
NONBLANK = [Xl('Number', 'int', domain=NUM_DOM), Xl('Number', 'real', domain=REAL_DOM), Xl('Text', 'str', domain=STR_DOM),
            Xl('Boolean', 'bool'), XlDate()]


def T():
    return spec.T()


def key(x):
    """the statement's order key of a non-blank value: (type rank, value)"""
    t = T()
    if isinstance(x, t.Number):
        return 0, x.value
    if isinstance(x, t.DateTime):
        v = x.value
        o = v.ord if hasattr(v, 'ord') else v.toordinal()
        d = o - EPOCH_ORD
        return 0, d + Ite(d > 58, 2, 1)          # the serial of a whole date in the 1900 system
    if isinstance(x, t.Text):
        return 1, M.UPPER(x.value)
    if isinstance(x, t.Boolean):
        return 2, Ite(x.value, 1, 0)
    raise AssertionError(x)


def lt(a, b):
    (pa, va), (pb, vb) = key(a), key(b)
    if pa != pb:
        return pa < pb
    return va < vb


def eq(a, b):
    (pa, va), (pb, vb) = key(a), key(b)
    if pa != pb:
        return False
    return spec.eq(va, vb)


SPEC = {'OP_LT': lambda a, b: lt(a, b), 'OP_GT': lambda a, b: lt(b, a), 'OP_EQ': lambda a, b: eq(a, b),
        'OP_NE': lambda a, b: Not(eq(a, b)), 'OP_LE': lambda a, b: Or(lt(a, b), eq(a, b)),
        'OP_GE': lambda a, b: Or(lt(b, a), eq(a, b))}


def op(name):
    from xlcalculator.xlfunctions import operator
    return getattr(operator, name)


UNITS = []
for name in ('OP_LT', 'OP_GT', 'OP_LE', 'OP_GE', 'OP_EQ', 'OP_NE'):
    UNITS.append(Unit(
        id=f'C09/operator.{name}', target=f'{OPS}:{name}', fork='product',
        inputs=[('a', Fork(NONBLANK)), ('b', Fork(NONBLANK))],
        cases=[Case(f'{name}=the total order on (type rank, value)', lambda a, b: True,
                    (lambda nm: lambda a, b, out: spec.is_bool(out, SPEC[nm](a, b)))(name))],
        canary=Case('canary', lambda a, b: True, (lambda nm: lambda a, b, out: spec.is_bool(out, Not(SPEC[nm](a, b))))(name)),
        bounded_domain_cap=400))


def bval(r):
    """truth value carried by an operator result (a Boolean object, or a native bool from OP_EQ on natives)"""
    if isinstance(r, T().Boolean):
        return r.value
    if isinstance(r, bool) or (is_sym(r) and r.k == 'bool'):
        return r
    raise TypeError(f'not a boolean result: {r!r}')


def multi(*names):
    """call several operators on the same operands in one exploration: relational obligations"""
    def call(it, fn, *vals):
        out = []
        for nm, idx in names:
            out.append(it.call(op(nm), [vals[i] for i in idx], {}))
        return tuple(out)

    def native(fn, *vals):
        return tuple(op(nm)(*[vals[i] for i in idx]) for nm, idx in names)
    return call, native


def law(id, arity, names, statement, doc):
    call, native = multi(*names)

    def ens(*a):
        out = a[-1]
        if out.kind != 'ret':
            return False
        try:
            vs = [bval(r) for r in out.value]
        except TypeError:
            return False
        return statement(*vs)
    inputs = [(n, Fork(NONBLANK)) for n in 'abc'[:arity]]
    return Unit(id=f'C09/law.{id}', target=f'{OPS}:{names[0][0]}', fork='product', inputs=inputs,
                cases=[Case(doc, lambda *a: True, ens)], call=call, native_call=native,
                canary=Case('canary', lambda *a: True, lambda *a: False), bounded_domain_cap=300)


def exactly_one(x, y, z):
    return Or(And(x, Not(y), Not(z)), And(Not(x), y, Not(z)), And(Not(x), Not(y), z))


def iff(x, y):
    if is_sym(x) or is_sym(y):
        return Sym(S.B(x) == S.B(y), 'bool')
    return bool(x) == bool(y)


AB, BA, BC, AC = (0, 1), (1, 0), (1, 2), (0, 2)
UNITS += [
    law('trichotomy', 2, [('OP_LT', AB), ('OP_EQ', AB), ('OP_GT', AB)], exactly_one, 'exactly one of a<b, a=b, a>b'),
    law('le', 2, [('OP_LE', AB), ('OP_LT', AB), ('OP_EQ', AB)], lambda le, l, e: iff(le, Or(l, e)), 'a<=b == (a<b or a=b)'),
    law('ge', 2, [('OP_GE', AB), ('OP_GT', AB), ('OP_EQ', AB)], lambda ge, g, e: iff(ge, Or(g, e)), 'a>=b == (a>b or a=b)'),
    law('ne', 2, [('OP_NE', AB), ('OP_EQ', AB)], lambda ne, e: iff(ne, Not(e)), 'a<>b == not(a=b)'),
    law('converse', 2, [('OP_LT', AB), ('OP_GT', BA)], lambda l, g: iff(l, g), 'a<b == b>a'),
    law('transitivity', 3, [('OP_LT', AB), ('OP_LT', BC), ('OP_LT', AC)], lambda x, y, z: Implies(And(x, y), z),
        '< is transitive'),
]

# ---- blank clauses -------------------------------------------------------------------------------------------------
def blank_unit(id, other_shape, expected, doc):
    call, native = multi(('OP_EQ', (0, 1)), ('OP_EQ', (1, 0)))

    def ens(blank, other, out):
        if out.kind != 'ret':
            return False
        try:
            x, y = [bval(r) for r in out.value]
        except TypeError:
            return False
        e = expected(other)
        return And(iff(x, e), iff(y, e))
    return Unit(id=f'C09/blank.{id}', target=f'{OPS}:OP_EQ', inputs=[('blank', XlBlank()), ('other', other_shape)],
                cases=[Case(doc, lambda *a: True, ens)], call=call, native_call=native,
                canary=Case('canary', lambda *a: True, lambda *a: False))


UNITS += [
    blank_unit('number', Fork([Xl('Number', 'int', domain=NUM_DOM), Xl('Number', 'real', domain=REAL_DOM)]),
               lambda o: spec.eq(o.value, 0), 'blank = n  iff  n = 0 (both operand orders)'),
    blank_unit('text', Xl('Text', 'str', domain=STR_DOM), lambda o: spec.eq(o.value, ''), 'blank = t  iff  t is the empty text'),
    blank_unit('boolean', Xl('Boolean', 'bool'), lambda o: Not(o.value), 'blank = b  iff  b is FALSE'),
    blank_unit('blank', XlBlank(), lambda o: True, 'two blanks are equal'),
]
