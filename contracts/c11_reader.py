"""C11  A workbook file loads into a model with the same cells and formulas - what contracts on the reader glue decide.

The XML parsing is openpyxl's (external, trusted; exercised end-to-end by the bounded layer on raw SpreadsheetML files).
The repository's own part is interpreted from source:

  read_cells      `Reader.read_cells` over a workbook of two sheets x two stored cells whose sheet titles, coordinates,
                  values, formula texts and cached values are all SYMBOLIC, every cell storage class (plain value /
                  formula / array formula) and an arbitrary ignored title: exactly one cell per stored cell of every sheet
                  that is not ignored, addressed `<title>!<coordinate>`, holding its constant, or its formula text
                  (made for ITS OWN sheet) together with the cached result; `formulae` lists exactly the formula cells,
                  with the very formula object of the cell; an ignored sheet contributes nothing
  defined names   `Reader.read_defined_names`: every visible name with a target is handed over under its own name
                  (symbolic name and target); hidden names and #REF! are skipped
  parse_archive   the tables read are the tables of the model (same objects), names are bound, linked, and ranges built,
                  in that order
  bind names      `ModelCompiler.build_defined_names` for every shape of target (cell, $-cell, quoted sheet, range, cell
                  on a sheet that was not loaded) with a SYMBOLIC name: a cell name is bound to the cell object of that
                  address and a formula cell's formula is also reachable under the name; a range name is an XLRange over
                  the target without `$`; a name for an absent cell is skipped without failing
"""
from pyvc.engine import Unit, Case, Fork, Prim, Const
from pyvc.interp import ModelFn, Stub
from pyvc import spec, sym as S, models as M
from pyvc.sym import Sym, is_sym, And, Or, Not, Implies, Ite

UNITS = []
KINDS = ['n', 's', 'b', 'd', 'e', 'f', 'fa']


class Book(dict):
    pass


class Obj:
    def __init__(self, **kw):
        self.__dict__.update(kw)


def stub(label, **kw):
    st = Stub(label)
    for k, v in kw.items():
        object.__setattr__(st, k, v)
    return st


def mk_cell(native, kind, coord, value, text, cached):
    import openpyxl
    mk = (lambda **kw: Obj(**kw)) if native else (lambda **kw: stub('cell', **kw))
    if kind == 'f':
        return mk(coordinate=coord, data_type='f', value=text, cvalue=cached)
    if kind == 'fa':
        af = openpyxl.worksheet.formula.ArrayFormula('A1:B2', None)
        af.text = text
        return mk(coordinate=coord, data_type='f', value=af, cvalue=cached)
    return mk(coordinate=coord, data_type=kind, value=value)


C1, C2 = 'AB12', 'B2'            # the stored coordinates (concrete: openpyxl hands out well-formed coordinates)


def read_cells_call(native, k1, k2):
    def call(it, fn, s1, s2, g, g2, v, text, cached):
        from xlcalculator import reader, xltypes
        sheets = {}
        for s, k in ((s1, k1), (s2, k2)):
            cells = {(1, 1): mk_cell(native, k, C1, v, text, cached), (2, 2): mk_cell(native, 'n', C2, v, text, cached)}
            sheets[s] = Obj(_cells=cells) if native else Stub('sheet', _cells=cells)
        book = Book(sheets)
        book.sheetnames = [s1, s2]
        rd = reader.Reader('workbook.xlsx')            # the real constructor only stores the file name
        rd.book = book

        def XLFormula(formula, sheet_name=None, *a, **k):
            return (Obj if native else (lambda **kw: stub('XLFormula', **kw)))(formula=formula, sheet_name=sheet_name)

        def XLCell(address, value=None, formula=None, **k):
            return (Obj if native else (lambda **kw: stub('XLCell', **kw)))(address=address, value=value, formula=formula)
        if native:
            real = (xltypes.XLFormula, xltypes.XLCell)
            try:
                xltypes.XLFormula, xltypes.XLCell = XLFormula, XLCell
                res = rd.read_cells([g, g2])
            finally:
                xltypes.XLFormula, xltypes.XLCell = real
        else:
            it.call_contracts[xltypes.XLFormula] = ModelFn(lambda it_, *a, **k: XLFormula(*a, **k), 'XLFormula')
            it.call_contracts[xltypes.XLCell] = ModelFn(lambda it_, *a, **k: XLCell(*a, **k), 'XLCell')
            res = it.call(reader.Reader.read_cells, [rd, [g, g2]], {})
        return dict(res=res)
    if native:
        return lambda fn, *a: call(None, fn, *a)
    return call


def read_cells_req(s1, s2, g, g2, v, text, cached):
    return Not(spec.eq(s1, s2))                       # the sheet titles of one workbook are distinct


def _same(a, b):
    if a is b:
        return True
    if is_sym(a) or is_sym(b):
        return spec.eq(a, b)
    return type(a) is type(b) and a == b


def _addr(s, c):
    return S.concat(s, '!' + c) if is_sym(s) else f'{s}!{c}'


def _sheet_matches(pair, formulae, s, k, v, text, cached):
    """the two entries are exactly the two stored cells of sheet `s` (first of storage class k, second a plain value)"""
    conj = []
    for (key, cell), c, kind in zip(pair, (C1, C2), (k, 'n')):
        conj.append(_same(key, _addr(s, c)))
        conj.append(_same(cell.address, key))
        if kind in ('f', 'fa'):
            f = cell.formula
            if f is None or not any(kk is key and ff is f for kk, ff in formulae.items()):
                return False
            conj += [_same(f.formula, text), _same(f.sheet_name, s), _same(cell.value, cached)]
        else:
            if cell.formula is not None or any(kk is key for kk in formulae):
                return False
            conj.append(_same(cell.value, v))
    return And(*conj)


def read_cells_ens(k1, k2):
    def ens(s1, s2, g, g2, v, text, cached, out):
        if out.kind != 'ret':
            return False
        r = out.value['res']
        if not (isinstance(r, (list, tuple)) and len(r) == 3):
            return False
        cells, formulae, ranges = r
        if ranges != {}:
            return False
        ig1, ig2 = Or(spec.eq(s1, g), spec.eq(s1, g2)), Or(spec.eq(s2, g), spec.eq(s2, g2))
        e = list(cells.items())
        if len(formulae) != sum(1 for _, c in e if c.formula is not None):
            return False
        m1 = lambda pair: _sheet_matches(pair, formulae, s1, k1, v, text, cached)
        m2 = lambda pair: _sheet_matches(pair, formulae, s2, k2, v, text, cached)
        if len(e) == 4:
            return And(Not(ig1), Not(ig2), m1(e[:2]), m2(e[2:]))
        if len(e) == 2:
            return Or(And(Not(ig1), ig2, m1(e)), And(ig1, Not(ig2), m2(e)))
        if len(e) == 0:
            return And(ig1, ig2)
        return False
    return ens


STR = lambda dom: Prim('str', domain=dom)
for _k1 in KINDS:
    for _k2 in ('n', 'f'):
        UNITS.append(Unit(
            id=f'C11/reader.Reader.read_cells[{_k1}|{_k2}]', target='xlcalculator.reader:Reader.read_cells',
            inputs=[('s1', STR(['Sheet1', 'My Sheet', "O'Brien"])), ('s2', STR(['Data', 'Sheet1', 'Ünï'])), ('g', STR(['Data', 'Sheet1', 'nope'])), ('g2', STR(['Sheet1', 'Data', 'other'])),
                    ('v', Fork([Prim('real', domain=[2.5, 0.0]), Prim('str', domain=['', 'txt', '#N/A']), Prim('bool'), Prim('int', domain=[0, 7])])),
                    ('text', STR(['=A1+1', '=SUM(B2:C3)'])), ('cached', Fork([Prim('real', domain=[3.5]), Prim('str', domain=['x']), Const(None, 'no cached value')]))],
            requires=read_cells_req, fork='star',
            cases=[Case('one cell per stored cell of every sheet that is not ignored, addressed title!coordinate, holding its constant or its formula text (for its own sheet) with the cached result; ignored sheets contribute nothing',
                        lambda *a: True, read_cells_ens(_k1, _k2))],
            call=read_cells_call(False, _k1, _k2), native_call=read_cells_call(True, _k1, _k2),
            cross_key=lambda r: repr(sorted(map(repr, r['res'][0]))) if isinstance(r, dict) else repr(r), bounded_domain_cap=150))


# ---- read_defined_names ---------------------------------------------------------------------------------------------------------------
def names_call(native, hidden2):
    def call(it, fn, n1, t1, n2, t2):
        from xlcalculator import reader
        mk = (lambda **kw: Obj(**kw)) if native else (lambda **kw: stub('defn', **kw))
        d1 = mk(name=n1, value=t1, hidden=None)
        d2 = mk(name=n2, value=t2, hidden=(True if hidden2 else None))
        book = Obj(defined_names={'k1': d1, 'k2': d2}) if native else Stub('book', defined_names={'k1': d1, 'k2': d2})
        rd = reader.Reader('workbook.xlsx')            # the real constructor only stores the file name
        rd.book = book
        return rd.read_defined_names() if native else it.call(reader.Reader.read_defined_names, [rd], {})
    if native:
        return lambda fn, *a: call(None, fn, *a)
    return call


def names_ens(hidden2):
    def match(items, visible):
        if not visible:
            return len(items) == 0
        (n, t), rest = visible[0], visible[1:]
        ref = spec.eq(t, '#REF!')
        skipped = And(ref, match(items, rest))
        if not items:
            return skipped
        return Or(skipped, And(Not(ref), _same(items[0][0], n), _same(items[0][1], t), match(items[1:], rest)))

    def ens(n1, t1, n2, t2, out):
        if out.kind != 'ret' or not isinstance(out.value, dict):
            return False
        return match(list(out.value.items()), [(n1, t1)] + ([] if hidden2 else [(n2, t2)]))
    return ens


for _h in (False, True):
    UNITS.append(Unit(
        id=f'C11/reader.Reader.read_defined_names[second hidden={_h}]', target='xlcalculator.reader:Reader.read_defined_names',
        inputs=[('n1', STR(['rate', 'Total'])), ('t1', STR(['Sheet1!$A$1', '#REF!', "'My Sheet'!$B$2:$C$3"])), ('n2', STR(['other', 'x_1'])),
                ('t2', STR(['Data!$B$2', '#REF!']))],
        requires=lambda n1, t1, n2, t2: Not(spec.eq(n1, n2)),
        cases=[Case('every visible defined name with a target is handed over under its own name with its own target; hidden names and #REF! targets are skipped',
                    lambda *a: True, names_ens(_h))],
        call=names_call(False, _h), native_call=names_call(True, _h), cross_key=lambda r: repr(sorted(r.items())) if isinstance(r, dict) else repr(r)))


# ---- parse_archive glue ---------------------------------------------------------------------------------------------------------------
def parse_call(native):
    def call(it, fn):
        from xlcalculator import model as Mo
        log = []
        cells, formulae, ranges, names = {'c': 1}, {'f': 1}, {}, {'n': 'Sheet1!A1'}
        mc = Mo.ModelCompiler()

        def read_cells(*a):
            log.append(('read_cells',) + tuple(a[-2:]))
            return [cells, formulae, ranges]

        def read_names(*a):
            log.append(('read_defined_names',) + tuple(a[-2:]))
            return names

        def step(name):
            def f(*a, **k):
                log.append((name, mc.model.cells is cells, mc.model.formulae is formulae, mc.model.ranges is ranges, getattr(mc, 'defined_names', None) is names))
            return f
        if native:
            arch = Obj(read_cells=lambda *a: read_cells(*a), read_defined_names=lambda *a: read_names(*a))
            mc.build_defined_names, mc.link_cells_to_defined_names, mc.build_ranges = step('build_defined_names'), step('link'), step('build_ranges')
            mc.parse_archive(arch, ignore_sheets=['X'], ignore_hidden=False)
        else:
            arch = Stub('archive', read_cells=ModelFn(lambda it_, *a: read_cells(*a), 'read_cells'), read_defined_names=ModelFn(lambda it_, *a: read_names(*a), 'read_defined_names'))
            it.call_contracts[Mo.ModelCompiler.build_defined_names] = ModelFn(lambda it_, s: step('build_defined_names')(), 'build_defined_names')
            it.call_contracts[Mo.ModelCompiler.link_cells_to_defined_names] = ModelFn(lambda it_, s: step('link')(), 'link')
            it.call_contracts[Mo.ModelCompiler.build_ranges] = ModelFn(lambda it_, s, **k: step('build_ranges')(), 'build_ranges')
            it.call(Mo.ModelCompiler.parse_archive, [mc, arch], {'ignore_sheets': ['X'], 'ignore_hidden': False})
        return log
    if native:
        return lambda fn: call(None, fn)
    return call


UNITS.append(Unit(
    id='C11/model.ModelCompiler.parse_archive', target='xlcalculator.model:ModelCompiler.parse_archive', inputs=[],
    cases=[Case('the tables read from the archive (with the caller\'s ignore list) ARE the model\'s tables; then names are bound, cells linked, ranges built - in that order',
                lambda: True,
                lambda out: out.kind == 'ret' and out.value == [('read_cells', ['X'], False), ('read_defined_names', ['X'], False),
                                                              ('build_defined_names', True, True, True, True), ('link', True, True, True, True),
                                                              ('build_ranges', True, True, True, True)])],
    call=parse_call(False), native_call=parse_call(True)))


# ---- build_defined_names ---------------------------------------------------------------------------------------------------------------
TARGETS = {
    'cell': ('Sheet1!$A$1', 'Sheet1!A1'), 'plain cell': ('Sheet1!B2', 'Sheet1!B2'), 'quoted sheet': ("'My Sheet'!$C$3", 'My Sheet!C3'),
    'formula cell': ('Data!$D$4', 'Data!D4'), 'range': ('Sheet1!$A$1:$B$2', 'Sheet1!A1:B2'), "quoted range": ("'My Sheet'!$C$3:$C$5", "'My Sheet'!C3:C5"),
    'absent cell': ('Gone!$A$1', None),
}


def bind_call(native, form):
    def call(it, fn, name, v):
        from xlcalculator import model as Mo, xltypes
        mc = Mo.ModelCompiler()
        f = xltypes.XLFormula('=A1+1', 'Data')
        for addr in ('Sheet1!A1', 'Sheet1!B2', 'My Sheet!C3'):
            mc.model.cells[addr] = xltypes.XLCell(addr, None)
            mc.model.cells[addr].value = v
        mc.model.cells['Data!D4'] = xltypes.XLCell('Data!D4', None, formula=f)
        mc.model.formulae['Data!D4'] = f
        mc.defined_names = {name: TARGETS[form][0]}
        if native:
            mc.build_defined_names()
        else:
            it.call(Mo.ModelCompiler.build_defined_names, [mc], {})
        return dict(mc=mc, f=f, name=name)
    if native:
        return lambda fn, *a: call(None, fn, *a)
    return call


def bind_ens(form):
    def ens(name, v, out):
        from xlcalculator import xltypes
        if out.kind != 'ret':
            return False
        mc, f = out.value['mc'], out.value['f']
        dn = mc.model.defined_names
        target, addr = TARGETS[form]
        if addr is None:
            return len(dn) == 0 and len(mc.model.formulae) == 1
        if len(dn) != 1:
            return False
        (k, d), = dn.items()
        if not (k is name or (not is_sym(name) and k == name)):
            return False
        if ':' in addr:
            return isinstance(d, xltypes.XLRange) and d.address_str == addr and mc.model.ranges.get(addr) is d and d.name == k
        if d is not mc.model.cells[addr]:
            return False
        if form == 'formula cell':
            return any((kk is name or (not is_sym(name) and kk == name)) and ff is f for kk, ff in mc.model.formulae.items())
        return len(mc.model.formulae) == 1
    return ens


for _form in TARGETS:
    UNITS.append(Unit(
        id=f'C11/model.ModelCompiler.build_defined_names[{_form}]', target='xlcalculator.model:ModelCompiler.build_defined_names',
        inputs=[('name', STR(['rate', 'Total_1', 'x'])), ('v', Fork([Prim('real', domain=[1.5]), Prim('str', domain=['t'])]))],
        # a defined name is never spelt like a cell address that exists (Excel rejects such names)
        requires=lambda name, v: And(*[Not(spec.eq(name, a)) for a in ('Sheet1!A1', 'Sheet1!B2', 'My Sheet!C3', 'Data!D4')]),
        cases=[Case('the name is bound to the cell object at its target (the formula of a formula cell is reachable under the name), or to a range over the target without $; a name for an absent cell is skipped',
                    lambda *a: True, bind_ens(_form))],
        call=bind_call(False, _form), native_call=bind_call(True, _form),
        cross_key=lambda r: (sorted(map(str, r['mc'].model.defined_names)), sorted(map(str, r['mc'].model.formulae))) if isinstance(r, dict) else repr(r)))


# ---- the repository's own worksheet reader (patch.py): what openpyxl's parser hands out is what the sheet holds -----------------------------
# `WorksheetReader.bind_cells` sits between openpyxl's XML parser (external, trusted) and the book that `Reader.read_cells` walks: every parsed
# cell - whatever its value: 0, 0.0, FALSE and the empty text as much as any other - becomes ONE cell of the sheet at its own (row, column) holding
# the parsed value and data type, a formula cell also its cached result.  openpyxl's Cell constructor (external) is replaced by a stand-in that records the arguments it is given.
def bind_call(native, kind):
    def call(it, fn, v, text, cached):
        from xlcalculator import patch
        style = object()
        parsed = [dict(row=1, column=1, value=(text if kind == 'f' else v), data_type=kind, style_id=0),
                  dict(row=1, column=3, value=v, data_type='n', style_id=0),
                  dict(row=2, column=2, value=7, data_type='n', style_id=0)]
        if kind == 'f':
            parsed[0]['cvalue'] = cached
        rows = [(1, parsed[:2]), (2, parsed[2:])]
        made = []

        def mkcell(ws_, row=None, column=None, style_array=None, **k):
            c = Obj(parent=ws_, row=row, column=column, style=style_array, _value=None, data_type='n')
            made.append(c)
            return c
        rd = patch.WorksheetReader.__new__(patch.WorksheetReader)
        if native:
            ws = Obj(parent=Obj(_cell_styles=[style]), _cells={}, max_row=2, _current_row=0)
            rd.ws, rd.parser = ws, Obj(parse=lambda: iter(rows))
            real = patch.Cell
            try:
                patch.Cell = mkcell
                rd.bind_cells()
            finally:
                patch.Cell = real
        else:
            ws = Stub('ws', parent=Stub('book', _cell_styles=[style]), _cells={}, max_row=2, _current_row=0)
            rd.ws, rd.parser = ws, Stub('parser', parse=ModelFn(lambda it_: list(rows), 'parser.parse'))
            it.call_contracts[patch.Cell] = ModelFn(lambda it_, *a, **k: mkcell(*a, **k), 'openpyxl Cell')
            it.call(patch.WorksheetReader.bind_cells, [rd], {})
        return dict(cells=ws._cells, current_row=ws._current_row, style=style, ws=ws)
    if native:
        return lambda fn, *a: call(None, fn, *a)
    return call


def bind_ens(kind):
    def ens(v, text, cached, out):
        if out.kind != 'ret':
            return False
        o = out.value
        cells = o['cells']
        if sorted(cells) != [(1, 1), (1, 3), (2, 2)] or o['current_row'] != 2:
            return False
        conj = []
        for (r, c), val, dt in (((1, 1), text if kind == 'f' else v, kind), ((1, 3), v, 'n'), ((2, 2), 7, 'n')):
            cell = cells[(r, c)]
            if (cell.row, cell.column) != (r, c) or cell.parent is not o['ws'] or cell.style is not o['style'] or cell.data_type != dt:
                return False
            conj.append(_same(cell._value, val))
            if dt == 'f':
                if not hasattr(cell, 'cvalue'):
                    return False
                conj.append(_same(cell.cvalue, cached))
            elif hasattr(cell, 'cvalue'):
                return False
        return And(*conj)
    return ens


for _k in ('n', 's', 'b', 'f'):
    UNITS.append(Unit(
        id=f'C11/patch.WorksheetReader.bind_cells[{_k}]', target='xlcalculator.patch:WorksheetReader.bind_cells',
        inputs=[('v', Fork([Prim('real', domain=[2.5, 0.0]), Prim('str', domain=['', 'txt']), Prim('bool'), Prim('int', domain=[0, 7])])),
                ('text', STR(['=A1+1', '=SUM(B2:C3)'])), ('cached', Fork([Prim('real', domain=[3.5, 0.0]), Prim('str', domain=['x', '']), Prim('bool'), Const(None, 'no cached value')]))],
        fork='star',
        cases=[Case('every parsed cell becomes one cell of the sheet at its own (row, column) with the parsed value and data type - zero, FALSE and the '
                    'empty text as much as any other value; a formula cell also keeps its cached result; the sheet knows its last row',
                    lambda *a: True, bind_ens(_k))],
        canary=Case('canary', lambda *a: True, lambda v, text, cached, out: out.kind == 'ret' and len(out.value['cells']) == 2),
        call=bind_call(False, _k), native_call=bind_call(True, _k),
        cross_key=lambda r: repr(sorted((k, repr(c._value), c.data_type, repr(getattr(c, 'cvalue', '-'))) for k, c in r['cells'].items())) if isinstance(r, dict) else repr(r),
        bounded_domain_cap=150))
