"""C01  Formulas evaluate under Excel's operator precedence and associativity.

Premises of the operator-precedence parsing theorem, each an obligation on the REAL code (DESIGN section 7, C01):

  F1  parser.shunting_yard / pop rule   - the real loop interpreted on  a op1 b op2 c  for every ordered pair of the
                                          13 operator tokens (12 binary + prefix minus): the reverse-Polish output
                                          groups (a op1 b) first  iff  level(op1) >= level(op2)   [finite, complete]
  P2  parser.build_ast / wiring         - infix node: left = second-from-top, right = top; prefix node: right = top;
                                          function node: its num_args topmost entries in written order (opaque operands)
  F3+P4 ast_nodes.OperatorNode.eval     - every infix symbol and prefix minus, operands evaluated by opaque sub-nodes
                                          yielding SYMBOLIC numbers: the result is the statement's operation on them
                                          (left first, then right; x/0 = #DIV/0!)            [all numbers]
  F5  tokenizer.getTokens / prefix rule - one iteration of the real pass that turns an infix '-' into a prefix
                                          operator, for a SYMBOLIC kind of the preceding token   [all token kinds]
The conclusion (tree equality for every formula) is bounded: drivers/c01.py.
"""
import ast as pyast
import z3

from pyvc.engine import Unit, Case, Fork, Xl, XlBlank, Prim, Const
from pyvc.interp import Stub, ModelFn, func_ast, Env
from pyvc import spec, sym as S, models as M
from pyvc.sym import Sym, is_sym, And, Or, Not, Implies, Ite

LEVEL = {'u-': 7, '^': 5, '*': 4, '/': 4, '+': 3, '-': 3, '&': 2, '=': 1, '<>': 1, '<': 1, '>': 1, '<=': 1, '>=': 1}
BIN = [k for k in LEVEL if k != 'u-']
UNITS = []


def T():
    return spec.T()


# ---- F1: pop rule of the real shunting-yard loop ---------------------------------------------------------------------
def _tok(value, ttype, subtype=''):
    from xlcalculator import tokenizer
    return tokenizer.f_token(value, ttype, subtype)


def _sy_call(op1, op2):
    def call(it, fn):
        from xlcalculator import parser
        toks = [_tok('a', 'operand', 'range')]
        toks.append(_tok('-', 'operator-prefix') if op1 == 'u-' else _tok(op1, 'operator-infix'))
        if op1 == 'u-':
            toks = [toks[1], toks[0]]                      # -a op2 c
        else:
            toks.append(_tok('b', 'operand', 'range'))
        if op2 == 'u-':
            toks += [_tok('+', 'operator-infix'), _tok('-', 'operator-prefix'), _tok('c', 'operand', 'range')]   # .. + -c
        else:
            toks += [_tok(op2, 'operator-infix'), _tok('c', 'operand', 'range')]
        p = parser.FormulaParser()
        out = it.call(parser.FormulaParser.shunting_yard, [p, toks, {}], {})
        return [('u-' if n.ttype == 'operator-prefix' else n.tvalue) for n in out]
    return call


def _rpn(op1, op2):
    """reference reverse-Polish order of the statement's grammar"""
    if op1 == 'u-':
        # -a op2 c : unary minus binds tightest
        return ['a', 'u-', 'c', op2]
    if op2 == 'u-':
        # a op1 b + -c
        first = LEVEL[op1] >= LEVEL['+']
        return ['a', 'b', op1, 'c', 'u-', '+'] if first else ['a', 'b', 'c', 'u-', '+', op1]
    if LEVEL[op1] >= LEVEL[op2]:                            # left-associative: equal levels group to the left
        return ['a', 'b', op1, 'c', op2]
    return ['a', 'b', 'c', op2, op1]


for _o1 in LEVEL:
    for _o2 in LEVEL:
        if _o1 == 'u-' and _o2 == 'u-':
            continue
        UNITS.append(Unit(
            id=f'C01/parser.shunting_yard/pop_rule[{_o1},{_o2}]', target='xlcalculator.parser:FormulaParser.shunting_yard', inputs=[],
            cases=[Case('output groups the operator of higher-or-equal level first', lambda: True,
                        (lambda a, b: lambda out: out.kind == 'ret' and out.value == _rpn(a, b))(_o1, _o2))],
            call=_sy_call(_o1, _o2), native_call=(lambda a, b: lambda fn: _native_sy(a, b))(_o1, _o2)))


def _native_sy(op1, op2):
    from pyvc.interp import Interp

    class _N:
        def call(self, f, args, kw):
            return f(*args, **kw)
    return _sy_call(op1, op2)(_N(), None)


# ---- P2: build_ast wiring with opaque operand nodes -------------------------------------------------------------------
def _ba_call(kind):
    def call(it, fn):
        from xlcalculator import parser, ast_nodes
        X, Y, Z = Stub('X'), Stub('Y'), Stub('Z')
        if kind == 'infix':
            node = ast_nodes.OperatorNode(_tok('-', 'operator-infix'))
            nodes = [Z, X, Y, node, ast_nodes.OperatorNode(_tok('+', 'operator-infix'))]
            root = it.call(parser.FormulaParser.build_ast, [parser.FormulaParser(), nodes], {})
            return (root.tvalue, root.left is Z, root.right is node, node.left is X, node.right is Y)
        if kind == 'prefix':
            node = ast_nodes.OperatorNode(_tok('-', 'operator-prefix'))
            nodes = [X, Y, node, ast_nodes.OperatorNode(_tok('*', 'operator-infix'))]
            root = it.call(parser.FormulaParser.build_ast, [parser.FormulaParser(), nodes], {})
            return (root.left is X, root.right is node, node.right is Y, node.left is None)
        f = ast_nodes.FunctionNode(_tok('F', 'function'))
        f.num_args = 3
        g = ast_nodes.FunctionNode(_tok('G', 'function'))
        g.num_args = 0
        nodes = [Z, X, Y, g, f, ast_nodes.OperatorNode(_tok('&', 'operator-infix'))]
        root = it.call(parser.FormulaParser.build_ast, [parser.FormulaParser(), nodes], {})
        return (root.left is Z, root.right is f, len(f.args) == 3, f.args[0] is X, f.args[1] is Y, f.args[2] is g, g.args == [])
    return call


for _k in ('infix', 'prefix', 'function'):
    UNITS.append(Unit(
        id=f'C01/parser.build_ast/wiring[{_k}]', target='xlcalculator.parser:FormulaParser.build_ast', inputs=[],
        cases=[Case('operands attached in written order', lambda: True,
                    lambda out: out.kind == 'ret' and all(x is True or isinstance(x, str) for x in out.value))],
        call=_ba_call(_k), native_call=(lambda k: lambda fn: _ba_call(k)(_Native(), None))(_k)))


class _Native:
    def call(self, f, args, kw):
        return f(*args, **kw)


# ---- F3 + P4: OperatorNode.eval over symbolic numbers -------------------------------------------------------------------
NUMS = Fork([Xl('Number', 'int', domain=[-3, 0, 2, 7]), Xl('Number', 'real', domain=[-1.5, 0.0, 2.5])])


def _eval_call(sym_):
    def call(it, fn, l, r):
        from xlcalculator import ast_nodes
        log = []
        ctx = Stub('ctx')
        left = Stub('left', eval=ModelFn(lambda it_, c: (log.append('L'), l)[1], 'left.eval'))
        right = Stub('right', eval=ModelFn(lambda it_, c: (log.append('R'), r)[1], 'right.eval'))
        if sym_ == 'u-':
            node = ast_nodes.OperatorNode(_tok('-', 'operator-prefix'))
            node.right = right
        else:
            node = ast_nodes.OperatorNode(_tok(sym_, 'operator-infix'))
            node.left, node.right = left, right
        res = it.call(ast_nodes.OperatorNode.eval, [node, ctx], {})
        return res, tuple(log)

    def native(fn, l, r):
        class _It:
            def call(self, f, args, kw):
                return f(*args, **kw)
        from xlcalculator import ast_nodes
        log = []

        class N:
            def __init__(self, tag, v):
                self.tag, self.v = tag, v

            def eval(self, c):
                log.append(self.tag)
                return self.v
        if sym_ == 'u-':
            node = ast_nodes.OperatorNode(_tok('-', 'operator-prefix'))
            node.right = N('R', r)
        else:
            node = ast_nodes.OperatorNode(_tok(sym_, 'operator-infix'))
            node.left, node.right = N('L', l), N('R', r)
        return node.eval(None), tuple(log)
    return call, native


class _O:
    """view of (result, log) as an Outcome over the result"""

    def __init__(self, out):
        self.kind = out.kind
        self.value = out.value[0] if out.kind == 'ret' else out.value
        self.log = out.value[1] if out.kind == 'ret' else None


def _pow_defined(a, b):
    return Not(Or(And(a == 0, b < 0), And(a < 0, Not(_is_int(b)))))


def _is_int(b):
    if is_sym(b):
        return Sym(z3.IsInt(S.to_real(b)), 'bool') if b.k == 'real' else True
    return float(b).is_integer()


def _expect(sym_, l, r):
    a, b = l.value, r.value
    if sym_ == 'u-':
        return ('num', 0 - b)
    if sym_ == '+':
        return ('num', a + b)
    if sym_ == '-':
        return ('num', a - b)
    if sym_ == '*':
        return ('num', a * b)
    if sym_ == '/':
        return ('div', a, b)
    if sym_ == '^':
        return ('pow', a, b)
    if sym_ == '&':
        return ('text', S.concat(spec.text_form(l), spec.text_form(r)))
    cmpop = {'=': pyast.Eq, '<>': pyast.NotEq, '<': pyast.Lt, '>': pyast.Gt, '<=': pyast.LtE, '>=': pyast.GtE}[sym_]
    return ('bool', S.cmp(cmpop, a, b) if (is_sym(a) or is_sym(b)) else {'=': a == b, '<>': a != b, '<': a < b, '>': a > b, '<=': a <= b, '>=': a >= b}[sym_])


def _ens(sym_):
    def ens(l, r, out):
        if out.kind != 'ret':
            return False
        o = _O(out)
        exp = _expect(sym_, l, r)
        order_ok = o.log == (('R',) if sym_ == 'u-' else ('L', 'R'))
        if not order_ok:
            return False
        if exp[0] == 'num':
            return spec.is_number(o, exp[1], tol=1e-12)
        if exp[0] == 'div':
            return Ite(spec.eq(exp[2], 0), spec.is_error(o, 'DivZeroExcelError'), spec.is_number(o, exp[1] / exp[2], tol=1e-12)) \
                if is_sym(exp[2]) else (spec.is_error(o, 'DivZeroExcelError') if exp[2] == 0 else spec.is_number(o, exp[1] / exp[2], tol=1e-12))
        if exp[0] == 'pow':
            a, b = exp[1], exp[2]
            if is_sym(a) or is_sym(b):
                # a result beyond the range of a double is #NUM! - which can only happen for |base| >= 2 and an exponent >= 1
                # (whether a given power really is beyond the range is arithmetic the bounded layer checks)
                big = And(Or(a >= 2, a <= -2), b >= 1)
                return Implies(_pow_defined(a, b), Or(spec.is_number(o, M.py_pow_spec(a, b)), And(spec.is_error(o, 'NumExcelError'), big)))
            try:
                return (not _pow_defined(a, b)) or spec.is_number(o, float(a) ** float(b), tol=1e-9) or abs(float(a) ** float(b)) > 1e300
            except OverflowError:
                return True
        if exp[0] == 'text':
            return spec.is_text(o, exp[1])
        return spec.is_bool(o, exp[1])
    return ens


for _s in ['u-'] + BIN:
    _c, _n = _eval_call(_s)
    UNITS.append(Unit(
        id=f'C01/ast_nodes.OperatorNode.eval[{_s}]', target='xlcalculator.ast_nodes:OperatorNode.eval', fork='product',
        inputs=[('l', NUMS), ('r', NUMS)],
        cases=[Case(f'"{_s}" applies the statement\'s operation to its operands, left evaluated first', lambda l, r: True, _ens(_s))],
        call=_c, native_call=_n, bounded_domain_cap=60))


# ---- F3': evaluation is compositional - an operator applies to the VALUE of its operand sub-tree, whatever node produced it -----------
def _nest_call(chain, inner):
    """real nodes: chain of prefix minuses over a real infix node `inner` over opaque leaves"""
    def build(leaf):
        from xlcalculator import ast_nodes
        node = ast_nodes.OperatorNode(_tok(inner, 'operator-infix'))
        node.left, node.right = leaf('L'), leaf('R')
        for _ in range(chain):
            up = ast_nodes.OperatorNode(_tok('-', 'operator-prefix'))
            up.right = node
            node = up
        return node

    def call(it, fn, l, r):
        from xlcalculator import ast_nodes
        log = []
        vals = {'L': l, 'R': r}
        node = build(lambda tag: Stub(tag, eval=ModelFn(lambda it_, c: (log.append(tag), vals[tag])[1], tag + '.eval')))
        return it.call(ast_nodes.OperatorNode.eval, [node, Stub('ctx')], {}), tuple(log)

    def native(fn, l, r):
        log = []
        vals = {'L': l, 'R': r}

        class N:
            def __init__(self, tag):
                self.tag = tag

            def eval(self, c):
                log.append(self.tag)
                return vals[self.tag]
        return build(N).eval(None), tuple(log)
    return call, native


def _nest_ens(chain, inner):
    sign = -1 if chain % 2 else 1

    def ens(l, r, out):
        if out.kind != 'ret':
            return False
        o = _O(out)
        if o.log != ('L', 'R'):
            return False
        exp = _expect(inner, l, r)
        if exp[0] == 'num':
            return spec.is_number(o, exp[1] * sign, tol=1e-12)
        if exp[0] == 'div':
            a, b = exp[1], exp[2]
            if is_sym(b):
                return Ite(spec.eq(b, 0), spec.is_error(o, 'DivZeroExcelError'), spec.is_number(o, a / b * sign, tol=1e-12))
            return spec.is_error(o, 'DivZeroExcelError') if b == 0 else spec.is_number(o, a / b * sign, tol=1e-12)
        if exp[0] == 'bool':
            b = exp[1]
            return spec.is_number(o, (Ite(b, 1, 0) if is_sym(b) else int(bool(b))) * sign)
        if exp[0] == 'text':
            # the negation of a text is the negation of the number it reads as, or #VALUE!: a number or an error, never the text itself
            return isinstance(o.value, (T().Number, spec.E().ExcelError))
        return True
    return ens


for _chain in (1, 2, 3):
    for _s in [b for b in BIN if b != '^']:
        _c, _n = _nest_call(_chain, _s)
        UNITS.append(Unit(
            id=f'C01/ast_nodes.OperatorNode.eval/compositional[{"-" * _chain}(a{_s}b)]', target='xlcalculator.ast_nodes:OperatorNode.eval', fork='product',
            inputs=[('l', NUMS), ('r', NUMS)],
            cases=[Case('prefix minus applies to the VALUE of its operand sub-tree (number, truth value read as 1/0, text read as a number), however many are stacked',
                        lambda l, r: True, _nest_ens(_chain, _s))],
            call=_c, native_call=_n, bounded_domain_cap=40))


# ---- F5: prefix rule of the tokenizer ------------------------------------------------------------------------------------
TTYPES = ['noop', 'operand', 'function', 'subexpression', 'argument', 'operator-prefix', 'operator-infix', 'operator-postfix',
          'white-space', 'unknown']
SUBTYPES = ['', 'start', 'stop', 'text', 'number', 'logical', 'error', 'range', 'math', 'concatenate', 'intersect', 'union', 'none']


def _prefix_call(sign):
    def call(it, fn, ptype, psub):
        from xlcalculator import tokenizer
        f = tokenizer.ExcelParser.getTokens
        node = func_ast(f)
        # the prefix / noop pass: the top-level loop over `tokens2` whose body assigns the prefix-operator type (anchored by
        # content, not by position: earlier passes may be rewritten freely)
        def sets_token_type(n):
            return any(isinstance(a, pyast.Assign) and any(isinstance(t_, pyast.Attribute) and t_.attr == 'ttype' for t_ in a.targets) for a in pyast.walk(n))
        loops = [n for n in node.body if isinstance(n, pyast.While) and pyast.unparse(n.test).replace(' ', '') == 'tokens2.moveNext()'
                 and sets_token_type(n) and 'TOK_SUBTYPE_MATH' in pyast.unparse(n)]
        if len(loops) != 1:
            from pyvc.sym import Unsupported
            raise Unsupported('the prefix pass of getTokens is no longer a `while tokens2.moveNext()` loop: the step contract does not apply')
        loop = loops[0]
        tokens2 = tokenizer.f_tokens()
        prev = tokenizer.f_token('x', 'operand', '')
        prev.ttype, prev.tsubtype = ptype, psub
        cur = tokenizer.f_token(sign, 'operator-infix', '')
        tokens2.items = [prev, cur]
        tokens2.index = 0                     # the previous token has been handled; the next iteration sees `cur`
        env = Env({'self': tokenizer.ExcelParser(), 'tokens2': tokens2}, {}, f.__globals__, func=f)
        env.argnames = ['self']
        # helpers and tables the pass uses may be set up before it (closures, lookup tables): run those statements, then restore the state
        state = dict(env.loc)
        for st in node.body:
            if st is loop:
                break
            if isinstance(st, pyast.FunctionDef) or (isinstance(st, pyast.Assign) and isinstance(st.value, (pyast.Dict, pyast.Tuple, pyast.List, pyast.Set, pyast.Constant, pyast.Attribute))):
                try:
                    it.stmt(st, env)
                except Exception:      # noqa
                    pass
        env.loc.update(state)
        it.interpreted.add('xlcalculator.tokenizer:ExcelParser.getTokens(loop 3)')
        it.s_While(loop, env)
        return cur.ttype
    return call


def _prefix_native(sign):
    def native(fn, ptype, psub):
        from xlcalculator import tokenizer
        # natively the pass cannot be entered in isolation: drive the whole tokenizer with a formula whose token
        # before the sign has the wanted kind (only realisable kinds are produced; others are skipped by `requires`)
        table = {('operand', ''): 'A1', ('function', 'stop'): 'SUM(1)', ('subexpression', 'stop'): '(1)',
                 ('operator-infix', ''): '1*', ('function', 'start'): 'SUM(', ('subexpression', 'start'): '(',
                 ('argument', ''): 'SUM(1,'}
        if (ptype, psub) not in table:
            from pyvc.engine import NotReachable
            raise NotReachable(f'no formula makes the token before the sign a {ptype}/{psub}')
        text = table[(ptype, psub)]
        tail = {('function', 'start'): '2)', ('subexpression', 'start'): '2)', ('argument', ''): '2)'}.get((ptype, psub), '2')
        toks = tokenizer.ExcelParser().getTokens(text + sign + tail).items
        idx = max(i for i, t in enumerate(toks) if t.tvalue == sign and t.ttype.startswith('operator')) if sign == '-' else None
        if sign == '-':
            return toks[idx].ttype
        return 'noop' if not any(t.tvalue == '+' for t in toks) else 'operator-infix'
    return native


def _is_infix_position(ptype, psub):
    """the statement's grammar: a sign is a binary operator exactly after something that ends an operand"""
    return Or(And(spec.eq(ptype, 'function'), spec.eq(psub, 'stop')), And(spec.eq(ptype, 'subexpression'), spec.eq(psub, 'stop')),
              spec.eq(ptype, 'operator-postfix'), spec.eq(ptype, 'operand'))


REALISABLE = [('operand', ''), ('function', 'stop'), ('subexpression', 'stop'), ('operator-infix', ''), ('function', 'start'),
              ('subexpression', 'start'), ('argument', '')]
for _sign, _pre in (('-', 'operator-prefix'), ('+', 'noop')):
    UNITS.append(Unit(
        id=f'C01/tokenizer.getTokens/prefix_rule[{_sign}]', target='xlcalculator.tokenizer:ExcelParser.getTokens',
        inputs=[('ptype', Prim('str', domain=[p for p, _ in REALISABLE])), ('psub', Prim('str', domain=sorted({s for _, s in REALISABLE})))],
        requires=lambda ptype, psub: (Or(*[spec.eq(ptype, t) for t in TTYPES]) if is_sym(ptype) else (ptype, psub) in REALISABLE),
        cases=[Case(f'"{_sign}" after something that ends an operand stays a binary operator', _is_infix_position,
                    lambda ptype, psub, out: out.kind == 'ret' and spec.eq(out.value, 'operator-infix')),
               Case(f'"{_sign}" anywhere else becomes {_pre}', lambda ptype, psub: Not(_is_infix_position(ptype, psub)),
                    (lambda pre: lambda ptype, psub, out: out.kind == 'ret' and spec.eq(out.value, pre))(_pre))],
        call=_prefix_call(_sign), native_call=_prefix_native(_sign)))


# ---- F5: '%' binds tighter than every binary operator: the scanner folds 'number%' into ONE operand ------------------------------------
def _percent_unit():
    from contracts import c02_tokenizer as T2
    pu = [u for u in T2.UNITS if u.id == 'C02/tokenizer.getTokens/percent_step'][0]
    return Unit(
        id='C01/tokenizer.getTokens/percent_literal_is_one_operand', target=pu.target, prop='C01', inputs=pu.inputs, requires=pu.requires,
        cases=[Case('a numeric literal followed by "%" leaves the scanner as ONE operand worth a hundredth of it - so no binary operator, however '
                    'tightly it binds, can separate the literal from its percent sign', lambda *a: True, T2._percent_step)],
        call=pu.call, native_call=pu.native_call, cross_key=pu.cross_key, timeout_ms=20000)


UNITS.append(_percent_unit())


# ---- F6: a binary operator written after a COMPLETE operand (a plain or scientific-notation literal, a reference) is an operator of its own --
def _operator_unit():
    from contracts import c02_tokenizer as T2
    ou = [u for u in T2.UNITS if u.id == 'C02/tokenizer.getTokens/infix_operator_step'][0]
    return Unit(
        id='C01/tokenizer.getTokens/operator_after_a_complete_operand', target=ou.target, prop='C01', inputs=ou.inputs, requires=ou.requires,
        cases=[Case('an operator character ends the pending operand - also one in scientific notation that is already complete (1E+3) - and becomes ONE '
                    'infix-operator token: only the sign right after the exponent marker of "<mantissa>E" belongs to the literal',
                    lambda *a: True, ou.cases[0].ensures)],
        call=ou.call, native_call=ou.native_call, cross_key=ou.cross_key, timeout_ms=20000)


UNITS.append(_operator_unit())


# ---- chains of comparisons / arithmetic through the REAL parser and the REAL nodes -------------------------------------------------------------
# "every binary operator associating to the left": a op1 b op2 c is (a op1 b) op2 c.  For comparisons this is observable in the VALUE whatever
# the numbers are: (a = b) is a logical value, and a logical value is never equal to a number and sorts above every number - so  a=b=c  is
# FALSE,  a<b<>c  is TRUE,  a>b>c  is TRUE,  a=b<c  is FALSE  for ALL numbers a, b, c (also c = 0 or 1).  The tree is built natively by the
# real parser from the concrete text; `eval` is interpreted node by node over SYMBOLIC cell values.
CHAINS = [
    ('=K1=K2=K3', lambda a, b, c: ('bool', False)), ('=K1<>K2=K3', lambda a, b, c: ('bool', False)), ('=K1<K2<>K3', lambda a, b, c: ('bool', True)),
    ('=K1>=K2<>K3', lambda a, b, c: ('bool', True)), ('=K1>K2>K3', lambda a, b, c: ('bool', True)), ('=K1=K2<K3', lambda a, b, c: ('bool', False)),
    ('=K1<=K2>=K3', lambda a, b, c: ('bool', True)), ('=K1=K2<=K3', lambda a, b, c: ('bool', False)),
    ('=K1-K2-K3', lambda a, b, c: ('num', (a - b) - c)), ('=K1-K2+K3', lambda a, b, c: ('num', (a - b) + c)),
    ('=K1-K2*K3', lambda a, b, c: ('num', a - (b * c))), ('=-K1-K2', lambda a, b, c: ('num', (0 - a) - b)),
    ('=K1*K2-K3', lambda a, b, c: ('num', (a * b) - c)), ('=K1+K2=K3+K1', lambda a, b, c: ('cmp', (a + b, c + a))),
]


def chain_call(native, text):
    def call(it, fn, a, b, c):
        from xlcalculator import parser
        from xlcalculator.xlfunctions import xl
        tree = parser.FormulaParser().parse(text, {})
        vals = {'S!K1': a, 'S!K2': b, 'S!K3': c}
        log = []

        def eval_cell(addr):
            log.append(addr)
            return vals[addr]
        if native:
            ctx = type('Ctx', (), {})()
            ctx.sheet = ctx.refsheet = 'S'
            ctx.ref, ctx.ranges, ctx.cells, ctx.namespace = 'S!Z9', {}, {}, xl.FUNCTIONS
            ctx.eval_cell = eval_cell
            ctx.set_sheet = lambda *a_: None
            return tree.eval(ctx)
        ctx = Stub('ctx', sheet='S', refsheet='S', ref='S!Z9', ranges={}, cells={}, namespace=xl.FUNCTIONS,
                   eval_cell=ModelFn(lambda it_, ad: eval_cell(ad), 'eval_cell'), set_sheet=ModelFn(lambda it_, *a_: None, 'set_sheet'))
        return it.call(type(tree).eval, [tree, ctx], {})
    if native:
        return lambda fn, *a: call(None, fn, *a)
    return call


def chain_ens(f):
    def ens(a, b, c, out):
        kind, exp = f(a.value, b.value, c.value)
        if kind == 'bool':
            return spec.is_bool(out, exp)
        if kind == 'cmp':
            return spec.is_bool(out, spec.num_eq(exp[0], exp[1]))
        return spec.numeric_result(out, exp, tol=1e-12)
    return ens


CHNUM = lambda dom: Fork([Xl('Number', 'int', domain=dom), Xl('Number', 'real', domain=[float(d) + 0.5 for d in dom[:1]] + [float(dom[-1])])])
for _text, _f in CHAINS:
    UNITS.append(Unit(
        id=f'C01/left_associative_chain[{_text}]', target='xlcalculator.ast_nodes:OperatorNode.eval', fork='star',
        inputs=[('a', CHNUM([2, 1, 0])), ('b', CHNUM([1, 2, 0])), ('c', CHNUM([1, 0, 3]))],
        cases=[Case('a op1 b op2 c through the real parser and the real nodes is (a op1 b) op2 c: a chain of comparisons compares the LOGICAL result of the '
                    'first with the third operand (never equal to a number, above every number), arithmetic chains group to the left, * binds tighter',
                    lambda *a: True, chain_ens(_f))],
        call=chain_call(False, _text), native_call=chain_call(True, _text), bounded_domain_cap=120))


# ---- a numeric literal is worth its own value (the percent step hands a hundredth of the written literal on as a NUMBER) -----------------------
# The scanner's percent step (above) leaves ONE operand whose token value is a number, a hundredth of the literal; `OperandNode.eval` must yield
# a Number of exactly that value - for ALL numbers, whole or not (a literal read back through int() would truncate 1.5% to 0).
def _literal_call(native):
    def call(it, fn, v):
        from xlcalculator import ast_nodes
        node = ast_nodes.OperandNode(_tok(v, 'operand', 'number'))
        ctx = Stub('ctx', ref='S!Z9') if not native else None
        return node.eval(ctx) if native else it.call(ast_nodes.OperandNode.eval, [node, ctx], {})
    if native:
        return lambda fn, v: call(None, fn, v)
    return call


UNITS.append(Unit(
    id='C01/ast_nodes.OperandNode.eval/numeric_literal_is_worth_its_value', target='xlcalculator.ast_nodes:OperandNode.eval',
    inputs=[('v', Fork([Prim('real', domain=[0.015, 2.5, -0.5]), Prim('int', domain=[0, 3])]))],
    cases=[Case('a numeric operand (also the hundredth the percent step hands on) evaluates to a Number of exactly its value - whole or not',
                lambda v: True, lambda v, out: spec.is_number(out, v, tol=1e-15))],
    canary=Case('canary', lambda v: True, lambda v, out: spec.is_number(out, v + 1, tol=1e-15)),
    call=_literal_call(False), native_call=_literal_call(True)))
