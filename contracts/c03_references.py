"""C03  References denote exactly the addressed cells on the right sheet.

  P1  ast_nodes.EvalContext.__init__      sheet == refsheet == the sheet part of the cell's own address (all strings)
  P2  RangeNode.full_address              address without $ markers, prefixed by the context's sheet unless qualified
  P3  RangeNode.eval (single cell)        looks up exactly the canonical address, then restores the context's sheet
  P4  RangeNode.eval (range)              opaque context with a logged eval_cell: the Array holds, row by row, the value
                                          returned for each address - each evaluated exactly once, in row-major order -
                                          and every stored non-empty cell / formula cell lies inside the evaluated extent,
                                          however many empty cells precede it (symbolic content of the far cell)
  P5  Evaluator.evaluate                  an address without a cell reads as blank (contracts/c04_evaluate.py)
  P6  EvaluatorContext.eval_cell          ANY address (symbolic text) at which no cell is stored reads as blank through the real
                                          context and evaluator, whatever the sheet holds
"""
import z3

from pyvc.engine import Unit, Case, Fork, Xl, XlBlank, Prim, Const
from pyvc.interp import Stub, ModelFn
from pyvc import spec, sym as S, models as M
from pyvc.sym import Sym, is_sym, And, Or, Not, Implies, Ite, lift

UNITS = []


def T():
    return spec.T()


def _tok(value, sub='range'):
    from xlcalculator import tokenizer
    return tokenizer.f_token(value, 'operand', sub)


class _Native:
    def call(self, f, args, kw):
        return f(*args, **kw)

    def instantiate(self, cls, args, kw):
        return cls(*args, **kw)


# ---- P1 ---------------------------------------------------------------------------------------------------------------------
def ctx_init_call(native):
    def call(it, fn, sheet, coord):
        from xlcalculator import ast_nodes
        ref = S.concat(sheet, '!', coord)
        c = (it or _Native()).instantiate(ast_nodes.EvalContext, [None, ref], {})
        s1 = (c.sheet, c.refsheet, c.ref)
        (it or _Native()).call(ast_nodes.EvalContext.set_sheet, [c, 'Other'], {})
        s2 = c.sheet
        (it or _Native()).call(ast_nodes.EvalContext.set_sheet, [c], {})
        return s1, s2, c.sheet
    if native:
        return lambda fn, sheet, coord: call(None, fn, sheet, coord)
    return call


def _no_bang(s):
    return Not(Sym(z3.Contains(lift(s).t, z3.StringVal('!')), 'bool')) if is_sym(s) else '!' not in s


UNITS.append(Unit(
    id='C03/ast_nodes.EvalContext.__init__', target='xlcalculator.ast_nodes:EvalContext.__init__',
    inputs=[('sheet', Prim('str', domain=['Sheet1', 'My Sheet', "It's", 'D'])), ('coord', Prim('str', domain=['A1', 'ZZ100']))],
    requires=lambda sheet, coord: And(_no_bang(sheet), _no_bang(coord)),
    cases=[Case("a context's sheet is the sheet of its own cell; set_sheet() restores it", lambda s, c: True,
                lambda s, c, out: out.kind == 'ret' and And(spec.eq(out.value[0][0], s), spec.eq(out.value[0][1], s),
                                                            spec.eq(out.value[0][2], S.concat(s, '!', c)), out.value[1] == 'Other',
                                                            spec.eq(out.value[2], s)))],
    call=ctx_init_call(False), native_call=ctx_init_call(True)))


# ---- P2 / P3 -----------------------------------------------------------------------------------------------------------------
def strip_dollar(s):
    if is_sym(s):
        t = z3.SeqRef(z3.Z3_mk_seq_replace_all(z3.main_ctx().ref(), s.t.as_ast(), z3.StringVal('$').as_ast(), z3.StringVal('').as_ast()), z3.main_ctx())
        return Sym(t, 'str')
    return s.replace('$', '')


def cell_call(native):
    def call(it, fn, sheet, ref):
        from xlcalculator import ast_nodes
        log = []
        value = T().Number(42)

        def eval_cell(addr):
            log.append(addr)
            return value
        ctx = (Stub('ctx', sheet=sheet, refsheet=sheet, ranges={}, cells={},
                    eval_cell=ModelFn(lambda it_, a: eval_cell(a), 'eval_cell'),
                    set_sheet=ModelFn(lambda it_, *a: log.append(('set_sheet',) + a), 'set_sheet')) if not native else None)
        if native:
            class Ctx:
                pass
            ctx = Ctx()
            ctx.sheet = ctx.refsheet = sheet
            ctx.ranges, ctx.cells = {}, {}
            ctx.eval_cell = eval_cell
            ctx.set_sheet = lambda *a: log.append(('set_sheet',) + a)
        node = ast_nodes.RangeNode(_tok(ref))
        res = (it or _Native()).call(ast_nodes.RangeNode.eval, [node, ctx], {})
        return res is value, log
    if native:
        return lambda fn, sheet, ref: call(None, fn, sheet, ref)
    return call


def cell_ens(sheet, ref, out):
    if out.kind != 'ret' or out.value[0] is not True or len(out.value[1]) != 2 or out.value[1][1] != ('set_sheet',):
        return False
    looked = out.value[1][0]
    bare = strip_dollar(ref)
    qualified = Sym(z3.Contains(lift(ref).t, z3.StringVal('!')), 'bool') if is_sym(ref) else '!' in ref
    exp = Ite(qualified, bare, S.concat(sheet, '!', bare)) if is_sym(qualified) else (bare if qualified else S.concat(sheet, '!', bare))
    return spec.eq(looked, exp)


UNITS.append(Unit(
    id='C03/ast_nodes.RangeNode.eval/cell_lookup', target='xlcalculator.ast_nodes:RangeNode.eval',
    inputs=[('sheet', Prim('str', domain=['Sheet1', 'My Sheet'])),
            ('ref', Fork([Const(r, r) for r in ['A1', '$A$1', 'A$1', '$A1', 'XFD$1048576', 'Data!B2', 'Data!$B$2', 'My Sheet!$C3']]))],
    requires=lambda sheet, ref: _no_bang(sheet), fork='product',
    cases=[Case('a reference looks up the address without $ on the context\'s sheet (or its own), once, and restores the sheet',
                lambda s, r: True, cell_ens)],
    call=cell_call(False), native_call=cell_call(True)))


# ---- P4: ranges -----------------------------------------------------------------------------------------------------------------
def addr(r, c):
    from xlcalculator.tokenizer import num2col
    return f'S!{num2col(c)}{r}'


def range_call(native, rows, cols, stored):
    """stored: {(r, c): kind}  kind: 'sym' (the input value), 'formula', 'formula-empty', 'num', 'empty-text'"""
    def call(it, fn, far):
        from xlcalculator import ast_nodes
        log = []
        matrix = [[addr(r, c) for c in range(1, cols + 1)] for r in range(1, rows + 1)]
        name = f'S!A1:{addr(rows, cols)[2:]}'
        mk = (lambda n, **kw: Stub(n, **kw)) if not native else (lambda n, **kw: type('O', (), kw)())
        cells = {}
        for (r, c), kind in stored.items():
            if kind == 'sym':
                cells[addr(r, c)] = mk('cell', formula=None, value=far)
            elif kind == 'formula':
                cells[addr(r, c)] = mk('cell', formula=mk('f', formula='=1'), value=5)
            elif kind == 'formula-empty':
                cells[addr(r, c)] = mk('cell', formula=mk('f', formula='=1'), value=None)
            elif kind == 'num':
                cells[addr(r, c)] = mk('cell', formula=None, value=7)
            elif kind == 'empty-text':
                cells[addr(r, c)] = mk('cell', formula=None, value='')

        def eval_cell(a):
            log.append(a)
            return T().Number(len(log))
        rng = mk('range', cells=matrix, value=None)
        if native:
            ctx = mk('ctx', sheet='S', refsheet='S', ranges={name: rng}, cells=cells)
            ctx.eval_cell = eval_cell
            ctx.set_sheet = lambda *a: None
        else:
            ctx = Stub('ctx', sheet='S', refsheet='S', ranges={name: rng}, cells=cells,
                       eval_cell=ModelFn(lambda it_, a: eval_cell(a), 'eval_cell'), set_sheet=ModelFn(lambda it_, *a: None, 'set_sheet'))
        node = ast_nodes.RangeNode(_tok(name[2:]))
        res = (it or _Native()).call(ast_nodes.RangeNode.eval, [node, ctx], {})
        shape = tuple(res.shape)
        vals = [[x.value for x in row] for row in res.values.tolist()]
        return dict(log=log, shape=shape, vals=vals, stored_value_is_result=(rng.value is res))
    if native:
        return lambda fn, far: call(None, fn, far)
    return call


def used_spec(v):
    """does a constant cell holding v hold anything? (numbers and booleans always; a text unless empty)"""
    if is_sym(v):
        return Not(spec.eq(v, '')) if v.k == 'str' else True
    return v not in ('', None)


def range_ens(rows, cols, stored, far_pos):
    matrix = [[addr(r, c) for c in range(1, cols + 1)] for r in range(1, rows + 1)]

    def ens(far, out):
        if out.kind != 'ret':
            return False
        o = out.value
        nr, nc = o['shape']
        # row-major, each exactly once, and the Array holds the value returned for each address in its place
        expect_log = [matrix[i][j] for i in range(nr) for j in range(nc)]
        if o['log'] != expect_log or not o['stored_value_is_result']:
            return False
        k = 0
        for i in range(nr):
            for j in range(nc):
                k += 1
                if o['vals'][i][j] != k:
                    return False
        # everything that holds something is inside the extent; small ranges are whole
        must = []
        for (r, c), kind in stored.items():
            inside = r <= nr and c <= nc
            if kind == 'sym':
                must.append(Implies(used_spec(far), inside))
            elif kind in ('formula', 'formula-empty', 'num'):
                must.append(inside)
        if rows <= 100 and cols <= 100:
            must.append((nr, nc) == (rows, cols))
        return And(*must) if must else True
    return ens


FAR = Fork([Xl('Number', 'int', domain=[0, 3]), Xl('Number', 'real', domain=[0.0, 2.5]), Xl('Boolean', 'bool'), Xl('Text', 'str', domain=['', 'x'])])
RANGE_CASES = [
    ('small-2x3', 2, 3, {(1, 1): 'num', (2, 3): 'sym'}),
    ('column-103', 103, 1, {(1, 1): 'num', (103, 1): 'sym'}),
    ('row-103', 1, 103, {(1, 103): 'sym'}),
    ('column-103-formula', 103, 1, {(103, 1): 'formula-empty', (50, 1): 'sym'}),
    ('block-102x2', 102, 2, {(102, 2): 'sym', (1, 1): 'empty-text'}),
    ('column-150-gap', 150, 1, {(1, 1): 'num', (149, 1): 'formula', (150, 1): 'sym'}),
    # the last cell that holds something sits exactly in the 101st row / column (the first one past the part that is always read)
    ('column-101', 101, 1, {(1, 1): 'num', (101, 1): 'sym'}),
    ('column-250-last-101', 250, 1, {(101, 1): 'sym'}),
    ('row-101', 1, 101, {(1, 101): 'sym'}),
    ('column-250-last-102', 250, 1, {(102, 1): 'sym'}),
]
for _lab, _r, _c, _stored in RANGE_CASES:
    def _unwrap(v):
        return v
    UNITS.append(Unit(
        id=f'C03/ast_nodes.RangeNode.eval/range_complete[{_lab}]', target='xlcalculator.ast_nodes:RangeNode.eval',
        inputs=[('far', FAR)],
        cases=[Case('each cell evaluated once in row-major order; values in place; every cell holding something is inside the extent',
                    lambda far: True,
                    (lambda r, c, st: lambda far, out: range_ens(r, c, st, None)(far.value, out))(_r, _c, _stored))],
        call=(lambda r, c, st: (lambda it, fn, far: range_call(False, r, c, st)(it, fn, far.value)))(_r, _c, _stored),
        native_call=(lambda r, c, st: (lambda fn, far: range_call(True, r, c, st)(fn, far.value)))(_r, _c, _stored),
        cross_key=lambda v: (v['log'], v['shape'], v['vals']) if isinstance(v, dict) else repr(v), max_paths=200))


# the same contract under the properties whose functions fold over the elements of a range: the elements they are handed are ALL the cells
# that hold something - a FALSE, a 0 or a 0.0 far down a long range as much as any other value (C10: AND / OR; C14: the aggregates)
for _prop in ('C10', 'C14'):
    for _lab, _r, _c, _stored in RANGE_CASES[1:3] + RANGE_CASES[6:9]:
        UNITS.append(Unit(
            id=f'{_prop}/ast_nodes.RangeNode.eval/every_element_is_handed_over[{_lab}]', target='xlcalculator.ast_nodes:RangeNode.eval', prop=_prop,
            inputs=[('far', FAR)],
            cases=[Case('the array handed to a function holds, in place, the value of every cell of the range that holds something - numbers, texts and '
                        'booleans of any value, FALSE and zero included - however many empty cells precede it',
                        lambda far: True,
                        (lambda r, c, st: lambda far, out: range_ens(r, c, st, None)(far.value, out))(_r, _c, _stored))],
            call=(lambda r, c, st: (lambda it, fn, far: range_call(False, r, c, st)(it, fn, far.value)))(_r, _c, _stored),
            native_call=(lambda r, c, st: (lambda fn, far: range_call(True, r, c, st)(fn, far.value)))(_r, _c, _stored),
            cross_key=lambda v: (v['log'], v['shape'], v['vals']) if isinstance(v, dict) else repr(v), max_paths=200))


# ---- P4': the extent is decided at EVERY evaluation (a cell that receives a value later is inside the next evaluation) -----------------------
def range_twice_call(native, rows):
    def call(it, fn, far):
        from xlcalculator import ast_nodes, xltypes
        log = []
        name = f'S!A1:A{rows}'
        mk = (lambda n, **kw: Stub(n, **kw)) if not native else (lambda n, **kw: type('O', (), kw)())
        cells = {addr(1, 1): mk('cell', formula=None, value=7)}

        def eval_cell(a):
            log.append(a)
            return T().Number(len(log))
        rng = xltypes.XLRange(name, name)                      # a REAL range object (whatever the code keeps on it, it can)
        if native:
            ctx = mk('ctx', sheet='S', refsheet='S', ranges={name: rng}, cells=cells)
            ctx.eval_cell = eval_cell
            ctx.set_sheet = lambda *a: None
        else:
            ctx = Stub('ctx', sheet='S', refsheet='S', ranges={name: rng}, cells=cells,
                       eval_cell=ModelFn(lambda it_, a: eval_cell(a), 'eval_cell'), set_sheet=ModelFn(lambda it_, *a: None, 'set_sheet'))
        node = ast_nodes.RangeNode(_tok(name[2:]))
        run = lambda: (it or _Native()).call(ast_nodes.RangeNode.eval, [node, ctx], {})
        first = tuple(run().shape)
        cells[addr(rows - 10, 1)] = mk('cell', formula=None, value=far)        # an input far down the range gets its first value
        n0 = len(log)
        second = tuple(run().shape)
        return dict(first=first, second=second, log2=log[n0:])
    if native:
        return lambda fn, far: call(None, fn, far)
    return call


def range_twice_ens(rows):
    def ens(far, out):
        if out.kind != 'ret':
            return False
        o = out.value
        nr, nc = o['second']
        if nc != 1 or o['log2'] != [addr(r, 1) for r in range(1, nr + 1)]:
            return False
        return Implies(used_spec(far), nr >= rows - 10)
    return ens


for _prop, _rows in (('C03', 150), ('C03', 400), ('C04', 150)):             # (C04: no stale range shape between evaluations)
    UNITS.append(Unit(
        id=f'{_prop}/ast_nodes.RangeNode.eval/extent_follows_the_cells[{_rows} rows]', target='xlcalculator.ast_nodes:RangeNode.eval', prop=_prop,
        inputs=[('far', FAR)],
        cases=[Case('a cell that receives a value after the range was first evaluated lies inside the extent of the next evaluation',
                    lambda far: True, (lambda n: lambda far, out: range_twice_ens(n)(far.value, out))(_rows))],
        call=(lambda n: (lambda it, fn, far: range_twice_call(False, n)(it, fn, far.value)))(_rows),
        native_call=(lambda n: (lambda fn, far: range_twice_call(True, n)(fn, far.value)))(_rows),
        cross_key=lambda v: (v['first'], v['second'], v['log2']) if isinstance(v, dict) else repr(v), max_paths=200))


# ---- P6: a reference to an address that holds no cell reads as blank - on any sheet, also one that holds nothing at all --------------
def _unstored_call(native):
    def call(it, fn, addr, stored):
        from xlcalculator import evaluator, xltypes, model as Mo
        m = Mo.Model()
        c1, c2 = xltypes.XLCell('Calc!A1', None), xltypes.XLCell('Data!B2', None)
        c1.value, c2.value = stored.value, 7
        m.cells, m.defined_names, m.ranges = {'Calc!A1': c1, 'Data!B2': c2}, {}, {}
        ev = evaluator.Evaluator(m, {})
        w = it or _Native()
        ctx = w.instantiate(evaluator.EvaluatorContext, [ev, 'Calc!C3'], {})
        res = w.call(evaluator.EvaluatorContext.eval_cell, [ctx, addr], {})
        again = w.call(evaluator.EvaluatorContext.eval_cell, [ctx, 'Calc!A1'], {})
        return dict(res=res, again=again, cells=sorted(m.cells), sheet=ctx.sheet)
    if native:
        return lambda fn, addr, stored: call(None, fn, addr, stored)
    return call


def _unstored_ens(addr, stored, out):
    if out.kind != 'ret':
        return False
    o = out.value
    if not isinstance(o['res'], T().Blank) or o['cells'] != ['Calc!A1', 'Data!B2'] or o['sheet'] != 'Calc':
        return False
    return spec.is_number(type('O', (), {'kind': 'ret', 'value': o['again']})(), stored.value)


UNITS.append(Unit(
    id='C03/evaluator.EvaluatorContext.eval_cell/unstored_address_reads_blank', target='xlcalculator.evaluator:EvaluatorContext.eval_cell', prop='C03',
    inputs=[('addr', Prim('str', domain=['Inputs!B2', "User Input!C3", 'Calc!Z9', 'Data!A1', 'Calc!A2', 'Notes!A1'])),
            ('stored', Xl('Number', 'real', domain=[1.5, 0.0]))],
    requires=lambda addr, stored: And(Not(spec.eq(addr, 'Calc!A1')), Not(spec.eq(addr, 'Data!B2'))),
    cases=[Case('ANY address at which the model stores no cell - on a sheet with other cells or on a sheet that holds nothing - reads as blank; no cell appears, '
                'the context keeps its sheet, and a stored cell still yields its value', lambda *a: True, _unstored_ens)],
    call=_unstored_call(False), native_call=_unstored_call(True),
    cross_key=lambda v: (repr(v['res']), repr(v['again']), v['cells'], v['sheet']) if isinstance(v, dict) else repr(v)))


# ---- P7: what is written as a reference leaves the scanner typed as a reference (the pass after the scan loop that types operands) ---------
def _typing_call(it, fn, text):
    import ast as pyast
    from pyvc.interp import func_ast, Env
    from xlcalculator import tokenizer
    f = tokenizer.ExcelParser.getTokens
    node = func_ast(f)
    # the pass that types operands: the top-level `while tokens2.moveNext()` loop that assigns token subtypes (anchored by content)
    loops = [n for n in node.body if isinstance(n, pyast.While) and pyast.unparse(n.test).replace(' ', '') == 'tokens2.moveNext()'
             and 'TOK_SUBTYPE_MATH' in pyast.unparse(n)]
    if len(loops) != 1:
        from pyvc.sym import Unsupported
        raise Unsupported('the operand-typing pass of getTokens is no longer a `while tokens2.moveNext()` loop: the contract does not apply')
    loop = loops[0]
    tokens2 = tokenizer.f_tokens()
    cur = tokenizer.f_token(text, 'operand', '')
    tokens2.items = [cur]
    env = Env({'self': tokenizer.ExcelParser(), 'tokens2': tokens2}, {}, f.__globals__, func=f)
    env.argnames = ['self']
    state = dict(env.loc)
    for st in node.body:
        if st is loop:
            break
        if isinstance(st, pyast.FunctionDef) or (isinstance(st, pyast.Assign) and isinstance(st.value, (pyast.Dict, pyast.Tuple, pyast.List, pyast.Set, pyast.Constant, pyast.Attribute))):
            try:
                it.stmt(st, env)
            except Exception:      # noqa
                pass
    env.loc.update(state)
    it.interpreted.add('xlcalculator.tokenizer:ExcelParser.getTokens(operand typing pass)')
    it.s_While(loop, env)
    return cur.tsubtype


def _typing_native(fn, text):
    """natively the pass cannot be entered in isolation: the whole tokenizer runs on the formula that writes `text` as a reference (the sheet
    part in quotes); a text the scanner does not hand to the pass as ONE operand is not reachable"""
    from pyvc.engine import NotReachable
    from xlcalculator import tokenizer
    if '!' in text:
        sheet, rest = text.rsplit('!', 1)
        formula = "'" + sheet.replace("'", "''") + "'!" + rest
    else:
        formula = text
    try:
        toks = tokenizer.ExcelParser().getTokens(formula).items
    except Exception as ex:      # noqa
        raise NotReachable(f'the scanner fails on {formula!r}: {type(ex).__name__}')
    if len(toks) != 1 or toks[0].ttype != 'operand' or toks[0].tvalue != text:
        raise NotReachable(f'{formula!r} does not reach the typing pass as the single operand {text!r}')
    return toks[0].tsubtype


def _typing_ens(text, out):
    if out.kind != 'ret':
        return False
    t = lift(text).t if is_sym(text) else None
    has = (lambda c: Sym(z3.Contains(t, z3.StringVal(c)), 'bool')) if t is not None else (lambda c: c in text)
    ref_marked = Or(has('!'), has('$'), has(':'))
    return Implies(ref_marked, out.value == 'range')


UNITS.append(Unit(
    id='C03/tokenizer.getTokens/operand_typing', target='xlcalculator.tokenizer:ExcelParser.getTokens',
    inputs=[('text', Prim('str', domain=['Sheet1!A1', '2023!B2', '1st Quarter!$C$3', '$A$1', 'A1:B2', '2:2', '2024 Plan!A1:B2', 'Data!A1', "It's!D4"]))],
    requires=lambda text: S.length(text) > 0,
    cases=[Case('an operand whose text carries a mark of a reference - the "!" after a sheet name (whatever the sheet is called: a title may start with a '
                'digit), a "$", the ":" of a range - leaves the scanner typed as a reference, never as a number or a logical value', lambda text: True, _typing_ens)],
    call=_typing_call, native_call=_typing_native))


# ---- P2'': the key a range is REGISTERED under and the key it is LOOKED UP under are the same text ---------------------------------------------
# Two functions must agree, neither is wrong alone: `XLFormula.__post_init__` names the ranges of a formula (these terms become the keys of
# `Model.ranges` / the dependency list), `RangeNode.full_address` builds the key the evaluation looks up.  For every spelling of a reference -
# single cells, rectangles, whole rows and whole columns, with `$` on either corner, qualified or not - and ANY sheet name, both are the
# `$`-free address on the sheet the reference is written for.  (The scanner is a collaborator handing out the reference token: C02.)
KEY_REFS = ['$A$1', 'A$1:$B2', '$A$1:B2', 'A1:$B$2', '$C:$C', 'C:$C', '$C:D', '$2:2', '2:$2', '$2:$3',
            'Data!$C:$C', 'Data!$2:$3', 'Data!A$1:$B2', 'Data!C:$D']


def keys_call(native, ref):
    def call(it, fn, sheet):
        from xlcalculator import xltypes, tokenizer, ast_nodes

        class Tokens:
            pass
        res = Tokens()
        res.items = [tokenizer.f_token('SUM', 'function', 'start'), _tok(ref), tokenizer.f_token('', 'function', 'stop')]
        text = f'=SUM({ref})'
        if native:
            real = tokenizer.ExcelParser.getTokens
            tokenizer.ExcelParser.getTokens = lambda self, formula: res
            try:
                f = xltypes.XLFormula(text, sheet)
            finally:
                tokenizer.ExcelParser.getTokens = real
            ctx = type('Ctx', (), {})()
            ctx.sheet = ctx.refsheet = sheet
        else:
            it.call_contracts[tokenizer.ExcelParser.getTokens] = ModelFn(lambda it_, self_, formula: res, 'ExcelParser.getTokens')
            f = it.instantiate(xltypes.XLFormula, [text, sheet], {})
            ctx = Stub('ctx', sheet=sheet, refsheet=sheet)
        node = ast_nodes.RangeNode(_tok(ref))
        looked = (it or _Native()).call(ast_nodes.RangeNode.full_address, [node, ctx], {})
        return dict(registered=list(f.terms), looked=looked)
    if native:
        return lambda fn, sheet: call(None, fn, sheet)
    return call


def keys_ens(ref):
    def ens(sheet, out):
        if out.kind != 'ret' or len(out.value['registered']) != 1:
            return False
        bare = ref.replace('$', '')
        exp = bare if '!' in bare else S.concat(sheet, '!', bare)
        return And(spec.eq(out.value['registered'][0], exp), spec.eq(out.value['looked'], exp))
    return ens


def _plain_sheet(s):
    t = lift(s).t
    return Sym(z3.And(z3.Length(t) > 0, z3.Not(z3.Contains(t, z3.StringVal('!'))), z3.Not(z3.Contains(t, z3.StringVal('$')))), 'bool') if is_sym(s) \
        else bool(s) and '!' not in s and '$' not in s


for _ref in KEY_REFS:
    UNITS.append(Unit(
        id=f'C03/registered_key_is_looked_up_key[{_ref}]', target='xlcalculator.ast_nodes:RangeNode.full_address',
        inputs=[('sheet', Prim('str', domain=['Sheet1', 'My Sheet', 'Data']))], requires=lambda sheet: _plain_sheet(sheet),
        cases=[Case('the key a reference is registered under (the formula\'s term) and the key the evaluation looks up are both the $-free address on '
                    'the sheet the reference is written for - whole rows and whole columns with $ markers included - for ANY sheet name',
                    lambda s: True, keys_ens(_ref))],
        canary=Case('canary', lambda s: True, (lambda r: lambda s, out: out.kind == 'ret' and spec.eq(out.value['looked'], r))(_ref)),
        call=keys_call(False, _ref), native_call=keys_call(True, _ref),
        cross_key=lambda r: (r['registered'], r['looked']) if isinstance(r, dict) else repr(r), timeout_ms=30000))
