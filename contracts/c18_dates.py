"""C18  Date serials and date functions follow the 1900 date system.

`utils.number_to_datetime` / `datetime_to_number`, YEAR, MONTH, DAY, ISOWEEKNUM, WEEKDAY (all return types) and DAYS are
interpreted from source for EVERY whole serial (a symbolic integer) on the exact day-ordinal model of datetime
(pyvc/models_datetime.py).  Proved: the serial <-> ordinal offset (serial 1 = 1900-01-01, 59 = 1900-02-28, 61 = 1900-03-01,
monotone, mutually inverse for every whole serial but 60), that WEEKDAY applies the right rotation for each return type,
and that YEAR/MONTH/DAY/ISOWEEKNUM select the respective field of that date.  The Gregorian field functions of an
ordinal (datetime's own arithmetic), relativedelta and the yearfrac package are assumed dependencies: DATE, EDATE,
EOMONTH, DATEDIF, YEARFRAC and the time-of-day fraction are decided by the bounded layer (exhaustive over all serials
in the thorough tier).
"""
import z3

from pyvc.engine import Unit, Case, Fork, Xl, XlDate, Prim, Const, OMITTED, call_dropping_omitted, native_dropping_omitted
from pyvc import spec, sym as S, models as M, models_datetime as MD
from pyvc.sym import Sym, is_sym, And, Or, Not, Implies, Ite

EPOCH_ORD = 693596
MAXS = 2958465
UNITS = []
SER = [1, 2, 58, 59, 61, 62, 366, 367, 43831, 44000, 2958465]


def T():
    return spec.T()


def ordinal_of(n):
    """ordinal of the date a whole serial denotes in the 1900 system"""
    return EPOCH_ORD + n - Ite(n > 59, 2, 1)


def _ord_of_result(v):
    if isinstance(v, MD.SymDateTime):
        return v.ord, v.sec
    return v.toordinal(), v.hour * 3600 + v.minute * 60 + v.second


UNITS.append(Unit(
    id='C18/utils.number_to_datetime', target='xlcalculator.xlfunctions.utils:number_to_datetime',
    inputs=[('n', Prim('int', domain=SER))], requires=lambda n: And(n >= 1, n <= MAXS, Not(spec.eq(n, 60))),
    cases=[Case('whole serial n is midnight of day n-1 (n <= 59) resp. n-2 (n >= 61) after 1900-01-01', lambda n: True,
                lambda n, out: out.kind == 'ret' and And(spec.eq(_ord_of_result(out.value)[0], ordinal_of(n)), spec.eq(_ord_of_result(out.value)[1], 0)))],
    canary=Case('canary', lambda n: True, lambda n, out: out.kind == 'ret' and spec.eq(_ord_of_result(out.value)[0], EPOCH_ORD + n))))


def _roundtrip_call(it, fn, n):
    from xlcalculator.xlfunctions import utils
    return it.call(utils.datetime_to_number, [it.call(utils.number_to_datetime, [n], {})], {})


def _roundtrip_native(fn, n):
    from xlcalculator.xlfunctions import utils
    return utils.datetime_to_number(utils.number_to_datetime(n))


UNITS.append(Unit(
    id='C18/utils.roundtrip', target='xlcalculator.xlfunctions.utils:datetime_to_number',
    inputs=[('n', Prim('int', domain=SER))], requires=lambda n: And(n >= 1, n <= MAXS, Not(spec.eq(n, 60))),
    cases=[Case('datetime_to_number(number_to_datetime(n)) == n for every whole serial but 60 (bijection; monotone by the offset formula)',
                lambda n: True, lambda n, out: out.kind == 'ret' and spec.num_eq(out.value, n))],
    call=_roundtrip_call, native_call=_roundtrip_native))

# ---- fields ---------------------------------------------------------------------------------------------------------------------
FIELD = {'YEAR': MD.YEAR_OF, 'MONTH': MD.MONTH_OF, 'DAY': MD.DAY_OF, 'ISOWEEKNUM': MD.ISOWEEK_OF}
for _f, _uf in FIELD.items():
    UNITS.append(Unit(
        id=f'C18/date.{_f}', target=f'xlcalculator.xlfunctions.date:{_f}',
        inputs=[('serial', Fork([Xl('Number', 'int', domain=SER[4:]), Prim('int', domain=SER[4:], label='native int')]))],
        requires=lambda s: And(spec.num_form(s) >= 61, spec.num_form(s) <= MAXS),
        cases=[Case(f'{_f} = the {_f.lower()} field of the Gregorian date of the serial', lambda s: True,
                    (lambda uf_: lambda s, out: spec.numeric_result(out, uf_(ordinal_of(spec.num_form(s)))))(_uf))],
        canary=Case('canary', lambda s: True, (lambda uf_: lambda s, out: spec.numeric_result(out, uf_(ordinal_of(spec.num_form(s)) + 1)))(_uf))))

# ---- WEEKDAY ---------------------------------------------------------------------------------------------------------------------
WD = {1: (1, 6), 2: (1, 0), 3: (0, 0), 11: (1, 0), 12: (1, 1), 13: (1, 2), 14: (1, 3), 15: (1, 4), 16: (1, 5), 17: (1, 6)}


def _weekday_ref(n, rt):
    base, first = WD[rt]
    wd = (ordinal_of(n) + 6) % 7                  # python weekday(): ordinal 1 is a Monday
    return (wd - first) % 7 + base


for _rt in list(WD) + [None]:
    UNITS.append(Unit(
        id=f'C18/date.WEEKDAY[{_rt}]', target='xlcalculator.xlfunctions.date:WEEKDAY',
        inputs=[('serial', Xl('Number', 'int', domain=SER[4:] + list(range(43831, 43838)))),
                ('rt', Const(OMITTED if _rt is None else _rt, f'return_type={_rt}'))],
        requires=lambda s, rt: And(s.value >= 61, s.value <= MAXS),
        cases=[Case('WEEKDAY = ((weekday - first day of the week) mod 7) + base for this return type', lambda s, rt: True,
                    (lambda r: lambda s, rt, out: spec.numeric_result(out, _weekday_ref(s.value, 1 if r is None else r)))(_rt))],
        call=call_dropping_omitted, native_call=native_dropping_omitted))
UNITS.append(Unit(
    id='C18/date.WEEKDAY[other]', target='xlcalculator.xlfunctions.date:WEEKDAY',
    inputs=[('serial', Xl('Number', 'int', domain=[44000])), ('rt', Xl('Number', 'int', domain=[0, 4, 10, 18, -1]))],
    requires=lambda s, rt: And(s.value >= 61, s.value <= MAXS, Not(Or(*[spec.eq(rt.value, k) for k in WD]))),
    cases=[Case('any other return type gives #NUM!', lambda s, rt: True, lambda s, rt, out: spec.is_error(out, 'NumExcelError'))]))

# ---- DAYS ---------------------------------------------------------------------------------------------------------------------------
def _serial_of(d):
    v = d.value
    o = v.ord if isinstance(v, MD.SymDateTime) else v.toordinal()
    k = o - EPOCH_ORD
    return k + Ite(k > 58, 2, 1)


UNITS.append(Unit(
    id='C18/date.DAYS', target='xlcalculator.xlfunctions.date:DAYS', inputs=[('end', XlDate()), ('start', XlDate())],
    cases=[Case('DAYS = difference of the serials', lambda e, s: True,
                lambda e, s, out: spec.is_number(out, _serial_of(e) - _serial_of(s), tol=1e-12))]))
