"""C18  Date serials and date functions follow the 1900 date system.

`utils.number_to_datetime` / `datetime_to_number`, YEAR, MONTH, DAY, ISOWEEKNUM, WEEKDAY (all return types) and DAYS are
interpreted from source for EVERY whole serial (a symbolic integer) on the exact day-ordinal model of datetime
(pyvc/models_datetime.py).  Proved: the serial <-> ordinal offset (serial 1 = 1900-01-01, 59 = 1900-02-28, 61 = 1900-03-01,
monotone, mutually inverse for every whole serial but 60), that WEEKDAY applies the right rotation for each return type,
and that YEAR/MONTH/DAY/ISOWEEKNUM select the respective field of that date.  The Gregorian field functions of an
ordinal (datetime's own arithmetic), relativedelta and the yearfrac package are assumed dependencies: DATE, EDATE,
EOMONTH, DATEDIF, YEARFRAC and the time-of-day fraction are decided by the bounded layer (exhaustive over all serials
in the thorough tier).
"""
import z3

from pyvc.engine import Unit, Case, Fork, Xl, XlDate, Prim, Const, OMITTED, call_dropping_omitted, native_dropping_omitted
from pyvc import spec, sym as S, models as M, models_datetime as MD
from pyvc.sym import Sym, is_sym, And, Or, Not, Implies, Ite

EPOCH_ORD = 693596
MAXS = 2958465
UNITS = []
SER = [1, 2, 58, 59, 61, 62, 366, 367, 43831, 44000, 2958465]


def T():
    return spec.T()


def ordinal_of(n):
    """ordinal of the date a whole serial denotes in the 1900 system"""
    return EPOCH_ORD + n - Ite(n > 59, 2, 1)


def _ord_of_result(v):
    if isinstance(v, MD.SymDateTime):
        return v.ord, v.sec
    return v.toordinal(), v.hour * 3600 + v.minute * 60 + v.second


UNITS.append(Unit(
    id='C18/utils.number_to_datetime', target='xlcalculator.xlfunctions.utils:number_to_datetime',
    inputs=[('n', Prim('int', domain=SER))], requires=lambda n: And(n >= 1, n <= MAXS, Not(spec.eq(n, 60))),
    cases=[Case('whole serial n is midnight of day n-1 (n <= 59) resp. n-2 (n >= 61) after 1900-01-01', lambda n: True,
                lambda n, out: out.kind == 'ret' and And(spec.eq(_ord_of_result(out.value)[0], ordinal_of(n)), spec.eq(_ord_of_result(out.value)[1], 0)))],
    canary=Case('canary', lambda n: True, lambda n, out: out.kind == 'ret' and spec.eq(_ord_of_result(out.value)[0], EPOCH_ORD + n))))


def _roundtrip_call(it, fn, n):
    from xlcalculator.xlfunctions import utils
    return it.call(utils.datetime_to_number, [it.call(utils.number_to_datetime, [n], {})], {})


def _roundtrip_native(fn, n):
    from xlcalculator.xlfunctions import utils
    return utils.datetime_to_number(utils.number_to_datetime(n))


UNITS.append(Unit(
    id='C18/utils.roundtrip', target='xlcalculator.xlfunctions.utils:datetime_to_number',
    inputs=[('n', Prim('int', domain=SER))], requires=lambda n: And(n >= 1, n <= MAXS, Not(spec.eq(n, 60))),
    cases=[Case('datetime_to_number(number_to_datetime(n)) == n for every whole serial but 60 (bijection; monotone by the offset formula)',
                lambda n: True, lambda n, out: out.kind == 'ret' and spec.num_eq(out.value, n))],
    call=_roundtrip_call, native_call=_roundtrip_native))

# ---- fields ---------------------------------------------------------------------------------------------------------------------
FIELD = {'YEAR': MD.YEAR_OF, 'MONTH': MD.MONTH_OF, 'DAY': MD.DAY_OF, 'ISOWEEKNUM': MD.ISOWEEK_OF}
for _f, _uf in FIELD.items():
    UNITS.append(Unit(
        id=f'C18/date.{_f}', target=f'xlcalculator.xlfunctions.date:{_f}',
        inputs=[('serial', Fork([Xl('Number', 'int', domain=SER[4:]), Prim('int', domain=SER[4:], label='native int')]))],
        requires=lambda s: And(spec.num_form(s) >= 61, spec.num_form(s) <= MAXS),
        cases=[Case(f'{_f} = the {_f.lower()} field of the Gregorian date of the serial', lambda s: True,
                    (lambda uf_: lambda s, out: spec.numeric_result(out, uf_(ordinal_of(spec.num_form(s)))))(_uf))],
        canary=Case('canary', lambda s: True, (lambda uf_: lambda s, out: spec.numeric_result(out, uf_(ordinal_of(spec.num_form(s)) + 1)))(_uf))))

# ---- WEEKDAY ---------------------------------------------------------------------------------------------------------------------
WD = {1: (1, 6), 2: (1, 0), 3: (0, 0), 11: (1, 0), 12: (1, 1), 13: (1, 2), 14: (1, 3), 15: (1, 4), 16: (1, 5), 17: (1, 6)}


def _weekday_ref(n, rt):
    base, first = WD[rt]
    wd = (ordinal_of(n) + 6) % 7                  # python weekday(): ordinal 1 is a Monday
    return (wd - first) % 7 + base


for _rt in list(WD) + [None]:
    UNITS.append(Unit(
        id=f'C18/date.WEEKDAY[{_rt}]', target='xlcalculator.xlfunctions.date:WEEKDAY',
        inputs=[('serial', Xl('Number', 'int', domain=SER[4:] + list(range(43831, 43838)))),
                ('rt', Const(OMITTED if _rt is None else _rt, f'return_type={_rt}'))],
        requires=lambda s, rt: And(s.value >= 61, s.value <= MAXS),
        cases=[Case('WEEKDAY = ((weekday - first day of the week) mod 7) + base for this return type', lambda s, rt: True,
                    (lambda r: lambda s, rt, out: spec.numeric_result(out, _weekday_ref(s.value, 1 if r is None else r)))(_rt))],
        call=call_dropping_omitted, native_call=native_dropping_omitted))
UNITS.append(Unit(
    id='C18/date.WEEKDAY[other]', target='xlcalculator.xlfunctions.date:WEEKDAY',
    inputs=[('serial', Xl('Number', 'int', domain=[44000])), ('rt', Xl('Number', 'int', domain=[0, 4, 10, 18, -1]))],
    requires=lambda s, rt: And(s.value >= 61, s.value <= MAXS, Not(Or(*[spec.eq(rt.value, k) for k in WD]))),
    cases=[Case('any other return type gives #NUM!', lambda s, rt: True, lambda s, rt, out: spec.is_error(out, 'NumExcelError'))]))

# ---- DAYS ---------------------------------------------------------------------------------------------------------------------------
def _serial_of(d):
    v = d.value
    o = v.ord if isinstance(v, MD.SymDateTime) else v.toordinal()
    k = o - EPOCH_ORD
    return k + Ite(k > 58, 2, 1)


UNITS.append(Unit(
    id='C18/date.DAYS', target='xlcalculator.xlfunctions.date:DAYS', inputs=[('end', XlDate()), ('start', XlDate())],
    cases=[Case('DAYS = difference of the serials', lambda e, s: True,
                lambda e, s, out: spec.is_number(out, _serial_of(e) - _serial_of(s), tol=1e-12))]))


# ---- EDATE / EOMONTH / DATE on the exact calendar ---------------------------------------------------------------------------------------------
# The year / month / day of an ordinal are no longer merely "what datetime says": the model ties them to the ordinal by the calendar itself
# (models_datetime._cal_ax: a valid (y, m, d) whose ordinal it is - which determines them), and dateutil's relativedelta (years / months /
# days / day) and datetime.replace are modelled exactly on it.  So "move by whole months clipping to the month's end" is decided for EVERY
# start date and EVERY month offset.
def _z(x):
    return x.t if is_sym(x) else z3.IntVal(int(x))


def _moved(start_ord, months, to_month_end):
    """(year, month, day, ordinal) of the date `months` months from the date of `start_ord`, day clipped to the month's end (or AT the month's end)"""
    o = _z(start_ord)
    y0, m0, d0 = MD.YEAR_OF(start_ord), MD.MONTH_OF(start_ord), MD.DAY_OF(start_ord)
    idx = _z(y0) * 12 + _z(m0) - 1 + _z(months)
    y, m = idx / 12, idx % 12 + 1                       # z3: floor division / non-negative remainder for a positive divisor
    dim = MD.z_dim(y, m)
    d = dim if to_month_end else z3.If(_z(d0) > dim, dim, _z(d0))
    return y, m, d, MD.z_ord(y, m, d)


def _serial_z(o):
    k = o - EPOCH_ORD
    return k + z3.If(k > 58, 2, 1)


def _res_serial(v):
    """the serial a result stands for: a DateTime (whole day) or a number"""
    t = T()
    if isinstance(v, t.DateTime):
        dv = v.value
        if isinstance(dv, MD.SymDateTime):
            return _zn(_serial_z(_z(dv.ord))), dv.sec
        o = dv.toordinal() - EPOCH_ORD
        return o + (2 if o > 58 else 1), dv.hour * 3600 + dv.minute * 60 + dv.second
    if isinstance(v, t.Number):
        v = v.value
    return v, 0


def _zb(e):
    """a z3 Bool that is a constant becomes a Python bool (the native replay evaluates the same clause on concrete inputs)"""
    e = z3.simplify(e)
    if z3.is_true(e):
        return True
    if z3.is_false(e):
        return False
    return Sym(e, 'bool')


def _zn(e):
    e = z3.simplify(e)
    return e.as_long() if z3.is_int_value(e) else Sym(e, 'int')


def _moved_ens(to_month_end):
    def ens(start, months, out):
        so = start.value.ord if isinstance(start.value, MD.SymDateTime) else start.value.toordinal()
        y, m, d, o = _moved(so, months.value, to_month_end)
        in_cal = _zb(z3.And(y >= 1, y <= 9999))
        # serial 1 IS 1900-01-01: only a result BEFORE that day has no serial (the statement's 1900 system)
        before = _zb(o < EPOCH_ORD)
        if out.kind != 'ret':
            return False
        if isinstance(out.value, spec.E().ExcelError):
            return And(in_cal, before, isinstance(out.value, spec.E().NumExcelError))
        ser, sec = _res_serial(out.value)
        return And(in_cal, Not(before), spec.num_eq(ser, _zn(_serial_z(o))), spec.eq(sec, 0))
    return ens


def _moved_req(start, months):
    so = start.value.ord if isinstance(start.value, MD.SymDateTime) else start.value.toordinal()
    y, m, d, o = _moved(so, months.value, False)
    # dates from 1900-03-01 on (serials >= 61: below, the serial of a date is shifted by the phantom leap day) and a result inside the calendar
    return And(so >= EPOCH_ORD + 59, _zb(z3.And(y >= 1, y <= 9999)))


for _fn, _end in (('EDATE', False), ('EOMONTH', True)):
    UNITS.append(Unit(
        id=f'C18/date.{_fn}/exact_calendar', target=f'xlcalculator.xlfunctions.date:{_fn}',
        inputs=[('start', XlDate()), ('months', Xl('Number', 'int', domain=[1, -1, 12, 13, -14, 1200]))], requires=_moved_req,
        cases=[Case(f'{_fn} moves by whole months - year and month carried in either direction - ' +
                    ('to the LAST day of that month (28 / 29 / 30 / 31 by the Gregorian rule, century years included)' if _end
                     else 'keeping the day of the month, clipped to the month\'s end') + '; #NUM! exactly when the result lies before 1900-01-01 (serial 1)',
                    lambda s, m: True, _moved_ens(_end))],
        canary=Case('canary', lambda s, m: True, (lambda e: lambda s, m, out: _moved_ens(not e)(s, m, out))(_end)), timeout_ms=60000))


# ---- DATEDIF D / M / Y on the exact calendar ----------------------------------------------------------------------------------------------------
# complete months between two dates: a month counts once the start's day of the month is reached again; complete years = complete months // 12;
# days = difference of the ordinals - for EVERY ordered pair of dates from 1900-03-01 on.  The reference is written over the calendar fields
# of the two ORDINALS (tied to them by the calendar axiom), not over what the code computed on the way.
def _ord_of(d):
    return d.value.ord if isinstance(d.value, MD.SymDateTime) else d.value.toordinal()


def _datedif_ref(unit, s, e):
    so, eo = _ord_of(s), _ord_of(e)
    if unit == 'D':
        return eo - so
    sy, sm, sd = MD.YEAR_OF(so), MD.MONTH_OF(so), MD.DAY_OF(so)
    ey, em, ed = MD.YEAR_OF(eo), MD.MONTH_OF(eo), MD.DAY_OF(eo)
    months = (ey - sy) * 12 + em - sm - Ite(ed < sd, 1, 0)
    if unit == 'M':
        return months
    return S.arith(S.ast.FloorDiv, months, 12) if is_sym(months) else months // 12


for _u in ('D', 'M', 'Y', 'm', 'y'):
    UNITS.append(Unit(
        id=f'C18/date.DATEDIF[{_u}]/exact_calendar', target='xlcalculator.xlfunctions.date:DATEDIF',
        inputs=[('start', XlDate()), ('end', XlDate()), ('unit', Const(_u, f'unit "{_u}"'))],
        requires=lambda s, e, u: And(_ord_of(s) >= EPOCH_ORD + 59, _ord_of(s) <= _ord_of(e)),
        cases=[Case('DATEDIF gives the days (D), the complete months (M: a month counts once the day of the month is reached again) and the complete '
                    'years (Y) between two dates', lambda *a: True,
                    (lambda u_: lambda s, e, u, out: spec.numeric_result(out, _datedif_ref(u_.upper(), s, e)))(_u))],
        canary=Case('canary', lambda *a: True, (lambda u_: lambda s, e, u, out: spec.numeric_result(out, _datedif_ref(u_.upper(), s, e) + 1))(_u)),
        timeout_ms=60000))


# ---- DATE on the exact calendar: months and days far outside their ranges are carried into the next units ---------------------------------------
def _date_ref(y, m, d):
    yy = Ite(y < 1900, y + 1900, y)
    idx = _z(yy) * 12 + _z(m) - 1
    Y, Mo = idx / 12, idx % 12 + 1
    return Y, MD.z_ord(Y, Mo, z3.IntVal(1)) + _z(d) - 1


def _date_req(y, m, d):
    Y, o = _date_ref(y.value, m.value, d.value)
    return And(y.value >= 0, y.value <= 9999, _zb(z3.And(Y >= 1, Y <= 9999, o >= MD.MIN_ORD, o <= MD.MAX_ORD)))


def _date_ens(y, m, d, out):
    Y, o = _date_ref(y.value, m.value, d.value)
    before = _zb(o < EPOCH_ORD)
    if out.kind != 'ret':
        return False
    if isinstance(out.value, spec.E().ExcelError):
        return And(before, isinstance(out.value, spec.E().NumExcelError))
    ser, sec = _res_serial(out.value)
    return And(Not(before), spec.num_eq(ser, _zn(_serial_z(o))), spec.eq(sec, 0))


UNITS.append(Unit(
    id='C18/date.DATE/exact_calendar', target='xlcalculator.xlfunctions.date:DATE',
    inputs=[('year', Xl('Number', 'int', domain=[2024, 1900, 99, 9999])), ('month', Xl('Number', 'int', domain=[2, 14, 0, -11, 120])),
            ('day', Xl('Number', 'int', domain=[29, 0, 31, 400, -5]))], requires=_date_req,
    cases=[Case('DATE(y, m, d) is day d of month m of year y (two-digit-style years below 1900 count from 1900), months and days outside their ranges '
                'carried into the next units in either direction; #NUM! exactly when the result lies before 1900-01-01',
                lambda *a: True, _date_ens)],
    timeout_ms=60000))
