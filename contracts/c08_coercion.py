"""C08  Functions coerce arguments the Excel way, however the value is spelt.

  casts      `Number.cast` / `Text.cast` (the conversions `validate_args` applies to XlNumber / XlText parameters, reached
             through `TYPE_TO_CAST`) interpreted from source over every spelling class with SYMBOLIC content: native int /
             float / bool / str / None, Number[int|float], Boolean, Blank, Text: numbers stay, TRUE = 1, FALSE = 0, blank = 0,
             numeric text is the number `int()` / `float()` reads (uninterpreted, with int(str(i)) == i), text that neither
             reads as a number, a boolean word nor a date raises #VALUE!; the text form of a value is the same string for
             every spelling of it.
  arithmetic OP_ADD/SUB/MUL/DIV over all pairs of {Number, Boolean, Blank, numeric Text}: the operation on the numeric readings.
  names      `FunctionNode.eval`: the function is looked up under the upper-cased name without an `_xlfn.` prefix, its
             (eager) arguments are evaluated once each, left to right, and handed over in order.
  registry   every numeric parameter of every registered function is annotated with a converting alias (finite scan of the
             real signature table).
"""
import inspect
import z3

from pyvc.engine import Unit, Case, Fork, Xl, XlBlank, Prim, Const
from pyvc.interp import Stub, ModelFn
from pyvc import spec, sym as S, models as M
from pyvc.sym import Sym, is_sym, And, Or, Not, Implies, Ite

FT = 'xlcalculator.xlfunctions.func_xltypes'
UNITS = []


def T():
    return spec.T()


SPELLINGS = [Prim('int', label='native int'), Prim('real', label='native float'), Prim('bool', label='native bool'),
             Xl('Number', 'int'), Xl('Number', 'real'), Xl('Boolean', 'bool'), XlBlank(), Const(None, 'None')]


def num_reading(x):
    """the number a non-text spelling denotes"""
    t = T()
    if x is None or isinstance(x, t.Blank):
        return 0
    v = x.value if isinstance(x, (t.Number, t.Boolean)) else x
    if isinstance(v, bool):
        return int(v)
    if is_sym(v) and v.k == 'bool':
        return Ite(v, 1, 0)
    return v


def cast_call(cls):
    def call(it, fn, x):
        return it.call(getattr(T(), cls).cast, [x], {})

    def native(fn, x):
        return getattr(T(), cls).cast(x)
    return call, native


_c, _n = cast_call('Number')
UNITS.append(Unit(
    id='C08/func_xltypes.Number.cast/non-text', target=f'{FT}:Number.cast', inputs=[('x', Fork(SPELLINGS))],
    cases=[Case('a number however spelt is that number; TRUE = 1, FALSE = 0, blank = 0', lambda x: True,
                lambda x, out: spec.is_number(out, num_reading(x)))],
    canary=Case('canary', lambda x: True, lambda x, out: spec.is_number(out, num_reading(x) + 1)), call=_c, native_call=_n))

TEXTS = Fork([Xl('Text', 'str', domain=['3', '-2.5', '1E+3', ' 7 ', 'abc', '', '1abc', 'x1']), Prim('str', domain=['3', '2.5', 'abc', ''], label='native str')])


def _txt(x):
    return x.value if isinstance(x, T().Text) else x


def _is_intlit(s):
    return M.INT_OK(s, 10)


def _word(s):
    low = M.LOWER(s)
    return Or(spec.eq(low, 'true'), spec.eq(low, 'false'))


def text_numeric_ens(x, out):
    s = _txt(x)
    return Ite(_is_intlit(s), spec.is_number(out, M.INT_OF(s, 10)), spec.is_number(out, M.FLOAT_OF(s))) if is_sym(s) else \
        (spec.is_number(out, int(s)) if M.INT_OK(s, 10) else spec.is_number(out, float(s)))


UNITS.append(Unit(
    id='C08/func_xltypes.Number.cast/text', target=f'{FT}:Number.cast', inputs=[('x', TEXTS)],
    allowed_raises=(Exception,),
    cases=[Case('numeric text is the number it reads as', lambda x: Or(_is_intlit(_txt(x)), M.FLOAT_OK(_txt(x))), text_numeric_ens),
           Case('text that is neither a number, a boolean word nor a date gives #VALUE!',
                lambda x: And(Not(_is_intlit(_txt(x))), Not(M.FLOAT_OK(_txt(x))), Not(_word(_txt(x))), Not(M.DATEUTIL_OK(_txt(x)))),
                lambda x, out: out.kind == 'raise' and isinstance(out.value, spec.E().ValueExcelError))],
    call=_c, native_call=_n))

_ct, _nt = cast_call('Text')
UNITS.append(Unit(
    id='C08/func_xltypes.Text.cast', target=f'{FT}:Text.cast', inputs=[('x', Fork(SPELLINGS[:7] + [Xl('Text', 'str'), Prim('str', label='native str')]))],
    cases=[Case('the text form of a value does not depend on how the value is spelt (native or value object)', lambda x: True,
                lambda x, out: spec.is_text(out, spec.text_form(x)))],
    call=_ct, native_call=_nt))

# ---- arithmetic on mixed classes --------------------------------------------------------------------------------------------------
ARITH = [Xl('Number', 'int', domain=[-2, 0, 3]), Xl('Number', 'real', domain=[-0.5, 2.5]), Xl('Boolean', 'bool'), XlBlank(),
         Xl('Text', 'str', domain=['3', '-4', '10'])]


def reading(x):
    if isinstance(x, T().Text):
        return M.INT_OF(x.value, 10)
    return num_reading(x)


def _numeric_text(x):
    return M.INT_OK(x.value, 10) if isinstance(x, T().Text) else True


OPS = {'OP_ADD': lambda a, b: a + b, 'OP_SUB': lambda a, b: a - b, 'OP_MUL': lambda a, b: a * b}
for _name, _f in OPS.items():
    UNITS.append(Unit(
        id=f'C08/operator.{_name}', target=f'xlcalculator.xlfunctions.operator:{_name}', fork='product',
        inputs=[('a', Fork(ARITH)), ('b', Fork(ARITH))],
        requires=lambda a, b: And(_numeric_text(a), _numeric_text(b)),
        cases=[Case('arithmetic works on the numeric readings of its operands ("3"+1 = 4, TRUE+1 = 2, blank+1 = 1)', lambda a, b: True,
                    (lambda f: lambda a, b, out: spec.is_number(out, f(reading(a), reading(b)), tol=1e-12))(_f))],
        bounded_domain_cap=200))
UNITS.append(Unit(
    id='C08/operator.OP_DIV', target='xlcalculator.xlfunctions.operator:OP_DIV', fork='product',
    inputs=[('a', Fork(ARITH)), ('b', Fork(ARITH))],
    requires=lambda a, b: And(_numeric_text(a), _numeric_text(b)),
    cases=[Case('division works on the numeric readings; a divisor reading as zero gives #DIV/0!', lambda a, b: True,
                lambda a, b, out: Ite(spec.eq(reading(b), 0), spec.is_error(out, 'DivZeroExcelError'), spec.is_number(out, reading(a) / reading(b), tol=1e-12))
                if is_sym(reading(b)) else (spec.is_error(out, 'DivZeroExcelError') if reading(b) == 0 else spec.is_number(out, reading(a) / reading(b), tol=1e-12)))],
    bounded_domain_cap=200))


# ---- function names ------------------------------------------------------------------------------------------------------------------
def name_call(native, written):
    def call(it, fn):
        from xlcalculator import ast_nodes, tokenizer
        log, got = [], {}

        def SUM(a, b, c):
            got['args'] = (a, b, c)
            return 'RESULT'
        nodes = []
        for i in range(3):
            if native:
                nodes.append(type('N', (), {'eval': (lambda i: lambda self, ctx: (log.append(i), f'v{i}')[1])(i)})())
            else:
                nodes.append(Stub(f'a{i}', eval=ModelFn((lambda i: lambda it_, ctx: (log.append(i), f'v{i}')[1])(i), 'eval')))
        node = ast_nodes.FunctionNode(tokenizer.f_token(written, 'function', ''))
        node.args = nodes
        ns = {'SUM': SUM, 'sum': None, '_XLFN.SUM': None}
        ctx = (type('C', (), {'namespace': ns, 'ref': 'S!A1'})() if native else Stub('ctx', namespace=ns, ref='S!A1'))
        if native:
            res = node.eval(ctx)
        else:
            it.call_contracts[SUM] = ModelFn(lambda it_, *a: SUM(*a), 'SUM')
            res = it.call(ast_nodes.FunctionNode.eval, [node, ctx], {})
        return res, got.get('args'), tuple(log)
    if native:
        return lambda fn: call(None, fn)
    return call


for _w in ('SUM', 'sum', 'Sum', '_xlfn.SUM', '_XLFN.sum', '_xlfn.Sum'):
    UNITS.append(Unit(
        id=f'C08/ast_nodes.FunctionNode.eval/name[{_w}]', target='xlcalculator.ast_nodes:FunctionNode.eval', inputs=[],
        cases=[Case('the function registered under the upper-case name is called with its arguments evaluated once, in order', lambda: True,
                    lambda out: out.kind == 'ret' and out.value == ('RESULT', ('v0', 'v1', 'v2'), (0, 1, 2)))],
        call=name_call(False, _w), native_call=name_call(True, _w)))


# ---- the registry: numeric parameters are annotated with converting aliases ----------------------------------------------------------
def scan_annotations(*a):
    import xlcalculator                                     # noqa
    from xlcalculator.xlfunctions import xl, engineering, func_xltypes as t    # noqa
    bad = []
    for name, fn in sorted(xl.FUNCTIONS.items()):
        for p in inspect.signature(fn).parameters.values():
            if p.annotation in (t.Number, t.Text, t.Boolean, t.DateTime) and p.kind in (p.POSITIONAL_ONLY, p.POSITIONAL_OR_KEYWORD):
                bad.append(f'{name}({p.name}: {p.annotation.__name__})')
    return bad


UNITS.append(Unit(
    id='C08/xl.FUNCTIONS/annotations_convert', target='xlcalculator.xlfunctions.xl:validate_args', inputs=[],
    cases=[Case('no scalar parameter of a registered function is annotated with a value CLASS (which validate_args passes through unconverted) instead of the converting alias',
                lambda: True, lambda out: out.kind == 'ret' and out.value == [])],
    call=lambda it, fn: scan_annotations(), native_call=lambda fn: scan_annotations()))


def scan_memo(*a):
    import ast as pyast
    import importlib
    bad = []
    for modname in ('xlcalculator.xlfunctions.func_xltypes', 'xlcalculator.xlfunctions.xl'):
        mod = importlib.import_module(modname)
        tree = pyast.parse(inspect.getsource(mod))
        for n in pyast.walk(tree):
            if isinstance(n, (pyast.FunctionDef, pyast.ClassDef)):
                for d in n.decorator_list:
                    txt = pyast.unparse(d)
                    if 'lru_cache' in txt or txt.split('(')[0].split('.')[-1] in ('cache', 'memoize'):
                        bad.append(f'{modname}:{n.name} @{txt}')
    return bad


UNITS.append(Unit(
    id='C08/conversions/no_equality_keyed_memo', target=f'{FT}:ExcelType.cast', inputs=[],
    cases=[Case('conversions are not memoised by argument equality (1, True and 1.0 are equal and hash alike in Python but are different Excel values)',
                lambda: True, lambda out: out.kind == 'ret' and out.value == [])],
    call=lambda it, fn: scan_memo(), native_call=lambda fn: scan_memo()))


# ---- every registered name, every spelling --------------------------------------------------------------------------------------------
USER_ADDED = ['XOR', 'XLOOKUP', 'NUMBERVALUE', 'FILTER', 'LET', 'N', 'T', 'LN2', 'FLOOR.MATH', 'NORM.S.DIST']


def scan_names(*a):
    """FunctionNode.eval, run on a call of every registered function name (and some names a user might add) in every
    spelling - upper / lower / capitalised, with and without an `_xlfn.` prefix in either case: the callable filed under
    the upper-case name is the one that is called"""
    import xlcalculator                                     # noqa
    from xlcalculator.xlfunctions import xl, engineering    # noqa
    from xlcalculator import ast_nodes, tokenizer
    names = sorted(set(xl.FUNCTIONS) | set(USER_ADDED))
    ns = {}
    for n in names:
        ns[n] = (lambda n_: lambda: ('called', n_))(n)
    ctx = type('Ctx', (), {'namespace': ns, 'ref': 'S!A1', 'sheet': 'S'})()
    bad = []
    for n in names:
        for spell in (n, n.lower(), n.capitalize()):
            for prefix in ('', '_xlfn.', '_XLFN.', '_Xlfn.'):
                node = ast_nodes.FunctionNode(tokenizer.f_token(prefix + spell, 'function', ''))
                node.args = []
                try:
                    got = node.eval(ctx)
                except Exception as ex:      # noqa
                    got = f'raise {type(ex).__name__}: {ex}'
                if got != ('called', n):
                    bad.append(f'{prefix}{spell} -> {got}')
    return bad[:10]


UNITS.append(Unit(
    id='C08/ast_nodes.FunctionNode.eval/every_registered_name', target='xlcalculator.ast_nodes:FunctionNode.eval', inputs=[],
    cases=[Case('every registered (or user-added) function is reached under its name in any letter case, with or without an _xlfn. prefix (finite scan of the real registry)',
                lambda: True, lambda out: out.kind == 'ret' and out.value == [])],
    call=lambda it, fn: scan_names(), native_call=lambda fn: scan_names()))


# ---- registration: what the user registers is what evaluators created afterwards call - also under a name that is already taken ------------
def _register_call(native):
    def call(it, fn):
        import xlcalculator                                              # noqa: F401
        from xlcalculator.xlfunctions import xl
        from xlcalculator import evaluator, model as Mo
        table = xl.Functions()                  # a registry of its own: the real class, the real methods, nothing global is touched

        def first(x):
            return 'first'

        def second(x):
            return 'second'

        def other(x):
            return 'other'
        w = it
        if native:
            table.register(first, 'MYFUNC')
            table.register(second, 'MYFUNC')                 # the user corrects the function and registers it again
            table.register(other)
        else:
            w.call(xl.Functions.register, [table, first, 'MYFUNC'], {})
            w.call(xl.Functions.register, [table, second, 'MYFUNC'], {})
            w.call(xl.Functions.register, [table, other], {})
        # the module-level decorator, pointed at this table for the duration of the call
        real = xl.FUNCTIONS
        xl.FUNCTIONS = table
        try:
            def third(x):
                return 'third'
            deco = xl.register('MYFUNC') if native else w.call(xl.register, ['MYFUNC'], {})
            back = deco(third) if native else w.call(deco, [third], {})
            ev = evaluator.Evaluator(Mo.Model()) if native else w.instantiate(evaluator.Evaluator, [Mo.Model()], {})
        finally:
            xl.FUNCTIONS = real
        return dict(by_key=table['MYFUNC'].__name__, by_attr=(table.MYFUNC.__name__ if native else w.getattr(table, 'MYFUNC').__name__),
                    other='other' in table and table['other'] is other, decorated_is_returned=back is third,
                    evaluator_sees=ev.namespace['MYFUNC'].__name__, namespace_is_a_copy=ev.namespace is not table, names=sorted(table))
    if native:
        return lambda fn: call(None, fn)
    return call


UNITS.append(Unit(
    id='C08/xl.Functions.register/latest_registration_wins', target='xlcalculator.xlfunctions.xl:Functions.register', inputs=[],
    cases=[Case('a function registered under a name - also one that is already taken, by a built-in or by an earlier version of the same function - is what the '
                'registry holds under that name and what an Evaluator created afterwards finds in its namespace; the decorator hands the function back',
                lambda: True,
                lambda out: out.kind == 'ret' and out.value == dict(by_key='third', by_attr='third', other=True, decorated_is_returned=True,
                                                                   evaluator_sees='third', namespace_is_a_copy=True, names=['MYFUNC', 'other']))],
    call=_register_call(False), native_call=_register_call(True),
    cross_key=lambda v: repr(sorted(v.items())) if isinstance(v, dict) else repr(v)))
