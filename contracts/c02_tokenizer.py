"""C02  Every well-formed formula parses to the tree its text denotes - the premises contracts can reach.

  P1  tokenizer.getTokens main loop, ONE ITERATION for ALL (formula, offset, token, mode flags): every subscript of the
      formula is in bounds (no Python exception) and the scan position strictly advances without passing the end
      (loop invariant 0 <= offset <= len(formula); variant len(formula) - offset).  The real loop body and the real nested
      helpers currentChar / doubleChar / nextChar / EOF are interpreted from source; token lists are the real classes.
      Facts about well-formed input used as preconditions: the formula does not end in ',' and a '%' follows a numeric
      literal (or nothing) - see DESIGN.
  P2  string-literal mode, one step for ALL characters: a non-quote character is appended to the literal, a doubled
      quote appends ONE quote and skips two, a single quote ends the literal and emits it unchanged as a text operand.
      (By induction on the literal's length the emitted text is the unescaped literal - delimiters included, since the
      step contract quantifies over every character.)
  P7  leading blanks / newlines and one '=' are skipped (first loop, unrolled on a concrete-length prefix).
The tree equality for every formula is the bounded layer's (drivers/c02.py).
"""
import ast as pyast
import z3

from pyvc.engine import Unit, Case, Fork, Prim, Const
from pyvc.interp import func_ast, Env, ContinueEx, BreakEx
from pyvc import spec, sym as S, models as M
from pyvc.sym import Sym, is_sym, And, Or, Not, Implies, Ite, lift

UNITS = []
TARGET = 'xlcalculator.tokenizer:ExcelParser.getTokens'


STACK_TOP = ['subexpression']          # what the innermost open construct is (read by _step_call; set by the units that care)


def _with_top(top):
    def call(it, fn, *a):
        STACK_TOP[0] = top
        try:
            return _step_call(it, fn, *a)
        finally:
            STACK_TOP[0] = 'subexpression'

    def native(fn, *a):
        STACK_TOP[0] = top
        try:
            return _step_native(fn, *a)
        finally:
            STACK_TOP[0] = 'subexpression'
    return call, native


def _step_call(it, fn, formula, offset, token, in_string, in_path, in_range, in_error):
    from xlcalculator import tokenizer
    f = tokenizer.ExcelParser.getTokens
    node = func_ast(f)
    # the scan loop: the one top-level `while not EOF():` (anchored by its guard, not by its position)
    loops = [n for n in node.body if isinstance(n, pyast.While) and pyast.unparse(n.test).replace(' ', '') == 'notEOF()']
    if len(loops) != 1:
        from pyvc.sym import Unsupported
        raise Unsupported('the scan loop of getTokens is no longer a single `while not EOF()` loop: the step contracts do not apply')
    main = loops[0]
    tokens, stack = tokenizer.f_tokens(), tokenizer.f_tokenStack()
    if STACK_TOP[0] == 'function':
        stack.push(tokenizer.f_token('', 'subexpression', 'start'))
        stack.push(tokenizer.f_token('F', 'function', 'start'))
    else:
        stack.push(tokenizer.f_token('F', 'function', 'start'))
        stack.push(tokenizer.f_token('', 'subexpression', 'start'))
    env = Env({'self': tokenizer.ExcelParser(), 'formula': formula, 'offset': offset, 'token': token, 'inString': in_string,
               'inPath': in_path, 'inRange': in_range, 'inError': in_error, 'tokens': tokens, 'tokenStack': stack},
              {}, f.__globals__, func=f)
    env.argnames = ['self', 'formula']
    state = dict(env.loc)
    for st in node.body:
        if st is main:
            break
        if isinstance(st, pyast.FunctionDef):
            it.stmt(st, env)                          # the real closures currentChar / doubleChar / nextChar / EOF
        elif isinstance(st, (pyast.Assign, pyast.AnnAssign)) and not any(isinstance(n, (pyast.Call,)) and 'getTokens' in pyast.unparse(n) for n in pyast.walk(st)):
            # locals set up before the scan loop (constants, cached attributes, compiled patterns, the token collections): run them,
            # then put the proposed loop state on top
            try:
                it.stmt(st, env)
            except Exception:      # noqa  (a set-up statement the step does not need)
                pass
    env.loc.update(state)
    it.interpreted.add('xlcalculator.tokenizer:ExcelParser.getTokens(main loop body)')
    # loop contract of the inner blank-skipping loop (anchored by its guard text; if the loop is rewritten the contract
    # no longer applies and the obligation is undecided, not violated)
    from pyvc.interp import LoopCut
    for n in pyast.walk(main):
        if isinstance(n, pyast.While) and n is not main and 'currentChar()' in pyast.unparse(n.test) and 'EOF()' in pyast.unparse(n.test):
            it.loop_contracts[('xlcalculator.tokenizer:ExcelParser.getTokens', pyast.unparse(n.test))] = LoopCut(
                ['offset'],
                invariant=lambda e, entry: And(S.cmp(pyast.GtE, e.get('offset'), entry['offset']),
                                               S.cmp(pyast.LtE, e.get('offset'), S.length(e.get('formula')))),
                variant=lambda e: S.length(e.get('formula')) - e.get('offset'))
    try:
        it.block(main.body, env)
    except ContinueEx:
        pass
    return dict(offset=env.get('offset'), token=env.get('token'), inString=env.get('inString'), inPath=env.get('inPath'), inError=env.get('inError'),
                emitted=[(t.tvalue, t.ttype, t.tsubtype) for t in tokens.items])


def trace_scan(formula):
    """the states of the REAL scan loop at every evaluation of its guard, and right after it, observed natively with
    sys.settrace while `ExcelParser().getTokens(formula)` runs from its entry -> (states, exception or None)"""
    import sys
    from xlcalculator import tokenizer
    f = tokenizer.ExcelParser.getTokens
    node = func_ast(f)
    idx = [i for i, n in enumerate(node.body) if isinstance(n, pyast.While) and pyast.unparse(n.test).replace(' ', '') == 'notEOF()']
    if len(idx) != 1:
        from pyvc.engine import NotReachable
        raise NotReachable('scan loop not found')
    head, after = node.body[idx[0]].lineno, node.body[idx[0] + 1].lineno
    code = f.__code__
    states = []

    def local(frame, event, arg):
        if event == 'line' and frame.f_lineno in (head, after):
            L = frame.f_locals
            if 'tokens' in L and 'offset' in L:
                states.append(dict(offset=L['offset'], token=L.get('token'), inString=L.get('inString'), inPath=L.get('inPath'),
                                   inRange=L.get('inRange'), inError=L.get('inError'), formula=L.get('formula'),
                                   emitted=[(t.tvalue, t.ttype, t.tsubtype) for t in L['tokens'].items], done=frame.f_lineno == after))
        return local

    def tracer(frame, event, arg):
        return local if frame.f_code is code else None
    exc = None
    old = sys.gettrace()
    sys.settrace(tracer)
    try:
        tokenizer.ExcelParser().getTokens(formula)
    except Exception as ex:      # noqa
        exc = ex
    finally:
        sys.settrace(old)
    return states, exc


def _realise(formula, offset, token, in_string, in_path):
    """a formula on which the real scan loop passes through the proposed state: an opening that puts the same constructs
    on the stack as the harness, then what makes `token` the pending token in the proposed mode, then the rest of the text.
    (One step only looks at the pending token and at the text from `offset` on.)"""
    opening = '(F(' if STACK_TOP[0] == 'function' else 'F(('
    if in_string:
        lead = '"' + token.replace('"', '""')
    elif in_path:
        lead = "'" + token.replace("'", "''")
    else:
        lead = token
    return opening + lead + formula[offset:], len(opening) + len(lead)


def _step_native(fn, formula, offset, token, in_string, in_path, in_range, in_error):
    """ONE step of the real loop, observed natively: the real function is run from its entry on a formula that leads to the
    proposed state; the state at the next evaluation of the loop guard (or right after the loop) is the step's result.  A
    proposed state the real run never passes through is not reachable: NotReachable."""
    from pyvc.engine import NotReachable
    if in_range or not (0 <= offset < len(formula)):
        raise NotReachable('mode not realised by the harness')
    if in_error and (in_string or in_path or not token.startswith('#')):
        raise NotReachable('an error literal begins with # and is met outside quotes')
    # (inside an error literal the pending token is the literal so far: the scanner enters the state at its '#')
    text, at = _realise(formula, offset, token, in_string, in_path)
    states, exc = trace_scan(text)
    want = dict(offset=at, token=token, inString=bool(in_string), inPath=bool(in_path), inRange=False, inError=bool(in_error))
    hit = [i for i, st in enumerate(states) if not st['done'] and all(st[k] == v for k, v in want.items()) and st['formula'] == text]
    if not hit:
        raise NotReachable(f'the real scan of {text!r} never has offset {at} with pending token {token!r}')
    i = hit[0]
    if i + 1 >= len(states):
        if exc is not None:
            raise exc                                   # the real function failed inside this very step
        raise NotReachable('no state after the step was observed')
    nxt = states[i + 1]
    shift = at - offset
    return dict(offset=nxt['offset'] - shift, token=nxt['token'], inString=nxt['inString'], inPath=nxt['inPath'], inError=nxt['inError'],
                emitted=nxt['emitted'][len(states[i]['emitted']):])


def _char(formula, offset):
    if is_sym(formula) or is_sym(offset):
        return Sym(z3.SubString(lift(formula).t, S.to_int(lift(offset)), 1), 'str')
    return formula[offset:offset + 1]


def _req(formula, offset, token, in_string, in_path, in_range, in_error):
    L = S.length(formula)
    ch = _char(formula, offset)
    ends_comma = Sym(z3.SuffixOf(z3.StringVal(','), lift(formula).t), 'bool') if is_sym(formula) else formula.endswith(',')
    pct_ok = Implies(spec.eq(ch, '%'), Or(spec.eq(S.length(token), 0), M.FLOAT_OK(token)))
    one_mode = And(Implies(in_string, Not(Or(in_path, in_range, in_error))))
    return And(offset >= 0, offset < L, Not(ends_comma), pct_ok, one_mode)


STATE = [('formula', Prim('str', domain=['A1+1 ', 'SUM(1,2)\n', '"a""b"', "'My S'!A1", '#N/A+1', '1E+3', '{1;2}', 'A1:B2 C1', '50%'])),
         ('offset', Prim('int', domain=[0, 1, 2, 3, 4, 5, 7, 8])), ('token', Prim('str', domain=['', 'A1', '1E', 'a', '#N/', '50'])),
         ('inString', Prim('bool')), ('inPath', Prim('bool')), ('inRange', Prim('bool')), ('inError', Prim('bool'))]


def _key(v):
    return repr(v)


UNITS.append(Unit(
    id='C02/tokenizer.getTokens/index_safety', target=TARGET, inputs=STATE, requires=_req,
    cases=[Case('one iteration of the scan loop raises no IndexError and strictly advances without passing the end of the formula',
                lambda *a: True,
                lambda formula, offset, token, s, p, r, e, out: out.kind == 'ret' and And(out.value['offset'] > offset, out.value['offset'] <= S.length(formula)))],
    canary=Case('canary', lambda *a: True, lambda formula, offset, token, s, p, r, e, out: out.kind == 'ret' and spec.eq(out.value['offset'], offset + 1)),
    call=_step_call, native_call=_step_native, cross_key=_key, max_paths=600, timeout_ms=20000, feas_timeout_ms=4000,
    bounded_domain_cap=1500))


# ---- P2: string-literal mode ------------------------------------------------------------------------------------------------------------
def _str_req(formula, offset, token, *flags):
    return And(offset >= 0, offset < S.length(formula))


def _next(formula, offset):
    return _char(formula, offset + 1)


def _string_step(formula, offset, token, out):
    if out.kind != 'ret':
        return False
    o = out.value
    ch, nx = _char(formula, offset), _next(formula, offset)
    quote = spec.eq(ch, '"')
    doubled = And(quote, spec.eq(nx, '"'))
    closing = And(quote, Not(spec.eq(nx, '"')))
    n_emitted = len(o['emitted'])
    plain_ok = And(spec.eq(o['token'], S.concat(token, ch)), spec.eq(o['offset'], offset + 1), o['inString'] is True or o['inString'] == True, n_emitted == 0)  # noqa
    doubled_ok = And(spec.eq(o['token'], S.concat(token, '"')), spec.eq(o['offset'], offset + 2), n_emitted == 0)
    if n_emitted == 1:
        tv, tt, ts = o['emitted'][0]
        closing_ok = And(spec.eq(tv, token), tt == 'operand', ts == 'text', spec.eq(o['token'], ''), spec.eq(o['offset'], offset + 1),
                         o['inString'] is False or o['inString'] == False)  # noqa
    else:
        closing_ok = False
    return And(Implies(Not(quote), plain_ok), Implies(doubled, doubled_ok), Implies(closing, closing_ok))


UNITS.append(Unit(
    id='C02/tokenizer.getTokens/string_literal_step', target=TARGET,
    inputs=[('formula', Prim('str', domain=['"a""b"', '"(,:;)"&A1', '"x"', '""""'])), ('offset', Prim('int', domain=[1, 2, 3, 4])),
            ('token', Prim('str', domain=['', 'a', '(,'])), ('inString', Const(True, 'in a string literal')), ('inPath', Const(False, '-')),
            ('inRange', Const(False, '-')), ('inError', Const(False, '-'))],
    requires=_str_req,
    cases=[Case('inside a string literal: any other character is appended; "" appends one quote and skips two; a single " emits the literal unchanged',
                lambda *a: True, lambda formula, offset, token, s, p, r, e, out: _string_step(formula, offset, token, out))],
    call=_step_call, native_call=_step_native, cross_key=_key, timeout_ms=20000))


def _path_step(formula, offset, token, out):
    if out.kind != 'ret':
        return False
    o = out.value
    ch, nx = _char(formula, offset), _next(formula, offset)
    quote = spec.eq(ch, "'")
    doubled = And(quote, spec.eq(nx, "'"))
    closing = And(quote, Not(spec.eq(nx, "'")))
    none = len(o['emitted']) == 0
    return And(Implies(Not(quote), And(spec.eq(o['token'], S.concat(token, ch)), spec.eq(o['offset'], offset + 1), none)),
               Implies(doubled, And(spec.eq(o['token'], S.concat(token, "'")), spec.eq(o['offset'], offset + 2), none)),
               Implies(closing, And(spec.eq(o['token'], token), spec.eq(o['offset'], offset + 1), none, o['inPath'] is False or o['inPath'] == False)))  # noqa


UNITS.append(Unit(
    id='C02/tokenizer.getTokens/quoted_sheet_step', target=TARGET,
    inputs=[('formula', Prim('str', domain=["'My Sheet'!A1", "'O''Brien'!B2", "'a(b)'!C3"])), ('offset', Prim('int', domain=[1, 2, 3, 9])),
            ('token', Prim('str', domain=['', 'My', 'O'])), ('inString', Const(False, '-')), ('inPath', Const(True, 'in a quoted sheet name')),
            ('inRange', Const(False, '-')), ('inError', Const(False, '-'))],
    requires=_str_req,
    cases=[Case("inside a quoted sheet name: characters are kept, '' stands for one quote, the closing quote ends the name without emitting a token",
                lambda *a: True, lambda formula, offset, token, s, p, r, e, out: _path_step(formula, offset, token, out))],
    call=_step_call, native_call=_step_native, cross_key=_key, timeout_ms=20000))


# ---- P2': the opening quote of a string literal / quoted sheet name only switches the mode ---------------------------------------------------
def _open_step(q, flag):
    def ens(formula, offset, token, s, p, r, e, out):
        if out.kind != 'ret':
            return False
        o = out.value
        return And(spec.eq(o['offset'], offset + 1), o[flag] is True or o[flag] == True, len(o['emitted']) == 0, spec.eq(o['token'], token))  # noqa
    return ens


for _q, _flag, _lab, _dom in (('"', 'inString', 'string literal', ['""""', '"""yes"""&A1', '"a"', '""&"x"', '"""', '=""']),
                              ("'", 'inPath', 'quoted sheet name', ["'My Sheet'!A1", "'''x'!A1", "''''!B2"])):
    UNITS.append(Unit(
        id=f'C02/tokenizer.getTokens/open_{_flag}', target=TARGET,
        inputs=[('formula', Prim('str', domain=_dom)), ('offset', Prim('int', domain=[0, 1])), ('token', Const('', 'no pending token')),
                ('inString', Const(False, '-')), ('inPath', Const(False, '-')), ('inRange', Const(False, '-')), ('inError', Const(False, '-'))],
        requires=(lambda q: lambda formula, offset, token, *f: And(offset >= 0, offset < S.length(formula), spec.eq(_char(formula, offset), q)))(_q),
        cases=[Case(f'the opening quote of a {_lab} consumes exactly that one character and emits nothing, whatever follows it (the characters after it are the literal\'s own)',
                    lambda *a: True, _open_step(_q, _flag))],
        call=_step_call, native_call=_step_native, cross_key=_key, timeout_ms=20000))


# ---- P3: outside every mode - operators, parentheses, separators and ordinary characters ----------------------------------------------------------
# One step of the scan loop on a SYMBOLIC (formula, offset, pending token) whose current character is fixed per unit: what is emitted,
# what becomes of the pending token, how far the scan advances.  "One token per written construct": a pending operand is flushed once,
# the construct gets exactly one token, nothing else is emitted.
def _suffix(tok, ch):
    return Sym(z3.SuffixOf(z3.StringVal(ch), lift(tok).t), 'bool') if is_sym(tok) else tok.endswith(ch)


def _normal_req(chars, nxt_not=(), sci_guard=False):
    def req(formula, offset, token, *flags):
        ch, nx = _char(formula, offset), _next(formula, offset)
        c = [offset >= 0, offset < S.length(formula), Or(*[spec.eq(ch, x) for x in chars])]
        c += [Not(spec.eq(nx, x)) for x in nxt_not]
        if sci_guard:                      # "1E" + sign continues a number in scientific notation: not an operator
            c += [Not(_suffix(token, 'E')), Not(_suffix(token, 'e'))]
            # ... and the pending token holds no line break: outside quotes a line break ends the token, and a quoted sheet name is
            # followed by '!' in a well-formed formula (Python's `$` would let "1E\n" pass the scientific-notation test)
            c.append(Not(Sym(z3.Contains(lift(token).t, z3.StringVal('\n')), 'bool')) if is_sym(token) else ('\n' not in token))
        return And(*c)
    return req


def _flush(o, token):
    """the emitted list starts with the pending token as ONE operand iff it is non-empty; returns (constraint, rest of the list)"""
    em = o['emitted']
    nonempty = S.length(token) > 0
    return em, nonempty


def _op_step(width, ttype, subtype=None, value=None):
    def ens(formula, offset, token, s, p, r, e, out):
        if out.kind != 'ret':
            return False
        o = out.value
        em, nonempty = _flush(o, token)
        ch = _char(formula, offset)
        text = value if value is not None else (S.concat(ch, _next(formula, offset)) if width == 2 else ch)
        conj = [spec.eq(o['offset'], offset + width), spec.eq(o['token'], '')]
        if len(em) == 2:
            conj += [nonempty, spec.eq(em[0][0], token), em[0][1] == 'operand', spec.eq(em[1][0], text), em[1][1] == ttype]
            if subtype is not None:
                conj.append(em[1][2] == subtype)
        elif len(em) == 1:
            conj += [Not(nonempty), spec.eq(em[0][0], text), em[0][1] == ttype]
            if subtype is not None:
                conj.append(em[0][2] == subtype)
        else:
            return False
        return And(*conj)
    return ens


_FLAGS = [('inString', Const(False, '-')), ('inPath', Const(False, '-')), ('inRange', Const(False, '-')), ('inError', Const(False, '-'))]
_TOK = ('token', Prim('str', domain=['', 'A1', '12', 'SUM', '1E', 'Sheet1!B2']))


def _state(dom):
    return [('formula', Prim('str', domain=dom)), ('offset', Prim('int', domain=[0, 1, 2, 3])), _TOK] + _FLAGS


UNITS.append(Unit(
    id='C02/tokenizer.getTokens/infix_operator_step', target=TARGET, inputs=_state(['A1+B1', '1*2', 'a&b', '2^3', 'x/y', 'a=b', '1-2', 'a<b', 'a>b']),
    requires=lambda formula, offset, token, *f: And(
        _normal_req(['+', '-', '*', '/', '^', '&', '=', '<', '>'], sci_guard=True)(formula, offset, token, *f),
        # not the first character of a two-character comparator
        Not(Or(*[And(spec.eq(_char(formula, offset), a), spec.eq(_next(formula, offset), b)) for a, b in (('>', '='), ('<', '='), ('<', '>'))]))),
    cases=[Case('a single operator character flushes the pending operand (once) and becomes exactly one infix-operator token; one character consumed',
                lambda *a: True, _op_step(1, 'operator-infix'))],
    call=_step_call, native_call=_step_native, cross_key=_key, timeout_ms=20000))
UNITS.append(Unit(
    id='C02/tokenizer.getTokens/comparator_step', target=TARGET, inputs=_state(['A1>=B1', '1<=2', 'a<>b']),
    requires=lambda formula, offset, token, *f: And(offset >= 0, offset + 1 < S.length(formula),
                                                     Or(*[And(spec.eq(_char(formula, offset), a), spec.eq(_next(formula, offset), b)) for a, b in (('>', '='), ('<', '='), ('<', '>'))])),
    cases=[Case('>= <= <> flush the pending operand and become exactly one logical infix-operator token; two characters consumed',
                lambda *a: True, _op_step(2, 'operator-infix', 'logical'))],
    call=_step_call, native_call=_step_native, cross_key=_key, timeout_ms=20000))


def _paren_open(formula, offset, token, s, p, r, e, out):
    if out.kind != 'ret':
        return False
    o = out.value
    em = o['emitted']
    if len(em) != 1:
        return False
    nonempty = S.length(token) > 0
    tv, tt, ts = em[0]
    return And(spec.eq(o['offset'], offset + 1), spec.eq(o['token'], ''), ts == 'start',
               Ite(nonempty, And(spec.eq(tv, token), tt == 'function'), And(spec.eq(tv, ''), tt == 'subexpression')) if is_sym(nonempty)
               else ((spec.eq(tv, token) and tt == 'function') if nonempty else (tv == '' and tt == 'subexpression')))


UNITS.append(Unit(
    id='C02/tokenizer.getTokens/open_parenthesis_step', target=TARGET, inputs=_state(['SUM(1)', '(1+2)', 'IF(A1,1)', '((x))']),
    requires=_normal_req(['(']),
    cases=[Case('"(" after a name opens that function (one start token carrying the name); after nothing it opens a sub-expression; one character consumed',
                lambda *a: True, _paren_open)],
    call=_step_call, native_call=_step_native, cross_key=_key, timeout_ms=20000))


def _accumulate(formula, offset, token, s, p, r, e, out):
    if out.kind != 'ret':
        return False
    o = out.value
    return And(spec.eq(o['offset'], offset + 1), spec.eq(o['token'], S.concat(token, _char(formula, offset))), len(o['emitted']) == 0)


UNITS.append(Unit(
    id='C02/tokenizer.getTokens/ordinary_character_step', target=TARGET, inputs=_state(['A1', 'Sheet1!B2', '12.5', 'my_name', '$A$1:B2', 'x.y']),
    requires=_normal_req(list('ABZabz0189._$:!?\\')),
    cases=[Case('a letter, digit, ".", "_", "$", ":", "!" joins the pending token; nothing is emitted; one character consumed',
                lambda *a: True, _accumulate)],
    call=_step_call, native_call=_step_native, cross_key=_key, timeout_ms=20000))


def _close_step(top):
    def ens(formula, offset, token, s, p, r, e, out):
        if out.kind != 'ret':
            return False
        o = out.value
        em, nonempty = _flush(o, token)
        conj = [spec.eq(o['offset'], offset + 1), spec.eq(o['token'], '')]
        stop = em[-1] if em else None
        if stop is None or stop[1] != top or stop[2] != 'stop':
            return False
        if len(em) == 2:
            conj += [nonempty, spec.eq(em[0][0], token), em[0][1] == 'operand']
        elif len(em) == 1:
            conj.append(Not(nonempty))
        else:
            return False
        return And(*conj)
    return ens


def _comma_step(top):
    def ens(formula, offset, token, s, p, r, e, out):
        if out.kind != 'ret':
            return False
        o = out.value
        em, nonempty = _flush(o, token)
        conj = [spec.eq(o['offset'], offset + 1), spec.eq(o['token'], '')]
        # [operand(token)]? then the separator token, then (when another comma follows) one placeholder operand for the omitted argument
        doubled = spec.eq(_next(formula, offset), ',')
        want_sep = ('argument', None) if top == 'function' else ('operator-infix', 'union')
        kinds = [(t[1], t[2]) for t in em]                      # token types / subtypes are concrete strings
        seq = list(em)
        if kinds and kinds[0][0] == 'operand' and kinds[0][1] != 'none':
            conj += [nonempty, spec.eq(seq[0][0], token)]
            seq, kinds = seq[1:], kinds[1:]
        else:
            conj.append(Not(nonempty))
        if not kinds or kinds[0][0] != want_sep[0] or (want_sep[1] is not None and kinds[0][1] != want_sep[1]):
            return False
        conj.append(spec.eq(seq[0][0], ','))
        rest = kinds[1:]
        if len(rest) == 0:
            conj.append(Not(doubled))
        elif rest == [('operand', 'none')]:
            conj.append(doubled)
        else:
            return False
        return And(*conj)
    return ens


for _top in ('subexpression', 'function'):
    _c, _n = _with_top(_top)
    UNITS.append(Unit(
        id=f'C02/tokenizer.getTokens/close_parenthesis_step[{_top}]', target=TARGET, inputs=_state(['(1)', 'SUM(1)', '(A1)+2', 'x)']),
        requires=_normal_req([')']),
        cases=[Case('")" flushes the pending operand and closes the innermost open construct with exactly one stop token of its kind; one character consumed',
                    lambda *a: True, _close_step(_top))],
        call=_c, native_call=_n, cross_key=_key, timeout_ms=20000))
    UNITS.append(Unit(
        id=f'C02/tokenizer.getTokens/comma_step[{_top}]', target=TARGET, inputs=_state(['SUM(1,2)', 'IF(A1,,2)', '(A1,B1)', 'a,b']),
        # (a well-formed formula does not END in a comma - the same fact about well-formed input as in the index-safety unit)
        requires=lambda formula, offset, token, *f: And(_normal_req([','])(formula, offset, token, *f), offset + 1 < S.length(formula)),
        cases=[Case('"," flushes the pending operand and becomes exactly one argument separator inside a function (a union operator elsewhere); an immediately following comma adds one placeholder for the omitted argument',
                    lambda *a: True, _comma_step(_top))],
        call=_c, native_call=_n, cross_key=_key, timeout_ms=20000))


def _blank_step(formula, offset, token, s, p, r, e, out):
    """a run of blanks / line breaks: one white-space token, the pending operand flushed, the scan stops at the first non-blank"""
    if out.kind != 'ret':
        return False
    o = out.value
    em, nonempty = _flush(o, token)
    kinds = [(t[1], t[2]) for t in em]
    conj = [spec.eq(o['token'], ''), o['offset'] > offset, o['offset'] <= S.length(formula)]
    if kinds == [('operand', ''), ('white-space', '')]:
        conj += [nonempty, spec.eq(em[0][0], token)]
    elif kinds == [('white-space', '')]:
        conj.append(Not(nonempty))
    else:
        return False
    # where the scan stops: at the end of the text or at a character that is not a blank
    stop = _char(formula, o['offset'])
    at_end = spec.eq(o['offset'], S.length(formula))
    conj.append(Or(at_end, And(Not(spec.eq(stop, ' ')), Not(spec.eq(stop, '\n')))))
    return And(*conj)


UNITS.append(Unit(
    id='C02/tokenizer.getTokens/white_space_step', target=TARGET, inputs=_state(['A1 +B1', 'SUM( 1,2)', 'a  b', 'x\n+y', '1 ']),
    requires=_normal_req([' ', '\n']),
    cases=[Case('a run of blanks or line breaks flushes the pending operand and becomes exactly ONE white-space token; the scan stops at the first non-blank character (loop contract on the inner loop)',
                lambda *a: True, _blank_step)],
    call=_step_call, native_call=_step_native, cross_key=_key, timeout_ms=30000))


def _percent_step(formula, offset, token, s, p, r, e, out):
    if out.kind != 'ret':
        return False
    o = out.value
    em = o['emitted']
    kinds = [(t[1], t[2]) for t in em]
    nonempty = S.length(token) > 0
    conj = [spec.eq(o['offset'], offset + 1), spec.eq(o['token'], '')]
    if kinds == [('operand', '')]:
        # the pending number becomes ONE operand worth a hundredth of it
        conj += [nonempty, spec.eq(em[0][0], M.FLOAT_OF(token) / 100) if is_sym(token) else spec.eq(em[0][0], float(token) / 100)]
    elif kinds == [('operator-infix', ''), ('operand', '')]:
        conj += [Not(nonempty), em[0][0] == '*', em[1][0] == 0.01]
    else:
        return False
    return And(*conj)


UNITS.append(Unit(
    id='C02/tokenizer.getTokens/percent_step', target=TARGET, inputs=[('formula', Prim('str', domain=['50%', '2.5%+1', '(1)%', '7%'])), ('offset', Prim('int', domain=[1, 2, 3])),
                                                                    ('token', Prim('str', domain=['50', '2.5', '', '7']))] + _FLAGS,
    requires=lambda formula, offset, token, *f: And(_normal_req(['%'])(formula, offset, token, *f), Or(spec.eq(S.length(token), 0), M.FLOAT_OK(token))),
    cases=[Case('"%" after a number turns that number into ONE operand worth a hundredth of it; after anything else it multiplies by 0.01; one character consumed',
                lambda *a: True, _percent_step)],
    call=_step_call, native_call=_step_native, cross_key=_key, timeout_ms=20000))


# ---- error literals: inside one, every character joins the literal until it IS one of the seven error codes -------------------------------------
ERROR_CODES = ['#NULL!', '#DIV/0!', '#VALUE!', '#REF!', '#NAME?', '#NUM!', '#N/A']


# every proper prefix of a code (complete over the prefixes that can lead to a code) and two that cannot
_ERROR_PREFIXES = sorted({c[:k] for c in ERROR_CODES for k in range(1, len(c))} - set(ERROR_CODES)) + ['#SPILL', '#x']


def _error_step(formula, offset, token, out):
    if out.kind != 'ret':
        return False
    o = out.value
    ch = _char(formula, offset)
    grown = S.concat(token, ch)
    complete = Or(*[spec.eq(grown, c) for c in ERROR_CODES])
    em = o['emitted']
    if len(em) == 0:
        return And(Not(complete), spec.eq(o['token'], grown), spec.eq(o['offset'], offset + 1), o['inError'] is True or o['inError'] == True)  # noqa
    if len(em) == 1:
        tv, tt, ts = em[0]
        return And(complete, spec.eq(tv, grown), tt == 'operand', ts == 'error', spec.eq(o['token'], ''), spec.eq(o['offset'], offset + 1),
                   o['inError'] is False or o['inError'] == False)  # noqa
    return False


def _error_req(formula, offset, token, *flags):
    # the literal so far: '#' followed by characters that do not yet make up a code (the scanner leaves the state as soon as they do)
    t = lift(token).t if is_sym(token) else None
    starts = Sym(z3.PrefixOf(z3.StringVal('#'), t), 'bool') if t is not None else token.startswith('#')
    incomplete = And(*[Not(spec.eq(token, c)) for c in ERROR_CODES])
    return And(offset >= 0, offset < S.length(formula), starts, incomplete)


UNITS.append(Unit(
    id='C02/tokenizer.getTokens/error_literal_step', target=TARGET,
    inputs=[('formula', Prim('str', domain=['#N/A+1', '#DIV/0!', 'IF(A1,#N/A,1)', '#REF!*2', '#NAME?', '#NUM!)'])), ('offset', Prim('int', domain=[1, 2, 3, 4, 5, 6])),
            ('token', Fork([Const(t, repr(t)) for t in _ERROR_PREFIXES])), ('inString', Const(False, '-')), ('inPath', Const(False, '-')),
            ('inRange', Const(False, '-')), ('inError', Const(True, 'in an error literal'))],
    requires=_error_req, fork='product',
    cases=[Case('inside an error literal every character - "/" , "!" , "?" and digits as much as letters - joins the literal; when the literal so far IS one of the '
                'seven error codes it is emitted as ONE operand of subtype error and the state is left; nothing else is emitted, one character is consumed',
                lambda *a: True, lambda formula, offset, token, s, p, r, e, out: _error_step(formula, offset, token, out))],
    call=_step_call, native_call=_step_native, cross_key=_key, timeout_ms=20000))
