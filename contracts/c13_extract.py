"""C13  An extracted sub-model computes the same values as the full model - what a contract on `ModelCompiler.extract` decides.

`ModelCompiler.extract` is interpreted from source (the real worklist loop; `copy.deepcopy` by its structural model, the
final `build_code` as an opaque collaborator that is logged) on models of a fixed dependency SHAPE whose constant cells
hold SYMBOLIC values of every primitive type.  For ALL values:

  closure   the extracted model holds every cell of the reference closure of the focus (references, the cells of ranges,
            what defined names stand for - written out by hand per shape and focus)
  preserves each extracted cell carries the original's value and formula text; a defined name in the focus / met in a
            formula is present and stands for the same address
  fresh     no extracted cell, formula, range or name is the SAME object as the original's (so later input changes to one
            model cannot leak into the other), and every extracted formula will be compiled by the one `build_code`
            call that happens after all copying
  frame     the original model's tables hold exactly the objects they held before (same keys, identical objects), and no
            attribute of the original model, its cells, formulas, ranges is written while extracting

Bounded in the dependency shape (6 shapes x several focus lists), unbounded in the values.  "Evaluates to the same value"
then follows from C03/C04 (a cell's value depends only on its formula text and the values of the cells its formula
addresses) - that composition is argued in DESIGN, not machine-checked; the bounded layer checks it directly.
"""
from pyvc.engine import Unit, Case, Fork, Prim, Const
from pyvc.interp import ModelFn
from pyvc import spec, sym as S
from pyvc.sym import Sym, is_sym, And, Or, Not, Implies, Ite

UNITS = []
TARGET = 'xlcalculator.model:ModelCompiler.extract'

SHAPES = {
    # shape: (cell table, defined names, [(focus, the cells the focus depends on - written out by hand)])
    'chain': (dict(cells={'A1': 'V0', 'B1': '=A1+1', 'C1': '=B1*2', 'D1': '=C1+B1', 'E1': 'V1', 'Z9': 'V2'}, names={}),
              [(['D1'], 'A1 B1 C1 D1'), (['C1', 'E1'], 'A1 B1 C1 E1'), (['A1'], 'A1')]),
    'range': (dict(cells={'A1': 'V0', 'A2': 'V1', 'A3': 'V2', 'B1': '=SUM(A1:A3)', 'B2': '=B1+MAX(A1:A2)', 'C1': '=B2&"!"'}, names={}),
              [(['C1'], 'A1 A2 A3 B1 B2 C1'), (['B1'], 'A1 A2 A3 B1')]),
    'names': (dict(cells={'A1': 'V0', 'A2': 'V1', 'B1': '=A1*A2', 'B2': '=B1+in_a', 'C1': '=SUM(rng)+B2', 'D5': 'V2'},
                   names={'in_a': 'Sheet1!$A$1', 'rng': 'Sheet1!$A$1:$A$2', 'out': 'Sheet1!$B$2'}),
              [(['C1'], 'A1 A2 B1 B2 C1'), (['out'], 'A1 A2 B1 B2'), (['rng', 'B2'], 'A1 A2 B1 B2')]),
    'sheets': (dict(cells={'Sheet1!A1': 'V0', 'Data!A1': 'V1', 'Data!B1': '=A1*2', 'Sheet1!B1': '=Data!B1+A1', 'Sheet1!C1': '=B1+Data!A1',
                           'Sheet1!D1': '=$A$1+1', 'Data!Z1': 'V2'}, names={}),
               [(['Sheet1!C1'], 'Sheet1!C1 Sheet1!B1 Data!B1 Data!A1 Sheet1!A1'), (['Sheet1!D1', 'Data!B1'], 'Sheet1!D1 Sheet1!A1 Data!B1 Data!A1')]),
    'deep': (dict(cells={'A1': 'V0', 'A2': '=A1+1', 'A3': '=A2+1', 'A4': '=A3+1', 'A5': '=A4+A2', 'B1': '=SUM(A1:A5)', 'C7': 'V1', 'C8': 'V2'}, names={}),
             [(['B1'], 'A1 A2 A3 A4 A5 B1'), (['A5'], 'A1 A2 A3 A4 A5')]),
    'quoted': (dict(cells={"My Sheet!A1": 'V0', "My Sheet!B1": "='My Sheet'!A1*2", 'Sheet1!A1': "='My Sheet'!B1+1", 'Sheet1!B1': 'V1', 'Sheet1!B2': 'V2'}, names={}),
               [(['Sheet1!A1'], 'Sheet1!A1|My Sheet!B1|My Sheet!A1')]),
}


def closure_of(text):
    return {full(a) for a in (text.split('|') if '|' in text else text.split())}


def full(a):
    return a if '!' in a else 'Sheet1!' + a


def build(shape, vals):
    from drivers.common import build_model
    spec_ = SHAPES[shape][0]
    model = build_model({full(k): (None if isinstance(v, str) and v.startswith('V') else v) for k, v in spec_['cells'].items()},
                        spec_['names'] or None, build_code=False)
    for k, v in spec_['cells'].items():
        if isinstance(v, str) and v.startswith('V'):
            model.cells[full(k)].value = vals[int(v[1:])]
    return model


def table_snapshot(model):
    """the original model as an observer sees it: which objects its tables hold, and what every cell / formula says"""
    snap = {t: {k: id(v) for k, v in getattr(model, t).items()} for t in ('cells', 'formulae', 'ranges', 'defined_names')}
    snap['content'] = {a: (id(c.value) if is_sym(c.value) else repr(c.value), c.formula.formula if c.formula is not None else None,
                           sorted(c.formula.terms) if c.formula is not None else None, id(c.formula.ast) if c.formula is not None else None,
                           list(c.defined_names))
                       for a, c in model.cells.items()}
    return snap


def extract_call(native, shape, focus, closure):
    def call(it, fn, v0, v1, v2):
        from xlcalculator import model as Mo
        model = build(shape, [v0, v1, v2])
        focus_ = [full(f) if f not in SHAPES[shape][0]['names'] else f for f in focus]
        before = table_snapshot(model)
        originals = {id(o) for tbl in ('cells', 'formulae', 'ranges', 'defined_names') for o in getattr(model, tbl).values()}
        originals |= {id(c.formula) for c in model.cells.values() if c.formula is not None}
        log = []
        if native:
            real_bc = Mo.Model.build_code
            try:
                Mo.Model.build_code = lambda self: log.append(('build_code', id(self), sorted(self.cells)))
                sub = Mo.ModelCompiler.extract(model, focus_)
            finally:
                Mo.Model.build_code = real_bc
            writes = []
        else:
            it.call_contracts[Mo.Model.build_code] = ModelFn(lambda it_, self: log.append(('build_code', id(self), sorted(self.cells))), 'Model.build_code')
            it.track_attrs = True
            n0 = len(it.path.events)
            sub = it.call(Mo.ModelCompiler.extract, [model, focus_], {})
            ev = it.path.events[n0:]
            it.track_attrs = False
            mine = originals | {id(model)}
            writes = [(type(o).__name__, a) for kind, o, a, v in ev if kind == 'write' and id(o) in mine]
        return dict(model=model, sub=sub, before=before, after=table_snapshot(model), originals=originals, log=log, writes=writes, focus=focus_, need=closure_of(closure))
    if native:
        return lambda fn, *v: call(None, fn, *v)
    return call


def same_value(a, b):
    if a is b:
        return True
    if is_sym(a) or is_sym(b):
        return spec.eq(a, b)
    return type(a) is type(b) and a == b


def ensures(shape):
    def ens(v0, v1, v2, out):
        if out.kind != 'ret':
            return False
        r = out.value
        model, sub = r['model'], r['sub']
        sp = SHAPES[shape][0]
        need = r['need']
        if not need <= set(sub.cells):
            return False                                         # closure
        if r['before'] != r['after'] or r['writes']:
            return False                                         # frame
        conj = []
        for a, c in sub.cells.items():
            o = model.cells.get(a)
            if o is None or id(c) in r['originals']:
                return False                                     # nothing invented, nothing shared
            if (c.formula is None) != (o.formula is None):
                return False
            if c.formula is not None:
                if id(c.formula) in r['originals'] or c.formula.formula != o.formula.formula or c.formula.sheet_name != o.formula.sheet_name \
                        or list(c.formula.terms) != list(o.formula.terms):
                    return False
            conj.append(same_value(c.value, o.value))
        for n, d in sub.defined_names.items():
            o = model.defined_names.get(n)
            if o is None or id(d) in r['originals'] or type(d) is not type(o):
                return False
            if getattr(d, 'address_str', None) != getattr(o, 'address_str', None) or (hasattr(o, 'address') and d.address != o.address):
                return False
        for f in r['focus']:
            if f in sp['names'] and f not in sub.defined_names:
                return False
        for k, g in sub.ranges.items():
            if id(g) in r['originals'] or k not in model.ranges or g.cells != model.ranges[k].cells:
                return False
        # the one compile step happens on the extracted model, after every cell is in place
        if len(r['log']) != 1 or r['log'][0][1] != id(sub) or r['log'][0][2] != sorted(sub.cells):
            return False
        return And(*conj) if conj else True
    return ens


def _key(r):
    if not isinstance(r, dict):
        return repr(r)
    return (sorted(r['sub'].cells), sorted(r['sub'].defined_names), sorted(r['sub'].ranges), r['before'] == r['after'],
            [(a, repr(c.value)) for a, c in sorted(r['sub'].cells.items())], len(r['log']))


VAL = lambda: Fork([Prim('real', domain=[2.5, 0.0]), Prim('int', domain=[0, 7]), Prim('str', domain=['', 'x']), Prim('bool')])
for _shape, (_spec, _foci) in SHAPES.items():
    for _focus, _closure in _foci:
        UNITS.append(Unit(ghost=True, 
            id=f'C13/model.ModelCompiler.extract[{_shape};focus={",".join(_focus)}]', target=TARGET, fork='star',
            inputs=[('v0', VAL()), ('v1', VAL()), ('v2', VAL())],
            cases=[Case('closure under dependencies; values, formulas, names and ranges carried over; fresh objects; original model untouched; compiled once at the end',
                        lambda *a: True, ensures(_shape))],
            call=extract_call(False, _shape, _focus, _closure), native_call=extract_call(True, _shape, _focus, _closure), cross_key=_key,
            bounded_domain_cap=60))


# ---- the dependency list of a formula (XLFormula.terms) names every reference on ITS sheet -----------------------------------------
# `extract` follows `terms`: a reference missing from it is a cell missing from the extracted model.  The scanner is a collaborator
# here (its own contracts: C02) handing out tokens whose sheet names are SYMBOLIC texts.
def _terms_call(native):
    def call(it, fn, home, s1, s2):
        from xlcalculator import xltypes, tokenizer
        import z3                                                                                  # noqa: F401

        def tok(v, ttype='operand', sub='range'):
            return tokenizer.f_token(v, ttype, sub)
        items = [tok('SUM', 'function', 'start'), tok('A1'), tok(',', 'argument', ''), tok(S.concat(s1, '!A1')), tok('+', 'operator-infix', ''),
                 tok(S.concat(s2, '!$A$1')), tok(5.0, 'operand', 'number'), tok('A1'), tok('B$2:C3'), tok('', 'function', 'stop')]

        class Tokens:
            pass
        res = Tokens()
        res.items = items
        if native:
            real = tokenizer.ExcelParser.getTokens
            tokenizer.ExcelParser.getTokens = lambda self, formula: res
            try:
                f = xltypes.XLFormula('=SUM(A1,x!A1+y!$A$1 5 A1 B$2:C3)', home)
            finally:
                tokenizer.ExcelParser.getTokens = real
        else:
            it.call_contracts[tokenizer.ExcelParser.getTokens] = ModelFn(lambda it_, self_, formula: res, 'ExcelParser.getTokens')
            f = it.instantiate(xltypes.XLFormula, ['=SUM(A1,x!A1+y!$A$1 5 A1 B$2:C3)', home], {})
        return list(f.terms)
    if native:
        return lambda fn, home, s1, s2: call(None, fn, home, s1, s2)
    return call


def _terms_ens(home, s1, s2, out):
    if out.kind != 'ret':
        return False
    terms = out.value
    expected = [S.concat(home, '!A1'), S.concat(s1, '!A1'), S.concat(s2, '!A1'), S.concat(home, '!B2:C3')]
    conj = []
    for e in expected:                                  # every reference is named, on its own sheet
        conj.append(Or(*[spec.eq(t, e) for t in terms]))
    for t in terms:                                     # and nothing else is
        conj.append(Or(*[spec.eq(t, e) for e in expected]))
    return And(*conj)


def _plain_sheet(s):
    import z3
    t = S.lift(s).t
    return Sym(z3.And(z3.Length(t) > 0, z3.Not(z3.Contains(t, z3.StringVal('!'))), z3.Not(z3.Contains(t, z3.StringVal('$')))), 'bool') if is_sym(s) \
        else bool(s) and '!' not in s and '$' not in s


SHEETNAME = lambda: Prim('str', domain=['Sheet1', 'Data', 'My Sheet'])
UNITS.append(Unit(
    id='C13/xltypes.XLFormula.__post_init__/terms_name_every_reference', target='xlcalculator.xltypes:XLFormula.__post_init__',
    inputs=[('home', SHEETNAME()), ('s1', SHEETNAME()), ('s2', SHEETNAME())],
    requires=lambda home, s1, s2: And(_plain_sheet(home), _plain_sheet(s1), _plain_sheet(s2)),
    cases=[Case("the dependency list of a formula names every cell reference and range of the formula exactly on the sheet it is written for (the formula's own "
                "sheet unless qualified), without $ markers - for ALL sheet names, equal or different - and nothing else", lambda *a: True, _terms_ens)],
    call=_terms_call(False), native_call=_terms_call(True), timeout_ms=30000))
