"""C20  Financial functions satisfy their defining equations.

The real NPV, SLN, XNPV (with `_xnpv`), PMT and PV are interpreted from source for SYMBOLIC rates / flows / dates.
The power function is uninterpreted (with the natively tested axioms 1**y == 1, x**0 == 1, x**1 == x, x > 0 => x**y > 0):
what is proved is that every term is c_i * (1+r)**-i  resp.  v_i / (1+r)**((d_i - d_1)/365) of the RIGHT flow, rate and
position, that SLN is (cost - salvage)/life, and that PMT / PV hand (rate, nper, pv|pmt, fv, timing) to numpy_financial
in the right places (numpy_financial itself is an assumed dependency: its closed forms are checked by the bounded layer).
Argument lists / ranges are covered for lengths 1..3.  Root finding (IRR, XIRR) is bounded only.
"""
import z3

from pyvc.engine import Unit, Case, Lemma, Fork, Xl, XlBlank, Prim, Const
from pyvc import spec, sym as S, models as M
from pyvc.sym import Sym, is_sym, And, Or, Not, Implies, Ite

MOD = 'xlcalculator.xlfunctions.financial'
UNITS = []
R = lambda dom=None: Xl('Number', 'real', domain=dom or [0.0, 0.05, -0.5, 1.0, 10.0])
V = lambda: Fork([Xl('Number', 'real', domain=[-1000.0, 250.5, 0.0]), Xl('Number', 'int', domain=[-100, 0, 40])])


def T():
    return spec.T()


def pw(x, y):
    if is_sym(x) or is_sym(y):
        return M.py_pow_spec(x, y)
    return float(x) ** float(y)


def _call_star(it, fn, *vals):
    return it.call(fn, list(vals), {})


# ---- NPV -----------------------------------------------------------------------------------------------------------------------
for _k in (1, 2, 3):
    def _npv_ens(*a, _k=_k):
        out = a[-1]
        r, flows = a[0].value, [x.value for x in a[1:-1]]
        total = 0
        for i, c in enumerate(flows):
            total = total + c * pw(1 + r, -(i + 1))
        return spec.is_number(out, total, tol=1e-9)
    UNITS.append(Unit(
        id=f'C20/financial.NPV#{_k}', target=f'{MOD}:NPV', inputs=[('rate', R())] + [(f'c{i + 1}', V()) for i in range(_k)],
        requires=lambda rate, *cs: And(rate.value > -0.9, rate.value <= 10),
        cases=[Case('NPV = sum of c_i * (1+r)**-i over the flows in written order', lambda *a: True, _npv_ens)],
        canary=Case('canary', lambda *a: True, lambda *a: spec.is_number(a[-1], 0)), call=_call_star, native_call=lambda fn, *v: fn(*v),
        bounded_domain_cap=300))

UNITS.append(Unit(
    id='C20/financial.NPV@rate0', target=f'{MOD}:NPV', inputs=[('c1', V()), ('c2', V()), ('c3', V())], fork='star',
    cases=[Case('at rate 0 NPV is the plain sum', lambda *a: True,
                lambda c1, c2, c3, out: spec.is_number(out, c1.value + c2.value + c3.value, tol=1e-12))],
    call=lambda it, fn, *v: it.call(fn, [0] + list(v), {}), native_call=lambda fn, *v: fn(0, *v)))

UNITS.append(Lemma(
    'C20/lemma.NPV-linear', [('r', Prim('real')), ('a1', Prim('real')), ('a2', Prim('real')), ('b1', Prim('real')), ('b2', Prim('real')), ('k', Prim('real'))],
    statement=lambda r, a1, a2, b1, b2, k: spec.eq((a1 + k * b1) * pw(1 + r, -1) + (a2 + k * b2) * pw(1 + r, -2),
                                                   (a1 * pw(1 + r, -1) + a2 * pw(1 + r, -2)) + k * (b1 * pw(1 + r, -1) + b2 * pw(1 + r, -2))),
    native=None, doc='linearity of the defining sum in the cash flows'))

# ---- SLN ------------------------------------------------------------------------------------------------------------------------
UNITS.append(Unit(
    id='C20/financial.SLN', target=f'{MOD}:SLN', fork='star',
    inputs=[('cost', Fork([Xl('Number', 'real', domain=[1000.0, 0.0]), Xl('Number', 'int', domain=[30000])])),
            ('salvage', Fork([Xl('Number', 'real', domain=[100.0]), Xl('Number', 'int', domain=[7500, 0])])),
            ('life', Fork([Xl('Number', 'real', domain=[0.5, 12.5]), Xl('Number', 'int', domain=[1, 10])]))],
    requires=lambda c, s, l: l.value > 0,
    cases=[Case('SLN = (cost - salvage) / life', lambda *a: True,
                lambda c, s, l, out: spec.is_number(out, (c.value - s.value) / l.value, tol=1e-12))],
    canary=Case('canary', lambda *a: True, lambda c, s, l, out: spec.is_number(out, (s.value - c.value) / l.value, tol=1e-12))))


# ---- PMT / PV wiring ----------------------------------------------------------------------------------------------------------------
def npf(name, *args):
    """numpy_financial.<name> as the uninterpreted function the interpreter models it with (native: the real one)"""
    import numpy_financial
    if any(is_sym(a) for a in args):
        fn = M._npf_model(name, ['rate', 'nper', 'pv' if name == 'pmt' else 'pmt', 'fv', 'when'])
        return fn(None, *args[:3], fv=args[3], when=args[4])
    return float(getattr(numpy_financial, name)(*[float(a) for a in args[:3]], fv=float(args[3]), when=int(args[4])))


UNITS.append(Unit(
    id='C20/financial.PMT', target=f'{MOD}:PMT', inputs=[('rate', R([0.05, 0.0])), ('nper', R([10.0, 1.0])), ('pv', R([1000.0])), ('fv', R([0.0, 50.0])),
                                                           ('type', Fork([Xl('Number', 'int', domain=[0, 1])]))],
    cases=[Case('PMT hands rate, nper, pv, fv to the annuity formula with payments at period end', lambda *a: True,
                lambda r, n, pv, fv, ty, out: spec.is_number(out, npf('pmt', r.value, n.value, pv.value, fv.value, 0), tol=1e-12))],
    canary=Case('canary', lambda *a: True, lambda r, n, pv, fv, ty, out: spec.is_number(out, npf('pmt', n.value, r.value, pv.value, fv.value, 0), tol=1e-12))))
UNITS.append(Unit(
    id='C20/financial.PV', target=f'{MOD}:PV', inputs=[('rate', R([0.05, 0.0])), ('nper', R([10.0, 1.0])), ('pmt', R([-100.0])), ('fv', R([0.0, 50.0])),
                                                         ('type', Fork([Const(0, 'end'), Const(1, 'begin')]))],
    fork='product',
    cases=[Case('PV hands rate, nper, pmt, fv and the timing to the annuity formula', lambda *a: True,
                lambda r, n, p, fv, ty, out: spec.is_number(out, npf('pv', r.value, n.value, p.value, fv.value, ty), tol=1e-12))]))


# ---- XNPV ------------------------------------------------------------------------------------------------------------------------------
def xnpv_call(native):
    def call(it, fn, rate, *rest):
        k = len(rest) // 2
        t = T()
        vals, dates = t.Array([list(rest[:k])]), t.Array([list(rest[k:])])
        if native:
            return fn(rate, vals, dates)
        return it.call(fn, [rate, vals, dates], {})
    if native:
        return lambda fn, rate, *rest: call(None, fn, rate, *rest)
    return call


for _k in (2, 3):
    def _xnpv_ens(*a, _k=_k):
        out = a[-1]
        r = a[0].value
        vs = [x.value for x in a[1:1 + _k]]
        ds = [x.value for x in a[1 + _k:1 + 2 * _k]]
        total = 0
        for v, d in zip(vs, ds):
            total = total + v / pw(1 + r, (d - ds[0]) / 365)
        return spec.is_number(out, total, tol=1e-9)

    def _xnpv_req(*a, _k=_k):
        r = a[0].value
        ds = [x.value for x in a[1 + _k:1 + 2 * _k]]
        inc = [ds[i] < ds[i + 1] for i in range(_k - 1)]
        return And(r > -0.9, r <= 10, ds[0] >= 1, *inc)
    UNITS.append(Unit(
        id=f'C20/financial.XNPV#{_k}', target=f'{MOD}:XNPV',
        inputs=[('rate', R([0.1, 0.0, -0.5]))] + [(f'v{i + 1}', Xl('Number', 'real', domain=[-1000.0, 600.0, 0.0])) for i in range(_k)] +
               [(f'd{i + 1}', Xl('Number', 'int', domain=[59, 60, 61, 40000, 40200, 40400])) for i in range(_k)],
        requires=_xnpv_req,
        cases=[Case('XNPV = sum of v_i / (1+r)**((d_i - d_1)/365) over flows and dates in position', lambda *a: True, _xnpv_ens)],
        call=xnpv_call(False), native_call=xnpv_call(True), bounded_domain_cap=600, max_paths=600, timeout_ms=20000))


# ---- IRR: the root finder receives exactly the flows, in order (zero flows included) -----------------------------------------------------
def irr_call(native, n):
    def call(it, fn, *flows):
        import numpy_financial as npf
        from pyvc.interp import ModelFn
        got = {}
        arr = T().Array([list(flows)])

        def fake_irr(values, *a, **k):
            got['values'] = list(values)
            return 0.125
        if native:
            real = npf.irr
            try:
                npf.irr = fake_irr
                res = fn(arr)
            finally:
                npf.irr = real
        else:
            it.call_contracts[npf.irr] = ModelFn(lambda it_, values, *a, **k: fake_irr(it.iterate(values) if hasattr(it, 'iterate') else values), 'npf.irr')
            res = it.call(fn, [arr], {})
        return dict(res=res, values=got.get('values'))
    if native:
        return lambda fn, *v: call(None, fn, *v)
    return call


def irr_ens(*a):
    out, flows = a[-1], a[:-1]
    if out.kind != 'ret':
        return False
    vals = out.value['values']
    if vals is None or len(vals) != len(flows):
        return False                                   # every flow of the series reaches the root finder: a zero flow still occupies its period
    conj = []
    for got, f in zip(vals, flows):
        g = got.value if isinstance(got, T().Number) else got
        conj.append(spec.eq(g, f.value))
    r = out.value['res']
    conj.append(spec.numeric_result(type('O', (), {'kind': 'ret', 'value': r})(), 0.125))
    return And(*conj)


for _n in (3, 4):
    UNITS.append(Unit(
        id=f'C20/financial.IRR/wiring#{_n}', target=f'{MOD}:IRR', inputs=[(f'c{i}', V()) for i in range(_n)], fork='star',
        cases=[Case('IRR is the root found for exactly the given flows in their written order - a zero flow keeps its period', lambda *a: True, irr_ens)],
        call=irr_call(False, _n), native_call=irr_call(True, _n),
        cross_key=lambda r: repr([getattr(v, 'value', v) for v in (r['values'] or [])]) if isinstance(r, dict) else repr(r), bounded_domain_cap=200))
