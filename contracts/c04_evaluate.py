"""C04 / C05 / C06  - the contract of `Evaluator.evaluate` (DESIGN section 7).

`Evaluator.evaluate`, `resolve_names`, `_get_context`, `EvaluatorContext.__init__/eval_cell`, `EvalContext.__init__`
are interpreted from source on a model of opaque cells; the AST of a formula cell is an opaque collaborator whose
`eval(context)` is specified (returns a SYMBOLIC value / raises) and logged.  Every attribute read and write on the
model's objects is recorded along each path (frames):

  reads    cell.formula.*, a cell's value ONLY when the cell has no formula                      (C04: nothing stale is read)
  modifies value / need_update of the evaluated formula cell, nothing else                           (C05: evaluation is read-only)
  ensures  result is what the AST yields under a context for THIS cell (ref, sheet)                 (C03/C04)
  ghost    the evaluator's stack of cells being evaluated is restored on every exit path; a cell
           already on it raises 'Cycle detected' BEFORE its formula is evaluated                    (C06)
           len(message of a failure) <= len(message from below) + len(address) + len(formula) + K   (C06)
           no function on the evaluation path is wrapped in a process-lifetime memo (lru_cache)     (C05)
"""
import ast as pyast
import z3

from pyvc.engine import Unit, Case, Fork, Xl, XlBlank, XlErr, Prim, Const
from pyvc.interp import Stub, ModelFn, RaiseEx
from pyvc import spec, sym as S, models as M
from pyvc.sym import Sym, is_sym, And, Or, Not, Implies, Ite

UNITS = []
F_ADDR, K_ADDR, G_ADDR = 'Sheet1!F1', 'Data!K1', 'Sheet1!G1'


def _key(s):
    if not isinstance(s, dict) or 'res' not in s:
        return repr(s)
    return (repr(s['res']), type(s['exc']).__name__, str(s['exc'])[:200] if s['exc'] else None, s['log'], s['stack_restored'],
            repr(s['F_value']), s['F_need'], repr(s['K_value']), repr(s['G_value']))


class EUnit(object):
    pass


def T():
    return spec.T()


def make_world(native, behaviour='value', value=None, stack=(), inner_msg=None, formula_text='=K1+1'):
    """an evaluator over a model of three cells: F1 (formula), G1 (formula, not evaluated), K1 (constant)"""
    from xlcalculator import evaluator, xltypes
    log = []

    def ast_eval(*a):
        ctx = a[-1]
        log.append(('eval', getattr(ctx, 'ref', None), getattr(ctx, 'sheet', None)))
        if behaviour == 'raise':
            raise RaiseEx(ValueError('boom')) if not native else ValueError('boom')
        if behaviour == 'raise-runtime':
            e = RuntimeError('<sym>' if (inner_msg is not None and is_sym(inner_msg)) else inner_msg)
            if inner_msg is not None and is_sym(inner_msg):
                e._pyvc_msg = inner_msg
            raise (RaiseEx(e) if not native else e)
        return value

    class Obj:
        def __init__(self, name, **kw):
            self.__dict__.update(kw)
            self._n = name

    mk = Obj if native else (lambda name, **kw: Stub(name, **kw))

    def astnode():
        if native:
            o = Obj('ast')
            o.eval = lambda ctx: ast_eval(ctx)
            return o
        return Stub('ast', eval=ModelFn(lambda it_, ctx: ast_eval(ctx), 'ast.eval'))
    def formula(text):
        if is_sym(text):
            return mk('formula', ast=astnode(), formula=text, evaluate=True, terms=[], tokens=[], sheet_name='Sheet1')      # symbolic text (C06 message bound)
        f = xltypes.XLFormula(text, 'Sheet1')             # a REAL formula object; its compiled tree is the opaque collaborator
        f.ast = astnode()
        return f

    def cell(addr, f, value, need):
        c = xltypes.XLCell(addr, None)                    # a REAL cell
        c.formula, c.value, c.need_update = f, value, need
        return c
    fF, fG = formula(formula_text), formula('=F1*2')
    cF = cell(F_ADDR, fF, 'STALE-F', True)
    cG = cell(G_ADDR, fG, 'STALE-G', True)
    cK = cell(K_ADDR, None, value if behaviour == 'constant' else 41, False)
    named = xltypes.XLCell(F_ADDR, None)
    from xlcalculator import model as Mo
    model = Mo.Model()                                   # the real (empty) model, filled with the opaque cells
    model.cells, model.defined_names, model.ranges = {F_ADDR: cF, G_ADDR: cG, K_ADDR: cK}, {'my_name': named}, {}
    ev = evaluator.Evaluator(model, {})                 # the real constructor (it only stores its arguments)
    if stack:
        ev._evaluating = list(stack)                    # the ghost state of C06: the path of cells being evaluated
    return ev, dict(F=cF, G=cG, K=cK, fF=fF, fG=fG, model=model), log


def run(native, addr, **kw):
    def call(it, fn, *vals):
        from xlcalculator import evaluator
        value = vals[0] if vals else None
        kw2 = dict(kw)
        if 'inner_msg' in kw2 and kw2['inner_msg'] == 'SYM':
            kw2['inner_msg'] = vals[0]
            value = None
        if 'formula_text' in kw2 and kw2['formula_text'] == 'SYM':
            kw2['formula_text'] = vals[1]
        ev, objs, log = make_world(native, value=value, **kw2)
        before = list(getattr(ev, '_evaluating', []))
        res, exc = None, None
        if native:
            try:
                res = ev.evaluate(addr)
            except Exception as ex:      # noqa
                exc = ex
            events = None
        else:
            it.track_attrs = True
            n0 = len(it.path.events)
            try:
                res = it.call(evaluator.Evaluator.evaluate, [ev, addr], {})
            except RaiseEx as r:
                exc = r.exc
            events = it.path.events[n0:]
            it.track_attrs = False
        summary = dict(res=res, exc=exc, log=log, stack_restored=(list(getattr(ev, '_evaluating', [])) == before), objs=objs, events=events,
                       F_value=objs['F'].value, F_need=objs['F'].need_update, K_value=objs['K'].value, G_value=objs['G'].value)
        return summary
    if native:
        return lambda fn, *vals: call(None, fn, *vals)
    return call


def frames_ok(s, written_cell=None):
    """read/write frame of one evaluate() (only available on the interpreted run)"""
    ev = s['events']
    if ev is None:
        return True
    o = s['objs']
    cells = {id(o['F']): 'F', id(o['G']): 'G', id(o['K']): 'K'}
    for kind, obj, attr, val in ev:
        name = cells.get(id(obj))
        if name is None:
            if kind == 'write' and (obj is o['model'] or obj is o['fF'] or obj is o['fG']):
                return False                                   # the model / formulas are never written
            continue
        if kind == 'read' and attr == 'value' and getattr(obj, 'formula', None) is not None:
            return False                                       # the stored value of a formula cell is never read
        if kind == 'read' and attr == 'need_update':
            return False
        if kind == 'write':
            if name != written_cell or attr not in ('value', 'need_update'):
                return False
    return True


SYMVAL = Fork([Xl('Number', 'real', domain=[1.5, -2.0]), Xl('Text', 'str', domain=['x', '']), Xl('Boolean', 'bool'), XlErr('DivZeroExcelError')])

# (a) formula cell
UNITS.append(Unit(ghost=True, cross_key=_key,
    id='C04/evaluator.Evaluator.evaluate/formula_cell', target='xlcalculator.evaluator:Evaluator.evaluate', prop='C04',
    inputs=[('value', SYMVAL)],
    cases=[Case('result is what the formula yields under a context for this cell; it becomes the stored value; nothing stale is read',
                lambda v: True,
                lambda v, out: out.kind == 'ret' and out.value['exc'] is None and out.value['res'] is v
                and out.value['log'] == [('eval', F_ADDR, 'Sheet1')] and out.value['F_value'] is v and out.value['F_need'] is False
                and out.value['stack_restored'] and out.value['K_value'] == 41 and out.value['G_value'] == 'STALE-G'
                and frames_ok(out.value, 'F'))],
    canary=Case('canary', lambda v: True, lambda v, out: out.kind == 'ret' and out.value['F_value'] == 'STALE-F'),
    call=run(False, F_ADDR), native_call=run(True, F_ADDR)))
# an ARRAY result stays in the cell of its formula: no other cell is written, no cell appears (C04: nothing else changes; C05: evaluation
# leaves the other cells alone whatever the order)
def _array_run(native):
    def call(it, fn, x):
        arr = T().Array([[x, 2.0], [3.0, 4.0]])
        out = (run(True, F_ADDR)(fn, arr)) if native else run(False, F_ADDR)(it, fn, arr)
        out['arr'] = arr
        return out
    if native:
        return lambda fn, x: call(None, fn, x)
    return call


for _p in ('C04', 'C05'):
    UNITS.append(Unit(ghost=True, cross_key=_key,
        id=f'{_p}/evaluator.Evaluator.evaluate/array_result_stays_in_its_cell', target='xlcalculator.evaluator:Evaluator.evaluate', prop=_p,
        inputs=[('x', Xl('Number', 'real', domain=[1.5, 0.0]))],
        cases=[Case('a formula whose result is an array: the array is the result and the stored value of THAT cell; no other cell is written and no cell appears',
                    lambda x: True,
                    lambda x, out: out.kind == 'ret' and out.value['exc'] is None and out.value['res'] is out.value['arr']
                    and out.value['F_value'] is out.value['arr'] and out.value['K_value'] == 41 and out.value['G_value'] == 'STALE-G'
                    and sorted(out.value['objs']['model'].cells) == sorted([F_ADDR, G_ADDR, K_ADDR]) and frames_ok(out.value, 'F'))],
        call=_array_run(False), native_call=_array_run(True)))
# through a defined name
UNITS.append(Unit(ghost=True, cross_key=_key,
    id='C04/evaluator.Evaluator.evaluate/defined_name', target='xlcalculator.evaluator:Evaluator.evaluate', prop='C04',
    inputs=[('value', SYMVAL)],
    cases=[Case('a defined name bound to a cell evaluates that cell', lambda v: True,
                lambda v, out: out.kind == 'ret' and out.value['res'] is v and out.value['log'] == [('eval', F_ADDR, 'Sheet1')]
                and out.value['F_value'] is v and frames_ok(out.value, 'F'))],
    call=run(False, 'my_name'), native_call=run(True, 'my_name')))
# (b) constant cell, (c) missing cell: C05 - evaluation is read-only
CONSTS = Fork([Prim('int', domain=[0, 7]), Prim('real', domain=[2.5]), Prim('str', domain=['', 'abc']), Prim('bool')])


def _const_ok(v, out):
    if out.kind != 'ret' or out.value['exc'] is not None:
        return False
    r = out.value['res']
    t = T()
    cls = {'int': t.Number, 'real': t.Number, 'str': t.Text, 'bool': t.Boolean}[S.lift(v).k if is_sym(v) else
                                                                             ('bool' if isinstance(v, bool) else 'int' if isinstance(v, int) else 'real' if isinstance(v, float) else 'str')]
    if not isinstance(r, cls):
        return False
    same = spec.eq(r.value, v)
    return And(same, out.value['log'] == [], out.value['stack_restored'], out.value['F_value'] == 'STALE-F', frames_ok(out.value, None))


UNITS.append(Unit(ghost=True, cross_key=_key,
    id='C05/evaluator.Evaluator.evaluate/constant_cell', target='xlcalculator.evaluator:Evaluator.evaluate', prop='C05',
    inputs=[('value', CONSTS)],
    cases=[Case('a constant cell yields its value as an Excel value; nothing is written or evaluated', lambda v: True, _const_ok)],
    call=run(False, K_ADDR, behaviour='constant'), native_call=run(True, K_ADDR, behaviour='constant')))
# the same contract under the properties whose functions are handed the VALUES of the addressed cells (the step from a stored constant to the
# value a function sees lies between their statements and the functions themselves): a stored 0, 0.0, FALSE or any other constant arrives
# as a Number / Boolean / Text OF THAT VALUE - never as a blank, never as another class
for _p, _what in (('C14', 'an aggregate'), ('C15', 'a criterion or a lookup'), ('C10', 'IF / AND / OR / NOT')):
    UNITS.append(Unit(ghost=True, cross_key=_key,
        id=f'{_p}/evaluator.Evaluator.evaluate/constant_cell_value_reaches_the_function', target='xlcalculator.evaluator:Evaluator.evaluate', prop=_p,
        inputs=[('value', CONSTS)],
        cases=[Case(f'the value {_what} is handed for a constant cell is the stored constant as an Excel value of its own class - zero, 0.0, FALSE and the '
                    'empty text included (never a blank for a stored number or boolean)', lambda v: True, _const_ok)],
        call=run(False, K_ADDR, behaviour='constant'), native_call=run(True, K_ADDR, behaviour='constant')))
UNITS.append(Unit(ghost=True, cross_key=_key,
    id='C05/evaluator.Evaluator.evaluate/missing_cell', target='xlcalculator.evaluator:Evaluator.evaluate', prop='C05', inputs=[],
    cases=[Case('an address without a cell reads as blank; nothing is written, no cell appears', lambda: True,
                lambda out: out.kind == 'ret' and out.value['exc'] is None and isinstance(out.value['res'], T().Blank)
                and out.value['log'] == [] and sorted(out.value['objs']['model'].cells) == sorted([F_ADDR, G_ADDR, K_ADDR])
                and frames_ok(out.value, None))],
    call=run(False, 'Sheet1!Z99'), native_call=run(True, 'Sheet1!Z99')))


# (d') asking for a name in another spelling (letter case) - whatever the answer, the model's tables stay as they are
for _spelling in ('MY_NAME', 'My_Name', 'no_such_name'):
    UNITS.append(Unit(ghost=True, cross_key=_key,
        id=f'C05/evaluator.Evaluator.evaluate/names_table_unchanged[{_spelling}]', target='xlcalculator.evaluator:Evaluator.evaluate', prop='C05', inputs=[],
        cases=[Case('evaluating by a name the model does not define in that spelling changes neither the defined names nor the cells of the model, '
                    'and writes nothing', lambda: True,
                    lambda out: out.kind == 'ret' and sorted(out.value['objs']['model'].defined_names) == ['my_name']
                    and sorted(out.value['objs']['model'].cells) == sorted([F_ADDR, G_ADDR, K_ADDR]) and out.value['F_value'] == 'STALE-F'
                    and out.value['K_value'] == 41 and frames_ok(out.value, None))],
        call=run(False, _spelling), native_call=run(True, _spelling)))


# (e) failure of the formula: the ghost stack is restored, nothing is stored, the message grows linearly
def _fail_ok(out, cycle=False):
    s = out.value
    return out.kind == 'ret' and isinstance(s['exc'], RuntimeError) and s['stack_restored'] and s['F_value'] == 'STALE-F' \
        and s['F_need'] is True and frames_ok(s, None)


UNITS.append(Unit(ghost=True, cross_key=_key,
    id='C06/evaluator.Evaluator.evaluate/failure_restores_stack', target='xlcalculator.evaluator:Evaluator.evaluate', prop='C06', inputs=[],
    cases=[Case('a failing formula raises, leaves the stored value alone and pops the cell from the evaluation path', lambda: True,
                lambda out: _fail_ok(out) and out.value['log'] == [('eval', F_ADDR, 'Sheet1')])],
    call=run(False, F_ADDR, behaviour='raise'), native_call=run(True, F_ADDR, behaviour='raise')))


def _msg_len(exc):
    m = getattr(exc, '_pyvc_msg', None)
    if m is not None:
        return S.length(m)
    return len(str(exc))


def _msg_bound(inner, formula, out):
    if not _fail_ok(out):
        return False
    exc = out.value['exc']
    return _msg_len(exc) <= S.length(inner) + S.length(formula) + len(F_ADDR) + 60


UNITS.append(Unit(ghost=True, cross_key=_key,
    id='C06/evaluator.Evaluator.evaluate/message_growth', target='xlcalculator.evaluator:Evaluator.evaluate', prop='C06',
    inputs=[('inner', Prim('str', domain=['x', 'Problem evaluating cell Sheet1!A2 formula =A3+1: ValueError("q\'q")'])),
            ('formula', Prim('str', domain=['=A2+1', '="it\'s"&A2']))],
    cases=[Case('len(report) <= len(report from below) + len(address) + len(formula) + 60: linear growth per level', lambda i, f: True, _msg_bound)],
    call=run(False, F_ADDR, behaviour='raise-runtime', inner_msg='SYM', formula_text='SYM'),
    native_call=run(True, F_ADDR, behaviour='raise-runtime', inner_msg='SYM', formula_text='SYM')))

# (f) a cell already being evaluated is a cycle - reported before its formula is touched
for _stack, _lab in (((F_ADDR,), 'self'), ((G_ADDR, F_ADDR), 'below'), ((F_ADDR, G_ADDR), 'above')):
    UNITS.append(Unit(ghost=True, cross_key=_key,
        id=f'C06/evaluator.Evaluator.evaluate/cycle[{_lab}]', target='xlcalculator.evaluator:Evaluator.evaluate', prop='C06', inputs=[],
        cases=[Case('a cell already on the evaluation path raises a cycle report without evaluating its formula', lambda: True,
                    lambda out: _fail_ok(out) and out.value['log'] == [] and 'ycle' in str(out.value['exc']))],
        call=run(False, F_ADDR, stack=_stack), native_call=run(True, F_ADDR, stack=_stack)))
UNITS.append(Unit(ghost=True, cross_key=_key,
    id='C06/evaluator.Evaluator.evaluate/no_false_cycle', target='xlcalculator.evaluator:Evaluator.evaluate', prop='C06',
    inputs=[('value', SYMVAL)],
    cases=[Case('other cells on the evaluation path (diamonds, repeated references) do not make this cell a cycle', lambda v: True,
                lambda v, out: out.kind == 'ret' and out.value['exc'] is None and out.value['res'] is v and out.value['stack_restored'])],
    call=run(False, F_ADDR, stack=(G_ADDR, K_ADDR)), native_call=run(True, F_ADDR, stack=(G_ADDR, K_ADDR))))


# (g) the evaluation path belongs to ONE evaluator: a second evaluator (another workbook, a nested evaluation from a user function, another
#     thread) that is busy with a cell of the same address does not make this cell a cycle
def _two_evaluators(native):
    def call(it, fn, value):
        from xlcalculator import evaluator, model as Mo
        if native:
            busy = evaluator.Evaluator(Mo.Model(), {})
        else:
            busy = it.instantiate(evaluator.Evaluator, [Mo.Model(), {}], {})
        ev, objs, log = make_world(native, value=value)
        path = busy._evaluating
        path.append(F_ADDR)                      # what evaluate() itself does on entry: the other evaluator is inside its own Sheet1!F1
        try:
            res, exc = None, None
            try:
                res = ev.evaluate(F_ADDR) if native else it.call(evaluator.Evaluator.evaluate, [ev, F_ADDR], {})
            except RaiseEx as r:
                exc = r.exc
            except Exception as ex:      # noqa
                exc = ex
            return dict(res=res, exc=exc, log=log, stack_restored=(list(busy._evaluating) == [F_ADDR] and list(ev._evaluating) == []), objs=objs,
                        events=None, F_value=objs['F'].value, F_need=objs['F'].need_update, K_value=objs['K'].value, G_value=objs['G'].value)
        finally:
            if path and path[-1] == F_ADDR:
                path.pop()
    if native:
        return lambda fn, value: call(None, fn, value)
    return call


UNITS.append(Unit(ghost=True, cross_key=_key,
    id='C06/evaluator.Evaluator/path_belongs_to_one_evaluator', target='xlcalculator.evaluator:Evaluator.evaluate', prop='C06',
    inputs=[('value', SYMVAL)],
    cases=[Case('a cell of the same address being evaluated by ANOTHER evaluator (constructed by the real __init__) is no cycle here: the value is returned, '
                'both paths are as before', lambda v: True,
                lambda v, out: out.kind == 'ret' and out.value['exc'] is None and out.value['res'] is v and out.value['stack_restored'])],
    call=_two_evaluators(False), native_call=_two_evaluators(True)))


# ---- EvaluatorContext: one fresh context per evaluation; memo local to the context -------------------------------------------
def ctx_call(native):
    def call(it, fn):
        from xlcalculator import evaluator
        calls = []

        class Ev:
            namespace = {'X': 1}

            def evaluate(self, addr, context=None):
                calls.append((addr, context))
                return ('value-of', addr, len(calls))
        if native:
            evobj = Ev()
            c1 = evaluator.EvaluatorContext(evobj, 'My Sheet!B2')
            c2 = evaluator.EvaluatorContext(evobj, 'My Sheet!B2')
            r = [c1.eval_cell('S!A1'), c1.eval_cell('S!A1'), c1.eval_cell('S!A2'), c2.eval_cell('S!A1')]
        else:
            evobj = Stub('evaluator', namespace={'X': 1}, evaluate=ModelFn(lambda it_, addr, context=None: (calls.append((addr, context)), ('value-of', addr, len(calls)))[1], 'evaluate'))
            c1 = it.instantiate(evaluator.EvaluatorContext, [evobj, 'My Sheet!B2'], {})
            c2 = it.instantiate(evaluator.EvaluatorContext, [evobj, 'My Sheet!B2'], {})
            r = [it.call(evaluator.EvaluatorContext.eval_cell, [c, a], {}) for c, a in ((c1, 'S!A1'), (c1, 'S!A1'), (c1, 'S!A2'), (c2, 'S!A1'))]
        return dict(results=r, calls=[(a, ctx) for a, ctx in calls], sheet=(c1.sheet, c1.refsheet, c1.ref), ns=c1.namespace is evobj.namespace)
    if native:
        return lambda fn: call(None, fn)
    return call


UNITS.append(Unit(ghost=True, cross_key=_key,
    id='C05/evaluator.EvaluatorContext/memo_is_per_context', target='xlcalculator.evaluator:EvaluatorContext.eval_cell', prop='C05', inputs=[],
    cases=[Case('a context evaluates each cell once through evaluate(addr, None); another context shares nothing; its sheet is the sheet of its cell',
                lambda: True,
                lambda out: out.kind == 'ret' and [c[0] for c in out.value['calls']] == ['S!A1', 'S!A2', 'S!A1']
                and all(c[1] is None for c in out.value['calls']) and out.value['results'][0] == out.value['results'][1]
                and out.value['results'][3] != out.value['results'][0] and out.value['sheet'] == ('My Sheet', 'My Sheet', 'My Sheet!B2'))],
    call=ctx_call(False), native_call=ctx_call(True)))
UNITS.append(Unit(ghost=True, cross_key=_key,
    id='C06/evaluator.EvaluatorContext/each_precedent_once_per_formula', target='xlcalculator.evaluator:EvaluatorContext.eval_cell', prop='C06', inputs=[],
    cases=[Case('a formula evaluates each cell it mentions ONCE, however often it mentions it (so the work of reporting a failure through shared precedents stays polynomial in the chain length)',
                lambda: True,
                lambda out: out.kind == 'ret' and [c[0] for c in out.value['calls']] == ['S!A1', 'S!A2', 'S!A1']
                and all(c[1] is None for c in out.value['calls']) and out.value['results'][0] == out.value['results'][1]
                and out.value['results'][3] != out.value['results'][0] and out.value['sheet'] == ('My Sheet', 'My Sheet', 'My Sheet!B2'))],
    call=ctx_call(False), native_call=ctx_call(True)))


# ---- no process-lifetime memo on the evaluation path (C05 footprint) ------------------------------------------------------------
def scan_memo(*a):
    import importlib
    import inspect
    bad = []
    for modname in ('xlcalculator.evaluator', 'xlcalculator.ast_nodes', 'xlcalculator.model', 'xlcalculator.xltypes',
                    'xlcalculator.xlfunctions.xl', 'xlcalculator.xlfunctions.func_xltypes'):
        mod = importlib.import_module(modname)
        tree = pyast.parse(inspect.getsource(mod))
        for n in pyast.walk(tree):
            if isinstance(n, (pyast.FunctionDef, pyast.ClassDef)):
                for d in n.decorator_list:
                    txt = pyast.unparse(d)
                    if 'lru_cache' in txt or txt.split('(')[0].split('.')[-1] in ('cache', 'cached_property', 'memoize'):
                        bad.append(f'{modname}:{n.name} @{txt}')
    return bad


UNITS.append(Unit(ghost=True, cross_key=_key,
    id='C05/evaluation_path/no_process_lifetime_memo', target='xlcalculator.evaluator:Evaluator.evaluate', prop='C05', inputs=[],
    cases=[Case('no function or class on the evaluation path is wrapped in functools.lru_cache / cache (a process-lifetime memo keyed on its arguments keeps every context alive)',
                lambda: True, lambda out: out.kind == 'ret' and out.value == [])],
    call=lambda it, fn: scan_memo(), native_call=lambda fn: scan_memo()))


# ---- histories: evaluate; change an input; evaluate again (C04: as if freshly compiled; C05: no state carried between calls) -------------
Q_ADDR = 'Sheet1!Q9'


def history_call(native, how, second_evaluator=False, fail_first=False):
    """F1's formula reads one input cell through the REAL context (EvaluatorContext.eval_cell -> Evaluator.evaluate) and
    yields what it read.  The input is K1 (stored; also bound to the name `rate`) or Q9 (no cell at first)."""
    target = Q_ADDR if how == 'absent' else K_ADDR

    def call(it, fn, v0, v1):
        from xlcalculator import evaluator, model as Mo, xltypes

        calls = []

        def ast_eval(ctx):
            calls.append(1)
            if fail_first and len(calls) == 1:
                # the formula fails with a Python exception for the input it finds (a date function on a serial out of range, ...)
                raise RaiseEx(ValueError('boom')) if not native else ValueError('boom')
            if native:
                return ctx.eval_cell(target)
            return it.call(type(ctx).eval_cell, [ctx, target], {})

        class Obj:
            pass
        # a REAL formula object (text, terms, tokens as the compiler makes them) whose compiled tree is the opaque collaborator
        f = xltypes.XLFormula('=' + target.split('!')[1], 'Sheet1')
        if native:
            f.ast = Obj()
            f.ast.eval = ast_eval
        else:
            f.ast = Stub('ast', eval=ModelFn(lambda it_, ctx: ast_eval(ctx), 'ast.eval'))
        m = Mo.Model()
        cF = xltypes.XLCell(F_ADDR, None)
        cF.formula = f
        cK = xltypes.XLCell(K_ADDR, None)
        cK.value = v0
        m.cells = {F_ADDR: cF, K_ADDR: cK}
        m.defined_names = {'rate': cK}
        ev = evaluator.Evaluator(m, {})
        where = {'address': K_ADDR, 'name': 'rate', 'absent': Q_ADDR, 'none': None}[how]

        def do(f_, *a):
            return f_(*a) if native else it.call(getattr(evaluator.Evaluator, f_.__name__), [f_.__self__] + list(a), {})
        try:
            r1 = do(ev.evaluate, F_ADDR)
        except (RaiseEx, RuntimeError) as ex:
            if not fail_first:
                raise
            r1 = 'FAILED'                          # the caller catches the failure and carries on
        if where is not None:
            do(ev.set_cell_value, where, v1)
        r2 = do(ev.evaluate, F_ADDR)
        r3 = None
        if second_evaluator:
            ev2 = evaluator.Evaluator(m, {})
            r3 = do(ev2.evaluate, F_ADDR)
        stored = m.cells[target].value if target in m.cells else None
        return dict(r1=r1, r2=r2, r3=r3, stored=stored, F_value=m.cells[F_ADDR].value)
    if native:
        return lambda fn, *a: call(None, fn, *a)
    return call


def _as_excel(r, v):
    """r is the Excel value of the native value v"""
    t = T()
    k = S.lift(v).k if is_sym(v) else ('bool' if isinstance(v, bool) else 'int' if isinstance(v, int) else 'real' if isinstance(v, float) else 'str')
    cls = {'int': t.Number, 'real': t.Number, 'str': t.Text, 'bool': t.Boolean}[k]
    if not isinstance(r, cls):
        return False
    return spec.eq(r.value, v)


def history_ens(how, second):
    def ens(v0, v1, out):
        if out.kind != 'ret':
            return False
        s = out.value
        first = isinstance(s['r1'], T().Blank) if how == 'absent' else _as_excel(s['r1'], v0)
        now = v0 if how == 'none' else v1
        conj = [first, _as_excel(s['r2'], now)]
        if second:
            conj.append(_as_excel(s['r3'], now))
        return And(*conj)
    return ens


def history_fail_ens(v0, v1, out):
    if out.kind != 'ret':
        return False
    s = out.value
    return And(s['r1'] == 'FAILED', _as_excel(s['r2'], v1), _as_excel(s['r3'], v1))


def _hkey(s):
    return repr((s['r1'], s['r2'], s['r3'])) if isinstance(s, dict) else repr(s)


for _how, _second, _prop in (('address', False, 'C04'), ('name', False, 'C04'), ('absent', False, 'C04'), ('none', True, 'C05'), ('absent', True, 'C05'),
                             ('name', True, 'C05'), ('address', True, 'C05')):
    UNITS.append(Unit(ghost=True, cross_key=_hkey,
        id=f'{_prop}/evaluator.Evaluator/history[evaluate; set input by {_how}; evaluate{"; a second evaluator" if _second else ""}]',
        target='xlcalculator.evaluator:Evaluator.evaluate', prop=_prop,
        inputs=[('v0', CONSTS), ('v1', CONSTS)], fork='star',
        cases=[Case('after an input is changed (by address, through its defined name, or by giving a value to a cell that did not exist) a formula yields what a fresh evaluation of the current inputs yields - for every evaluator over the model',
                    lambda *a: True, history_ens(_how, _second))],
        call=history_call(False, _how, _second), native_call=history_call(True, _how, _second), bounded_domain_cap=80))


UNITS.append(Unit(ghost=True, cross_key=_hkey,
    id='C04/evaluator.Evaluator/history[evaluate FAILS; set input; evaluate; a second evaluator]',
    target='xlcalculator.evaluator:Evaluator.evaluate', prop='C04',
    inputs=[('v0', CONSTS), ('v1', CONSTS)], fork='star',
    cases=[Case('an evaluation that failed with a Python exception (and was caught by the caller) leaves nothing behind: after the input is corrected the '
                'formula yields what a fresh evaluation yields, on the same evaluator and on another', lambda *a: True, history_fail_ens)],
    call=history_call(False, 'address', True, fail_first=True), native_call=history_call(True, 'address', True, fail_first=True), bounded_domain_cap=80))


# ---- Model.set_cell_value: a name stands for its cell (C04, C13) ----------------------------------------------------------------------------
def setcell_call(native, how):
    def call(it, fn, v0, v1):
        from xlcalculator import model as Mo, xltypes
        import copy as _copy
        m = Mo.Model()
        cK = xltypes.XLCell(K_ADDR, None)
        cK.value = v0
        other = xltypes.XLCell(G_ADDR, None)
        other.value = 'UNTOUCHED'
        # the name's own XLCell is a DISTINCT object from cells[K1], as in an extracted (deep-copied) or restored model
        named = xltypes.XLCell(K_ADDR, None)
        named.value = v0
        m.cells = {K_ADDR: cK, G_ADDR: other}
        m.defined_names = {'rate': named if how.endswith('copy') else cK}
        where = {'address': K_ADDR, 'name': 'rate', 'name-copy': 'rate', 'absent': Q_ADDR, 'cell-object': cK}[how]
        if native:
            m.set_cell_value(where, v1)
            writes = None
        else:
            it.track_attrs = True
            n0 = len(it.path.events)
            it.call(Mo.Model.set_cell_value, [m, where, v1], {})
            writes = [(('K' if o is cK else 'other' if o is other else 'named' if o is named else 'model' if o is m else type(o).__name__), a)
                      for kind, o, a, v in it.path.events[n0:] if kind == 'write']
            it.track_attrs = False
        target = Q_ADDR if how == 'absent' else K_ADDR
        # ... and what get_cell_value reads back, through the address and through the name
        if native:
            got = (m.get_cell_value(target), m.get_cell_value('rate'))
        else:
            got = (it.call(Mo.Model.get_cell_value, [m, target], {}), it.call(Mo.Model.get_cell_value, [m, 'rate'], {}))
        return dict(value=m.cells[target].value if target in m.cells else 'NO-CELL', other=other.value, K=cK.value, writes=writes, keys=sorted(m.cells),
                    got_by_address=got[0], got_by_name=got[1])
    if native:
        return lambda fn, *a: call(None, fn, *a)
    return call


def setcell_ens(how):
    def ens(v0, v1, out):
        if out.kind != 'ret':
            return False
        s = out.value
        if s['other'] != 'UNTOUCHED':
            return False
        if how == 'absent':
            if s['keys'] != sorted([K_ADDR, G_ADDR, Q_ADDR]) or not (s['K'] is v0 or s['K'] == v0):
                return False
        elif s['keys'] != sorted([K_ADDR, G_ADDR]):
            return False
        if s['writes'] is not None and any(w[0] in ('other', 'model') for w in s['writes']):
            return False                                   # frame: no other cell, no table of the model is written
        def same(val, want):
            if val is want:
                return True
            return spec.eq(val, want) if (is_sym(val) or is_sym(want)) else (type(val) is type(want) and val == want)
        # get_cell_value returns the last value set: read through the address - and through the name, which stands for K1
        # (K1 holds v1 after every variant but `absent`, which leaves K1 alone)
        by_name_want = v0 if how == 'absent' else v1
        return And(same(s['value'], v1), same(s['got_by_address'], v1), same(s['got_by_name'], by_name_want))
    return ens


for _prop in ('C04', 'C13'):
    for _how in ('address', 'name', 'name-copy', 'absent'):
        UNITS.append(Unit(ghost=True, cross_key=lambda s: repr((s['value'], s['keys'])) if isinstance(s, dict) else repr(s),
            id=f'{_prop}/model.Model.set_cell_value[{_how}]', target='xlcalculator.model:Model.set_cell_value', prop=_prop,
            inputs=[('v0', CONSTS), ('v1', CONSTS)], fork='star',
            cases=[Case('afterwards the cell AT the address (the address a name stands for) holds the value and get_cell_value reads it back through the address and through the name - also when the name keeps its own copy of the cell, as in an extracted or restored model; nothing else changes',
                        lambda *a: True, setcell_ens(_how))],
            call=setcell_call(False, _how), native_call=setcell_call(True, _how), bounded_domain_cap=60))


# ---- C06: the length bound also holds when the failure travels through a REAL function node (lazy IF / eager SUM) -------------------------
def fn_chain_call(native, fname):
    """F1's tree is a real FunctionNode: IF(TRUE, <next cell>, 0) - the next cell is evaluated INSIDE the function, through a thunk -
    or SUM(<next cell>, 1); the next cell's evaluation fails with a report `inner` (symbolic text)"""
    def call(it, fn, inner):
        from xlcalculator import evaluator, model as Mo, xltypes, ast_nodes, tokenizer
        from xlcalculator.xlfunctions import logical, math as xmath

        class Obj:
            pass

        def fail(ctx=None):
            e = RuntimeError('<sym>' if is_sym(inner) else inner)
            if is_sym(inner):
                e._pyvc_msg = inner
            raise (RaiseEx(e) if not native else e)
        if native:
            nxt = Obj()
            nxt.eval = lambda ctx: fail(ctx)
        else:
            nxt = Stub('next-cell', eval=ModelFn(lambda it_, ctx: fail(ctx), 'next.eval'))
        node = ast_nodes.FunctionNode(tokenizer.f_token(fname, 'function', 'start'))
        lit = lambda v, sub: ast_nodes.OperandNode(tokenizer.f_token(v, 'operand', sub))
        node.args = [lit('TRUE', 'logical'), nxt, lit('0', 'number')] if fname == 'IF' else [nxt, lit('1', 'number')]
        text = '=IF(TRUE,G1,0)' if fname == 'IF' else '=SUM(G1,1)'
        f = xltypes.XLFormula(text, 'Sheet1')
        f.ast = node
        m = Mo.Model()
        cF = xltypes.XLCell(F_ADDR, None)
        cF.formula, cF.value = f, 'STALE-F'
        m.cells = {F_ADDR: cF}
        ev = evaluator.Evaluator(m, {'IF': logical.IF, 'SUM': xmath.SUM})
        exc = None
        try:
            if native:
                ev.evaluate(F_ADDR)
            else:
                it.call(evaluator.Evaluator.evaluate, [ev, F_ADDR], {})
        except RaiseEx as r:
            exc = r.exc
        except Exception as ex:      # noqa
            exc = ex
        return dict(exc=exc, text=text, F_value=cF.value, stack=list(getattr(ev, '_evaluating', [])))
    if native:
        return lambda fn, inner: call(None, fn, inner)
    return call


def fn_chain_ens(inner, out):
    if out.kind != 'ret':
        return False
    s = out.value
    if not isinstance(s['exc'], RuntimeError) or s['F_value'] != 'STALE-F' or s['stack']:
        return False
    return _msg_len(s['exc']) <= S.length(inner) + len(s['text']) + len(F_ADDR) + 60


QUOTES = "it's a 'quoted' \"report\" " + "'" * 70
for _fname in ('IF', 'SUM'):
    UNITS.append(Unit(ghost=True, cross_key=lambda s: (type(s['exc']).__name__, len(str(s['exc']))) if isinstance(s, dict) else repr(s),
        id=f'C06/evaluator.Evaluator.evaluate/message_growth_through[{_fname}]', target='xlcalculator.evaluator:Evaluator.evaluate', prop='C06',
        inputs=[('inner', Prim('str', domain=['x', 'Problem evaluating cell Sheet1!G1 formula =H1+1: ValueError("q\'q")', QUOTES]))],
        cases=[Case('a report that passes through a function call (lazy or eager) still grows by at most len(address) + len(formula) + 60 characters per level',
                    lambda i: True, fn_chain_ens)],
        call=fn_chain_call(False, _fname), native_call=fn_chain_call(True, _fname)))


# ---- C06: a cycle report is a Python-level failure travelling up through the functions on its way; a function that evaluates an argument
#      expression ITSELF (a parameter declared XlExpr) is the only place where it could be caught and turned into a value.  Generated from
#      the real signatures of everything registered: whatever takes unevaluated expressions lets such a failure pass.
def _lazy_functions():
    import inspect
    import typing
    import xlcalculator                                              # noqa: F401
    from xlcalculator.xlfunctions import xl, func_xltypes
    out = []
    for name, fn in sorted(xl.FUNCTIONS.items()):
        try:
            sig = inspect.signature(fn)
        except (TypeError, ValueError):
            continue
        lazy = []
        for p in sig.parameters.values():
            a = p.annotation
            inner = getattr(a, '__args__', ())
            if a is func_xltypes.XlExpr or func_xltypes.XlExpr in inner:
                lazy.append(p)
        if lazy:
            out.append((name, fn, sig, lazy))
    return out


def _failing_thunk_call(native, fn, sig, npos):
    def call(it, f_):
        t = T()
        log = []

        def failing():
            log.append('evaluated')
            e = RuntimeError('Cycle detected for Sheet1!A1:\n- Sheet1!A1')
            raise e if native else RaiseEx(e)
        args = [t.Expr(failing if native else ModelFn(lambda it_, *a: failing(), 'failing argument'))]
        for _ in range(npos - 1):
            args.append(t.Expr((lambda: 1) if native else ModelFn(lambda it_, *a: 1, 'argument')))
        try:
            res = fn(*args) if native else it.call(fn, args, {})
        except RaiseEx as r:
            return ('raised', type(r.exc).__name__, tuple(log))
        except RuntimeError as ex:
            return ('raised', type(ex).__name__, tuple(log))
        return ('returned', repr(res), tuple(log))
    if native:
        return lambda f_: call(None, f_)
    return call


for _name, _fn, _sig, _lazy in _lazy_functions():
    _params = list(_sig.parameters.values())
    _n = 1 if _params[0].kind == _params[0].VAR_POSITIONAL else min(3, len([p for p in _params if p.kind in (p.POSITIONAL_ONLY, p.POSITIONAL_OR_KEYWORD)]))
    UNITS.append(Unit(
        id=f'C06/lazy_argument_failure_passes.{_name}', target=f'{getattr(_fn, "__wrapped__", _fn).__module__}:{getattr(_fn, "__wrapped__", _fn).__name__}',
        prop='C06', inputs=[],
        cases=[Case(f'{_name} evaluates argument expressions itself: a Python-level failure of that evaluation (such as the report of a cycle) is not '
                    f'turned into a value but passes through', lambda: True,
                    lambda out: out.kind == 'ret' and out.value[0] == 'raised' and out.value[1] == 'RuntimeError' and out.value[2] == ('evaluated',))],
        call=_failing_thunk_call(False, _fn, _sig, _n), native_call=_failing_thunk_call(True, _fn, _sig, _n)))


# ---- a REAL compiled tree evaluated twice: every node reads its operands at EVERY evaluation (no result kept on a node) -------------------------
# The units above treat the compiled tree as an opaque collaborator.  Here the tree is the real one (built natively by the real parser from a
# concrete formula text) and `node.eval(context)` is interpreted from source - OperatorNode / FunctionNode / RangeNode / OperandNode and the
# operator functions behind them - twice over contexts that hand out SYMBOLIC input values v0, then v1: the second result is the formula's
# value for v1.  A value cached on a node (a folded signed operand, a memoised call) makes the second evaluation repeat the first.
TREE_FORMULAS = [
    ('=-K1', lambda x: 0 - x), ('=+K1', lambda x: x), ('=-K1*50%', lambda x: (0 - x) * 0.5), ('=3*-K1', lambda x: 3 * (0 - x)), ('=2--K1', lambda x: 2 + x),
    ('=-K1+K1*2', lambda x: x), ('=-(K1+1)', lambda x: 0 - (x + 1)), ('=K1-1', lambda x: x - 1), ('=-SUM(K1,1)', lambda x: 0 - (x + 1)),
    ('=SUM(-K1,1)', lambda x: 1 - x), ('=--K1', lambda x: x),
]


def tree_call(native, text):
    def call(it, fn, v0, v1):
        from xlcalculator import parser
        from xlcalculator.xlfunctions import xl
        tree = parser.FormulaParser().parse(text, {})            # the real parser, natively, on the concrete text
        box, log = [v0], []

        def eval_cell(addr):
            log.append(addr)
            return box[0]

        def mkctx():
            if native:
                ctx = type('Ctx', (), {})()
                ctx.sheet = ctx.refsheet = K_ADDR.split('!')[0]
                ctx.ref, ctx.ranges, ctx.cells, ctx.namespace = F_ADDR, {}, {}, xl.FUNCTIONS
                ctx.eval_cell = eval_cell
                ctx.set_sheet = lambda *a: None
                return ctx
            return Stub('ctx', sheet=K_ADDR.split('!')[0], refsheet=K_ADDR.split('!')[0], ref=F_ADDR, ranges={}, cells={}, namespace=xl.FUNCTIONS,
                        eval_cell=ModelFn(lambda it_, a: eval_cell(a), 'eval_cell'), set_sheet=ModelFn(lambda it_, *a: None, 'set_sheet'))

        def ev():
            ctx = mkctx()                                            # a fresh context per evaluation, as Evaluator.evaluate makes one
            return tree.eval(ctx) if native else it.call(type(tree).eval, [tree, ctx], {})
        r1 = ev()
        box[0] = v1
        n1 = len(log)
        r2 = ev()
        return dict(r1=r1, r2=r2, reads1=log[:n1], reads2=log[n1:])
    if native:
        return lambda fn, *a: call(None, fn, *a)
    return call


def tree_ens(f):
    class _Out:
        kind = 'ret'

        def __init__(self, v):
            self.value = v

    def ens(v0, v1, out):
        if out.kind != 'ret':
            return False
        s = out.value
        if not s['reads2'] or s['reads1'] != s['reads2'] or set(s['reads2']) != {K_ADDR}:
            return False
        return And(spec.numeric_result(_Out(s['r1']), f(v0.value), tol=1e-12), spec.numeric_result(_Out(s['r2']), f(v1.value), tol=1e-12))
    return ens


for _text, _f in TREE_FORMULAS:
    UNITS.append(Unit(cross_key=lambda s: repr((s['r1'], s['r2'], s['reads2'])) if isinstance(s, dict) else repr(s),
        id=f'C04/ast_nodes.eval/real_tree_evaluated_twice[{_text}]', target='xlcalculator.ast_nodes:OperatorNode.eval', prop='C04',
        inputs=[('v0', Fork([Xl('Number', 'real', domain=[3.0, -2.5]), Xl('Number', 'int', domain=[3, 0])])), ('v1', Fork([Xl('Number', 'real', domain=[5.0, 0.5]), Xl('Number', 'int', domain=[5, -7])]))],
        cases=[Case('the real compiled tree, evaluated again after its input changed, reads the input again and yields the value of the formula for the CURRENT '
                    'input (nothing is kept on a node between evaluations)', lambda *a: True, tree_ens(_f))],
        canary=Case('canary', lambda *a: True, (lambda f: lambda v0, v1, out: tree_ens(lambda x: f(x) + 1)(v0, v1, out))(_f)),
        call=tree_call(False, _text), native_call=tree_call(True, _text), bounded_domain_cap=80))
