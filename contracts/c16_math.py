"""C16  Math and rounding functions agree with exact / IEEE reference values.

What contracts can decide here (floats are treated as reals - machine arithmetic as mathematical - so ulp accuracy,
overflow to infinity and every decimal-representation effect of ROUND/ROUNDUP/ROUNDDOWN/TRUNC(n<>0)/INT/CEILING/FLOOR are
NOT provable this way and are decided by the bounded layer against `decimal` and mpmath):

  wiring   each elementary function hands the RIGHT argument(s) to the RIGHT numpy / math routine (uninterpreted):
           ATAN2(x, y) = atan2(y, x), LOG(x, b) = ln x / ln b, DEGREES / RADIANS, SIN ... ATAN, EXP, SQRT, SQRTPI
  domain   arguments outside the domain give an Excel error value, never a Python exception: ACOS / ASIN (|x| > 1), ACOSH
           (x < 1), SQRT / SQRTPI / FACT / FACTDOUBLE (x < 0), LN / LOG10 (x <= 0), LOG (x <= 0, base <= 0, base = 1), MOD (y = 0)
  exact    ABS, SIGN, EVEN, TRUNC(x) (no digits), MOD(x, y) = x - y*floor(x/y) (hence the sign of the divisor) over the reals
"""
import math as _m
import z3

from pyvc.engine import Unit, Case, Lemma, Fork, Xl, XlBlank, Prim, Const
from pyvc import spec, sym as S, models as M
from pyvc.sym import Sym, is_sym, And, Or, Not, Implies, Ite

MOD_ = 'xlcalculator.xlfunctions.math'
UNITS = []
X = lambda dom=None: Fork([Xl('Number', 'real', domain=dom or [-2.5, -1.0, -0.5, 0.0, 0.5, 1.0, 2.0, 7.25]), Xl('Number', 'int', domain=[-3, -1, 0, 1, 2, 10])])


def T():
    return spec.T()


def npf(name, *args):
    """the numpy routine as modelled by the interpreter (symbolic: uninterpreted; native: the real one)"""
    import numpy as np
    if any(is_sym(a) for a in args):
        return M.np_ufunc(name, len(args))(None, *args)
    return float(getattr(np, name)(*[float(a) for a in args]))


def mathf(name, x):
    if is_sym(x):
        key = 'math.' + name
        if key not in M.NP_UF:
            M.NP_UF[key] = M.uf('math_' + name, ['real'], 'real', lambda v, n=name: getattr(_m, n)(float(v)))
        return M.NP_UF[key](x)
    return getattr(_m, name)(float(x))


UNARY = {
    # name: (reference over the modelled routine, domain predicate or None)
    'ACOS': (lambda x: npf('arccos', x), lambda x: And(x >= -1, x <= 1)),
    'ASIN': (lambda x: npf('arcsin', x), lambda x: And(x >= -1, x <= 1)),
    'ACOSH': (lambda x: npf('arccosh', x), lambda x: x >= 1),
    'ASINH': (lambda x: npf('arcsinh', x), None), 'ATAN': (lambda x: npf('arctan', x), None),
    'COS': (lambda x: npf('cos', x), None), 'SIN': (lambda x: npf('sin', x), None), 'TAN': (lambda x: npf('tan', x), None),
    'COSH': (lambda x: npf('cosh', x), None), 'EXP': (lambda x: npf('exp', x), None),
    'DEGREES': (lambda x: npf('degrees', x), None), 'RADIANS': (lambda x: npf('radians', x), None),
    'LOG10': (lambda x: npf('log10', x), lambda x: x > 0),
    'LN': (lambda x: mathf('log', x), lambda x: x > 0),
    'SQRT': (lambda x: mathf('sqrt', x), lambda x: x >= 0),
}
for _f, (_ref, _dom) in UNARY.items():
    cases = [Case(f'{_f}(x) is the routine\'s value of x (inside the domain)', (lambda d: (lambda x: True) if d is None else (lambda x: d(x.value)))(_dom),
                  (lambda r: lambda x, out: spec.numeric_result(out, r(x.value), tol=1e-12))(_ref))]
    if _dom is not None:
        cases.append(Case(f'{_f}(x) outside the domain is an Excel error value', (lambda d: lambda x: Not(d(x.value)))(_dom),
                          lambda x, out: spec.is_error(out)))
    UNITS.append(Unit(id=f'C16/math.{_f}', target=f'{MOD_}:{_f}', inputs=[('x', X())], cases=cases,
                      canary=Case('canary', cases[0].guard, (lambda r: lambda x, out: spec.numeric_result(out, r(x.value) + 1, tol=1e-12))(_ref))))

# two-argument wiring
UNITS.append(Unit(
    id='C16/math.ATAN2', target=f'{MOD_}:ATAN2', inputs=[('x', X()), ('y', X())], fork='star',
    cases=[Case('ATAN2(x, y) = atan2(y, x)', lambda x, y: True, lambda x, y, out: spec.numeric_result(out, npf('arctan2', y.value, x.value), tol=1e-12))],
    canary=Case('canary', lambda x, y: True, lambda x, y, out: spec.numeric_result(out, npf('arctan2', x.value, y.value), tol=1e-12))))


def _log_dom(x, b):
    return And(x.value > 0, b.value > 0, Not(spec.eq(b.value, 1)))


UNITS.append(Unit(
    id='C16/math.LOG', target=f'{MOD_}:LOG', inputs=[('x', X([8.0, 0.0, -1.0, 0.5])), ('b', X([2.0, 10.0, 1.0, 0.0, -2.0]))], fork='star',
    cases=[Case('LOG(x, b) = ln x / ln b inside the domain', _log_dom,
                lambda x, b, out: spec.numeric_result(out, mathf('log', x.value) / mathf('log', b.value), tol=1e-9)),
           Case('LOG outside the domain (x <= 0, b <= 0, b = 1) is an Excel error value', lambda x, b: Not(_log_dom(x, b)), lambda x, b, out: spec.is_error(out))]))

# ---- exact over the reals ---------------------------------------------------------------------------------------------------------
UNITS.append(Unit(id='C16/math.ABS', target=f'{MOD_}:ABS', inputs=[('x', X())],
                  cases=[Case('ABS(x) = |x|', lambda x: True, lambda x, out: spec.numeric_result(out, Ite(x.value >= 0, x.value, 0 - x.value) if is_sym(x.value) else abs(x.value)))]))
UNITS.append(Unit(id='C16/math.SIGN', target=f'{MOD_}:SIGN', inputs=[('x', X())],
                  cases=[Case('SIGN(x) = -1, 0, 1', lambda x: True,
                              lambda x, out: spec.numeric_result(out, npf('sign', x.value)))]))


def _even_ref(x):
    if is_sym(x):
        a = Ite(x >= 0, x, 0 - x)
        half = a / 2
        c = Sym(0 - S.floor_real(0 - S.to_real(S.lift(half))), 'int')            # ceil
        return Ite(x < 0, c * -2, c * 2)
    return _m.ceil(abs(float(x)) / 2.0) * (-2 if x < 0 else 2)


UNITS.append(Unit(id='C16/math.EVEN', target=f'{MOD_}:EVEN', inputs=[('x', X())],
                  cases=[Case('EVEN(x) = the next even integer away from zero', lambda x: True, lambda x, out: spec.numeric_result(out, _even_ref(x.value)))],
                  canary=Case('canary', lambda x: True, lambda x, out: spec.numeric_result(out, _even_ref(x.value) + 2))))
UNITS.append(Unit(id='C16/math.TRUNC#0', target=f'{MOD_}:TRUNC', inputs=[('x', X())],
                  cases=[Case('TRUNC(x) = x truncated toward zero', lambda x: True, lambda x, out: spec.numeric_result(out, spec.trunc(x.value)))]))


def _mod_ref(x, y):
    if is_sym(x) or is_sym(y):
        x, y = S.lift(x), S.lift(y)
        if x.k == 'int' and y.k == 'int':
            return Sym(S.py_int_mod(x.t, y.t), 'int')
        xr, yr = S.to_real(x), S.to_real(y)
        return Sym(xr - yr * z3.ToReal(S.floor_real(xr / yr)), 'real')
    return x - y * _m.floor(x / y)


UNITS.append(Unit(
    id='C16/math.MOD', target=f'{MOD_}:MOD', inputs=[('x', X()), ('y', X([-2.5, -1.0, 0.0, 0.5, 3.0]))], fork='product',
    cases=[Case('MOD(x, y) = x - y*floor(x/y) for y <> 0', lambda x, y: Not(spec.eq(y.value, 0)),
                lambda x, y, out: spec.numeric_result(out, _mod_ref(x.value, y.value), tol=1e-9)),
           Case('MOD(x, 0) is an Excel error value', lambda x, y: spec.eq(y.value, 0), lambda x, y, out: spec.is_error(out))]))
UNITS.append(Lemma(
    'C16/lemma.MOD-takes-the-sign-of-its-divisor', [('x', Prim('real')), ('y', Prim('real'))],
    requires=lambda x, y: Not(spec.eq(y, 0)),
    statement=lambda x, y: Ite(y > 0, And(_mod_ref(x, y) >= 0, _mod_ref(x, y) < y), And(_mod_ref(x, y) <= 0, _mod_ref(x, y) > y)),
    doc='x - y*floor(x/y) lies in [0, y) for y > 0 and in (y, 0] for y < 0', timeout_ms=30000))

for _f in ('SQRTPI', 'FACT', 'FACTDOUBLE'):
    UNITS.append(Unit(id=f'C16/math.{_f}/domain', target=f'{MOD_}:{_f}', inputs=[('x', X([-2.5, -1.0, -0.5]))],
                      requires=lambda x: x.value < 0,
                      cases=[Case(f'{_f} of a negative number is an Excel error value', lambda x: True, lambda x, out: spec.is_error(out))]))


# ---- rounding family over the reals, on an exact model of decimal.Decimal (pyvc/models_decimal.py) -----------------------------------------
# ROUND / ROUNDUP / ROUNDDOWN / TRUNC(x, n) / INT and CEILING / FLOOR(x, significance) are interpreted from source - `_round`,
# `decimal.Decimal(str(x))`, the local context's rounding mode, `round(d, n)`, `to_integral_value` - for ALL real x with a concrete digit
# count / significance per instance.  The reference is written independently with floor / ceiling of |x| * 10**n.
import fractions as _fr


def _scale(n):
    return _fr.Fraction(10) ** int(n)


def _rnd_ref(kind, x, n):
    """reference value of the rounding `kind` of x at n digits; x symbolic real / int or concrete"""
    sc = _scale(n)
    if is_sym(x):
        xr = S.to_real(S.lift(x))
        scz = z3.RealVal(f'{sc.numerator}/{sc.denominator}')
        a = z3.If(xr >= 0, xr, -xr) * scz
        fl = z3.ToReal(z3.ToInt(a))
        ce = -z3.ToReal(z3.ToInt(-a))
        mag = {'half-away': z3.ToReal(z3.ToInt(a + z3.RealVal('1/2'))), 'away': ce, 'toward': fl}[kind]
        return Sym(z3.If(xr >= 0, mag, -mag) / scz, 'real')
    xf = _fr.Fraction(str(x)) if not isinstance(x, int) else _fr.Fraction(x)     # the decimal rendering of the double (A-float)
    a = abs(xf) * sc
    import math as _mm
    mag = {'half-away': _mm.floor(a + _fr.Fraction(1, 2)), 'away': _mm.ceil(a), 'toward': _mm.floor(a)}[kind]
    return float((mag if xf >= 0 else -mag) / sc)


def _int_ref(x):
    if is_sym(x):
        return Sym(z3.ToReal(z3.ToInt(S.to_real(S.lift(x)))), 'real')
    return float(_m.floor(_fr.Fraction(str(x)) if not isinstance(x, int) else x))


RX = lambda: Fork([Xl('Number', 'real', domain=[2.5, -2.5, 0.125, 1.005, -0.5, 1234.5678, 0.0, 1e-7]), Xl('Number', 'int', domain=[-3, 0, 15, 25, 1250])])
for _f, _kind in (('ROUND', 'half-away'), ('ROUNDUP', 'away'), ('ROUNDDOWN', 'toward'), ('TRUNC', 'toward')):
    for _n in (-2, -1, 0, 1, 2, 3):
        if _f == 'TRUNC' and _n == 0:
            continue                            # TRUNC(x) without digits: C16/math.TRUNC#0 above
        UNITS.append(Unit(
            id=f'C16/math.{_f}[digits={_n}]', target=f'{MOD_}:{_f}', inputs=[('x', RX())],
            cases=[Case(f'{_f}(x, {_n}) rounds |x| at {_n} decimal digits {"half away from zero" if _kind == "half-away" else _kind + " zero"} and keeps the sign (exact decimal arithmetic)',
                        lambda x: True, (lambda k, n: lambda x, out: spec.numeric_result(out, _rnd_ref(k, x.value, n), tol=1e-12))(_kind, _n))],
            canary=Case('canary', lambda x: True, (lambda k, n: lambda x, out: spec.numeric_result(out, _rnd_ref(k, x.value, n) + 1, tol=1e-12))(_kind, _n)),
            call=(lambda n: lambda it, fn, x: it.call(fn, [x, n], {}))(_n), native_call=(lambda n: lambda fn, x: fn(x, n))(_n), bounded_domain_cap=40))
UNITS.append(Unit(
    id='C16/math.INT', target=f'{MOD_}:INT', inputs=[('x', RX())],
    cases=[Case('INT(x) is the greatest integer not above x (rounds negative numbers away from zero)', lambda x: True,
                lambda x, out: spec.numeric_result(out, _int_ref(x.value), tol=1e-12))],
    canary=Case('canary', lambda x: True, lambda x, out: spec.numeric_result(out, _int_ref(x.value) + 1, tol=1e-12))))


def _mult_ref(kind, x, s):
    """CEILING / FLOOR to a multiple of the (concrete, non-zero) significance s"""
    sf = _fr.Fraction(str(s))
    if is_sym(x):
        xr = S.to_real(S.lift(x))
        sz = z3.RealVal(f'{sf.numerator}/{sf.denominator}')
        q = xr / sz
        m = -z3.ToReal(z3.ToInt(-q)) if kind == 'ceil' else z3.ToReal(z3.ToInt(q))
        return Sym(m * sz, 'real')
    q = (_fr.Fraction(str(x)) if not isinstance(x, int) else _fr.Fraction(x)) / sf
    return float((_m.ceil(q) if kind == 'ceil' else _m.floor(q)) * sf)


for _f, _kind in (('CEILING', 'ceil'), ('FLOOR', 'floor')):
    for _s in (0.1, 0.5, 2.0, 10.0, -2.0):
        def _req(x, _s=_s, _f=_f):
            # the functions' own domain: a negative significance with a positive number is #NUM!; FLOOR(0, s) = 0 is a special case of the same formula
            return Not(And(_s < 0, x.value > 0))
        UNITS.append(Unit(
            id=f'C16/math.{_f}[significance={_s}]', target=f'{MOD_}:{_f}', inputs=[('x', RX())], requires=_req,
            cases=[Case(f'{_f}(x, {_s}) is the {"smallest multiple of the significance not below" if _kind == "ceil" else "greatest multiple of the significance not above"} x (exact decimal arithmetic)',
                        lambda x: True, (lambda k, s: lambda x, out: spec.numeric_result(out, _mult_ref(k, x.value, s), tol=1e-9))(_kind, _s))],
            call=(lambda s: lambda it, fn, x: it.call(fn, [x, s], {}))(_s), native_call=(lambda s: lambda fn, x: fn(x, s))(_s), bounded_domain_cap=40))


# ---- whole-number powers and the end of the double range ------------------------------------------------------------------------------------
# base ^ k for a SYMBOLIC whole-number base and k = 2, 3 (exact integer arithmetic): the exact power while it fits a double (below 2**1024 - 2**970), otherwise
# the exact power or #NUM!.
DBL_MAX_INT = 2 ** 1024 - 2 ** 970


def ipow_call(native, k):
    def call(it, fn, a):
        t = T()
        if native:
            try:
                return t.ExcelType.__pow__(a, t.Number(k))
            except spec.E().ExcelError as ex:
                return ex
        try:
            return it.call(t.ExcelType.__pow__, [a, t.Number(k)], {})
        except Exception as r:
            exc = getattr(r, 'exc', None)
            if isinstance(exc, spec.E().ExcelError):
                return exc
            raise
    if native:
        return lambda fn, a: call(None, fn, a)
    return call


def ipow_ens(k):
    def ens(a, out):
        v = a.value
        p = v
        for _ in range(k - 1):
            p = p * v
        mag = Ite(p >= 0, p, 0 - p) if is_sym(p) else abs(p)
        fits = mag < DBL_MAX_INT
        # (that a power beyond the range IS rejected rests on float(int) raising OverflowError, which the integer model does not
        #  have - assumption A-int; the bounded layer checks those cases)
        return And(Implies(fits, spec.is_number(out, p)), Or(spec.is_number(out, p), spec.is_error(out, 'NumExcelError')))
    return ens


for _k in (2, 3):
    UNITS.append(Unit(
        id=f'C16/func_xltypes.ExcelType.__pow__[whole base ^ {_k}]', target='xlcalculator.xlfunctions.func_xltypes:ExcelType.__pow__',
        inputs=[('a', Xl('Number', 'int', domain=[0, 1, -1, 2, -3, 10, 2 ** 511, 2 ** 511 + 1, 2 ** 512, -2 ** 341, 2 ** 341, 2 ** 342, 10 ** 154, 10 ** 155]))],
        cases=[Case(f'a whole number to the power {_k} is the exact power whenever that fits a double (never #NUM! inside the range)',
                    lambda a: True, ipow_ens(_k))],
        call=ipow_call(False, _k), native_call=ipow_call(True, _k), timeout_ms=20000))
