"""C16  Math and rounding functions agree with exact / IEEE reference values.

What contracts can decide here (floats are treated as reals - machine arithmetic as mathematical - so ulp accuracy,
overflow to infinity and every decimal-representation effect of ROUND/ROUNDUP/ROUNDDOWN/TRUNC(n<>0)/INT/CEILING/FLOOR are
NOT provable this way and are decided by the bounded layer against `decimal` and mpmath):

  wiring   each elementary function hands the RIGHT argument(s) to the RIGHT numpy / math routine (uninterpreted):
           ATAN2(x, y) = atan2(y, x), LOG(x, b) = ln x / ln b, DEGREES / RADIANS, SIN ... ATAN, EXP, SQRT, SQRTPI
  domain   arguments outside the domain give an Excel error value, never a Python exception: ACOS / ASIN (|x| > 1), ACOSH
           (x < 1), SQRT / SQRTPI / FACT / FACTDOUBLE (x < 0), LN / LOG10 (x <= 0), LOG (x <= 0, base <= 0, base = 1), MOD (y = 0)
  exact    ABS, SIGN, EVEN, TRUNC(x) (no digits), MOD(x, y) = x - y*floor(x/y) (hence the sign of the divisor) over the reals
"""
import math as _m
import z3

from pyvc.engine import Unit, Case, Lemma, Fork, Xl, XlBlank, Prim, Const
from pyvc import spec, sym as S, models as M
from pyvc.sym import Sym, is_sym, And, Or, Not, Implies, Ite

MOD_ = 'xlcalculator.xlfunctions.math'
UNITS = []
X = lambda dom=None: Fork([Xl('Number', 'real', domain=dom or [-2.5, -1.0, -0.5, 0.0, 0.5, 1.0, 2.0, 7.25]), Xl('Number', 'int', domain=[-3, -1, 0, 1, 2, 10])])


def T():
    return spec.T()


def npf(name, *args):
    """the numpy routine as modelled by the interpreter (symbolic: uninterpreted; native: the real one)"""
    import numpy as np
    if any(is_sym(a) for a in args):
        return M.np_ufunc(name, len(args))(None, *args)
    return float(getattr(np, name)(*[float(a) for a in args]))


def mathf(name, x):
    if is_sym(x):
        key = 'math.' + name
        if key not in M.NP_UF:
            M.NP_UF[key] = M.uf('math_' + name, ['real'], 'real', lambda v, n=name: getattr(_m, n)(float(v)))
        return M.NP_UF[key](x)
    return getattr(_m, name)(float(x))


UNARY = {
    # name: (reference over the modelled routine, domain predicate or None)
    'ACOS': (lambda x: npf('arccos', x), lambda x: And(x >= -1, x <= 1)),
    'ASIN': (lambda x: npf('arcsin', x), lambda x: And(x >= -1, x <= 1)),
    'ACOSH': (lambda x: npf('arccosh', x), lambda x: x >= 1),
    'ASINH': (lambda x: npf('arcsinh', x), None), 'ATAN': (lambda x: npf('arctan', x), None),
    'COS': (lambda x: npf('cos', x), None), 'SIN': (lambda x: npf('sin', x), None), 'TAN': (lambda x: npf('tan', x), None),
    'COSH': (lambda x: npf('cosh', x), None), 'EXP': (lambda x: npf('exp', x), None),
    'DEGREES': (lambda x: npf('degrees', x), None), 'RADIANS': (lambda x: npf('radians', x), None),
    'LOG10': (lambda x: npf('log10', x), lambda x: x > 0),
    'LN': (lambda x: mathf('log', x), lambda x: x > 0),
    'SQRT': (lambda x: mathf('sqrt', x), lambda x: x >= 0),
}
for _f, (_ref, _dom) in UNARY.items():
    cases = [Case(f'{_f}(x) is the routine\'s value of x (inside the domain)', (lambda d: (lambda x: True) if d is None else (lambda x: d(x.value)))(_dom),
                  (lambda r: lambda x, out: spec.numeric_result(out, r(x.value), tol=1e-12))(_ref))]
    if _dom is not None:
        cases.append(Case(f'{_f}(x) outside the domain is an Excel error value', (lambda d: lambda x: Not(d(x.value)))(_dom),
                          lambda x, out: spec.is_error(out)))
    UNITS.append(Unit(id=f'C16/math.{_f}', target=f'{MOD_}:{_f}', inputs=[('x', X())], cases=cases,
                      canary=Case('canary', cases[0].guard, (lambda r: lambda x, out: spec.numeric_result(out, r(x.value) + 1, tol=1e-12))(_ref))))

# two-argument wiring
UNITS.append(Unit(
    id='C16/math.ATAN2', target=f'{MOD_}:ATAN2', inputs=[('x', X()), ('y', X())], fork='star',
    cases=[Case('ATAN2(x, y) = atan2(y, x)', lambda x, y: True, lambda x, y, out: spec.numeric_result(out, npf('arctan2', y.value, x.value), tol=1e-12))],
    canary=Case('canary', lambda x, y: True, lambda x, y, out: spec.numeric_result(out, npf('arctan2', x.value, y.value), tol=1e-12))))


def _log_dom(x, b):
    return And(x.value > 0, b.value > 0, Not(spec.eq(b.value, 1)))


UNITS.append(Unit(
    id='C16/math.LOG', target=f'{MOD_}:LOG', inputs=[('x', X([8.0, 0.0, -1.0, 0.5])), ('b', X([2.0, 10.0, 1.0, 0.0, -2.0]))], fork='star',
    cases=[Case('LOG(x, b) = ln x / ln b inside the domain', _log_dom,
                lambda x, b, out: spec.numeric_result(out, mathf('log', x.value) / mathf('log', b.value), tol=1e-9)),
           Case('LOG outside the domain (x <= 0, b <= 0, b = 1) is an Excel error value', lambda x, b: Not(_log_dom(x, b)), lambda x, b, out: spec.is_error(out))]))

# ---- exact over the reals ---------------------------------------------------------------------------------------------------------
UNITS.append(Unit(id='C16/math.ABS', target=f'{MOD_}:ABS', inputs=[('x', X())],
                  cases=[Case('ABS(x) = |x|', lambda x: True, lambda x, out: spec.numeric_result(out, Ite(x.value >= 0, x.value, 0 - x.value) if is_sym(x.value) else abs(x.value)))]))
UNITS.append(Unit(id='C16/math.SIGN', target=f'{MOD_}:SIGN', inputs=[('x', X())],
                  cases=[Case('SIGN(x) = -1, 0, 1', lambda x: True,
                              lambda x, out: spec.numeric_result(out, npf('sign', x.value)))]))


def _even_ref(x):
    if is_sym(x):
        a = Ite(x >= 0, x, 0 - x)
        half = a / 2
        c = Sym(0 - S.floor_real(0 - S.to_real(S.lift(half))), 'int')            # ceil
        return Ite(x < 0, c * -2, c * 2)
    return _m.ceil(abs(float(x)) / 2.0) * (-2 if x < 0 else 2)


UNITS.append(Unit(id='C16/math.EVEN', target=f'{MOD_}:EVEN', inputs=[('x', X())],
                  cases=[Case('EVEN(x) = the next even integer away from zero', lambda x: True, lambda x, out: spec.numeric_result(out, _even_ref(x.value)))],
                  canary=Case('canary', lambda x: True, lambda x, out: spec.numeric_result(out, _even_ref(x.value) + 2))))
UNITS.append(Unit(id='C16/math.TRUNC#0', target=f'{MOD_}:TRUNC', inputs=[('x', X())],
                  cases=[Case('TRUNC(x) = x truncated toward zero', lambda x: True, lambda x, out: spec.numeric_result(out, spec.trunc(x.value)))]))


def _mod_ref(x, y):
    if is_sym(x) or is_sym(y):
        x, y = S.lift(x), S.lift(y)
        if x.k == 'int' and y.k == 'int':
            return Sym(S.py_int_mod(x.t, y.t), 'int')
        xr, yr = S.to_real(x), S.to_real(y)
        return Sym(xr - yr * z3.ToReal(S.floor_real(xr / yr)), 'real')
    return x - y * _m.floor(x / y)


UNITS.append(Unit(
    id='C16/math.MOD', target=f'{MOD_}:MOD', inputs=[('x', X()), ('y', X([-2.5, -1.0, 0.0, 0.5, 3.0]))], fork='product',
    cases=[Case('MOD(x, y) = x - y*floor(x/y) for y <> 0', lambda x, y: Not(spec.eq(y.value, 0)),
                lambda x, y, out: spec.numeric_result(out, _mod_ref(x.value, y.value), tol=1e-9)),
           Case('MOD(x, 0) is an Excel error value', lambda x, y: spec.eq(y.value, 0), lambda x, y, out: spec.is_error(out))]))
UNITS.append(Lemma(
    'C16/lemma.MOD-takes-the-sign-of-its-divisor', [('x', Prim('real')), ('y', Prim('real'))],
    requires=lambda x, y: Not(spec.eq(y, 0)),
    statement=lambda x, y: Ite(y > 0, And(_mod_ref(x, y) >= 0, _mod_ref(x, y) < y), And(_mod_ref(x, y) <= 0, _mod_ref(x, y) > y)),
    doc='x - y*floor(x/y) lies in [0, y) for y > 0 and in (y, 0] for y < 0', timeout_ms=30000))

for _f in ('SQRTPI', 'FACT', 'FACTDOUBLE'):
    UNITS.append(Unit(id=f'C16/math.{_f}/domain', target=f'{MOD_}:{_f}', inputs=[('x', X([-2.5, -1.0, -0.5]))],
                      requires=lambda x: x.value < 0,
                      cases=[Case(f'{_f} of a negative number is an Excel error value', lambda x: True, lambda x, out: spec.is_error(out))]))
