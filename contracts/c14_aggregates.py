"""C14  Aggregates over ranges equal the reference fold of the addressed cells.

SUM, AVERAGE, MIN, MAX, COUNT, COUNTA are interpreted from source (through `validate_args`, `_validate` for
`Tuple[...]` parameters, `flatten`, `Array.flat`) on a 3-cell range whose cells are forked over {number (int / float,
SYMBOLIC value), blank, non-numeric text} plus one scalar argument: the result is the fold of exactly the numeric
(resp. non-empty) values - for ALL values.  SUMPRODUCT: differently shaped ranges give #VALUE! (concrete shapes, incl.
equal cell counts), equal shapes give the sum of the position-wise products (symbolic 2x2).
Unbounded in the values, bounded in the number of cells (3 + 1): longer ranges / every fill pattern / permutations and
splits are the bounded layer's (drivers/c14.py).  Permutation invariance, additivity over splits and MIN <= AVERAGE <= MAX
are properties of the reference folds (sum, count, min, max of a multiset) and follow from these equalities.
"""
import z3

from pyvc.engine import Unit, Case, Fork, Xl, XlBlank, Prim, Const
from pyvc import spec, sym as S, models as M
from pyvc.sym import Sym, is_sym, And, Or, Not, Implies, Ite

UNITS = []
NUMCELL = lambda: Fork([Xl('Number', 'real', domain=[2.5, -1.0, 0.0]), Xl('Number', 'int', domain=[3, 0])])
CELL = lambda: Fork([Xl('Number', 'real', domain=[2.5, -1.0, 0.0]), Xl('Number', 'int', domain=[3, 0]), XlBlank(), Const('TEXT', 'text "abc"')])


def T():
    return spec.T()


def real(x):
    t = T()
    if x == 'TEXT':
        return t.Text('abc')
    return x


def agg_call(fname, native):
    def call(it, fn, a, b, c, s):
        t = T()
        arr = t.Array([[real(a)], [real(b)], [real(c)]])
        if native:
            return fn(arr, s)
        return it.call(fn, [arr, s], {})
    if native:
        return lambda fn, a, b, c, s: call(None, fn, a, b, c, s)
    return call


def nums(items):
    return [x.value for x in items if isinstance(x, T().Number)]


def _min(vs):
    m = vs[0]
    for v in vs[1:]:
        m = S.minimum(v, m) if (is_sym(v) or is_sym(m)) else min(v, m)
    return m


def _max(vs):
    m = vs[0]
    for v in vs[1:]:
        m = S.maximum(v, m) if (is_sym(v) or is_sym(m)) else max(v, m)
    return m


def expect(fname, a, b, c, s):
    items = [real(a), real(b), real(c), s]
    ns = nums(items)
    if fname == 'SUM':
        tot = 0
        for v in ns:
            tot = tot + v
        return tot
    if fname == 'COUNT':
        return len(ns)
    if fname == 'COUNTA':
        return len([x for x in items if not isinstance(x, T().Blank)])
    if fname == 'AVERAGE':
        tot = 0
        for v in ns:
            tot = tot + v
        return tot / len(ns)
    if fname == 'MIN':
        return _min(ns)
    if fname == 'MAX':
        return _max(ns)


for _f, _mod in (('SUM', 'math'), ('AVERAGE', 'statistics'), ('MIN', 'statistics'), ('MAX', 'statistics'), ('COUNT', 'statistics'), ('COUNTA', 'statistics')):
    UNITS.append(Unit(
        id=f'C14/{_mod}.{_f}', target=f'xlcalculator.xlfunctions.{_mod}:{_f}', fork='product',
        inputs=[('a', CELL()), ('b', CELL()), ('c', CELL()), ('s', Xl('Number', 'real', domain=[10.0, -4.5]))],
        cases=[Case(f'{_f} = the reference fold of exactly the numeric (non-empty) values of the range and the scalar', lambda *a: True,
                    (lambda f: lambda a, b, c, s, out: spec.numeric_result(out, expect(f, a, b, c, s), tol=1e-12))(_f))],
        canary=Case('canary', lambda *a: True, (lambda f: lambda a, b, c, s, out: spec.numeric_result(out, expect(f, a, b, c, s) + 1, tol=1e-12))(_f)),
        call=agg_call(_f, False), native_call=agg_call(_f, True), bounded_domain_cap=300, max_paths=300))


# the same with an EMPTY cell addressed on its own (a single-cell argument that holds nothing): it is no number and no value
def _blank_scalar_ens(f):
    def ens(a, b, c, s, out):
        return spec.numeric_result(out, expect(f, a, b, c, s), tol=1e-12)
    return ens


for _f, _mod in (('SUM', 'math'), ('AVERAGE', 'statistics'), ('MIN', 'statistics'), ('MAX', 'statistics'), ('COUNT', 'statistics'), ('COUNTA', 'statistics')):
    UNITS.append(Unit(
        id=f'C14/{_mod}.{_f}/empty_cell_on_its_own', target=f'xlcalculator.xlfunctions.{_mod}:{_f}', fork='product',
        # AVERAGE / MIN / MAX: the first cell holds a number, so that the fold is defined (no number at all: the statement names no result)
        inputs=[('a', NUMCELL() if _f in ('AVERAGE', 'MIN', 'MAX') else CELL()), ('b', CELL()), ('c', CELL()), ('s', XlBlank())],
        cases=[Case(f'{_f}: an empty cell given as an argument of its own counts for nothing - the result is the fold of the numeric (non-empty) values of the range',
                    lambda *a: True, _blank_scalar_ens(_f))],
        call=agg_call(_f, False), native_call=agg_call(_f, True), bounded_domain_cap=300, max_paths=300))


# ---- SUMPRODUCT ---------------------------------------------------------------------------------------------------------------------
def sp_shape_call(native, s1, s2):
    def call(it, fn):
        t = T()

        def arr(shape):
            r, c = shape
            return t.Array([[float(i * c + j + 1) for j in range(c)] for i in range(r)])
        a, b = arr(s1), arr(s2)
        return fn(a, b) if native else it.call(fn, [a, b], {})
    if native:
        return lambda fn: call(None, fn)
    return call


SHAPES = [((1, 3), (3, 1)), ((2, 3), (3, 2)), ((2, 2), (1, 4)), ((2, 3), (2, 2)), ((1, 3), (1, 2)), ((3, 1), (2, 1)), ((2, 2), (4, 1))]
for _s1, _s2 in SHAPES:
    UNITS.append(Unit(
        id=f'C14/math.SUMPRODUCT/shape[{_s1[0]}x{_s1[1]}|{_s2[0]}x{_s2[1]}]', target='xlcalculator.xlfunctions.math:SUMPRODUCT', inputs=[],
        cases=[Case('differently shaped ranges give #VALUE! (also when they hold the same number of cells)', lambda: True,
                    lambda out: spec.is_error(out, 'ValueExcelError'))],
        call=sp_shape_call(False, _s1, _s2), native_call=sp_shape_call(True, _s1, _s2)))


def sp_call(native):
    def call(it, fn, a, b, c, d, e, f, g, h):
        t = T()
        x, y = t.Array([[real(a), real(b)], [real(c), real(d)]]), t.Array([[e, f], [g, h]])
        return fn(x, y) if native else it.call(fn, [x, y], {})
    if native:
        return lambda fn, *v: call(None, fn, *v)
    return call


def sp_expect(a, b, c, d, e, f, g, h):
    tot = 0
    for x, y in ((a, e), (b, f), (c, g), (d, h)):
        x = real(x)
        xv = x.value if isinstance(x, T().Number) else 0
        tot = tot + xv * y.value
    return tot


NUMR = lambda: Xl('Number', 'real', domain=[2.0, -1.5])
UNITS.append(Unit(
    id='C14/math.SUMPRODUCT/products', target='xlcalculator.xlfunctions.math:SUMPRODUCT', fork='star',
    inputs=[('a', CELL()), ('b', CELL()), ('c', CELL()), ('d', CELL()), ('e', NUMR()), ('f', NUMR()), ('g', NUMR()), ('h', NUMR())],
    cases=[Case('SUMPRODUCT = sum of the products of the cells in the same position; text and blanks count as zero', lambda *a: True,
                lambda *a: spec.numeric_result(a[-1], sp_expect(*a[:-1]), tol=1e-12))],
    call=sp_call(False), native_call=sp_call(True), bounded_domain_cap=300))
