"""C12  A persisted model restores to an equivalent model - what contracts on the two real methods decide.

`Model.persist_to_json_file` and `Model.construct_from_json_file` are interpreted from source with the file system and
jsonpickle as opaque, logged collaborators, for ALL file names (a SYMBOLIC string; `os.path.splitext` uninterpreted):

  opener    both ends choose the opener by the SAME predicate of the file name - gzip exactly when the lower-cased
            extension is '.gz' or '.gzip' - and open the SAME path, for writing / reading in binary mode
  payload   what is handed to jsonpickle is a mapping of exactly the four tables 'cells', 'defined_names', 'formulae',
            'ranges' to the model's own tables (the very objects), encoded with keys=True; the bytes written are that
            encoding, written once; the model is not modified by persisting (frame)
  restore   the four tables of the restored model are exactly the decoded mapping's entries under the same four keys,
            decoded with keys=True; `build_code` runs afterwards exactly when requested, and not before the tables are set
  symmetric lemma: write-key set == read-key set == the model's fields (so no table is dropped or crossed over)

With the ASSUMED contract of the dependency, `jsonpickle.decode(jsonpickle.encode(x, keys=True), keys=True)` is structurally
equal to x for the repository's dataclasses, these give the property; that assumption is external code and is what the
bounded layer (drivers/c12.py) exercises for generated models and histories.
"""
import gzip
import os

from pyvc.engine import Unit, Case, Prim
from pyvc.interp import ModelFn, Stub
from pyvc import spec, sym as S, models as M
from pyvc.sym import Sym, is_sym, And, Or, Not, Implies, Ite

UNITS = []
TABLES = ('cells', 'defined_names', 'formulae', 'ranges')

SPLITEXT_EXT = M.uf('splitext_ext', ['str'], 'str', lambda s: os.path.splitext(s)[-1])
SPLITEXT_ROOT = M.uf('splitext_root', ['str'], 'str', lambda s: os.path.splitext(s)[0])


def wants_gzip(fname):
    ext = M.LOWER(SPLITEXT_EXT(fname)) if is_sym(fname) else os.path.splitext(fname)[-1].lower()
    return Or(spec.eq(ext, '.gz'), spec.eq(ext, '.gzip'))


class FakeFile:
    def __init__(self, log, data=b''):
        self.log, self.data = log, data

    def __enter__(self):
        self.log.append(('enter',))
        return self

    def __exit__(self, *a):
        self.log.append(('exit',))
        return False

    def write(self, b):
        self.log.append(('write', b))

    def read(self):
        self.log.append(('read',))
        return self.data


class Encoded:
    def __init__(self, payload, kw):
        self.payload, self.kw = payload, kw

    def encode(self, encoding='utf-8', errors='strict'):
        # what str.encode does: UTF-8 / strict are its defaults, so spelling them out is the same call; anything else is another encoding of
        # the file (non-ASCII text would be written differently or refused) and is kept apart
        import codecs
        if codecs.lookup(encoding).name != 'utf-8' or errors != 'strict':
            return ('BYTES-OF', self, encoding, errors)
        return ('BYTES-OF', self)


def world(native, fname, build_code=None):
    """the model, the collaborators and their log"""
    from xlcalculator import model as Mo
    model = Mo.Model()
    # real cells / formulas / ranges in the tables (code that looks INTO the tables while persisting must find what a model holds), among them
    # an empty cell of the kind build_ranges creates for an empty address inside a range
    from xlcalculator import xltypes
    a1, a3 = xltypes.XLCell('S!A1', 1), xltypes.XLCell('S!A3', '')
    b1 = xltypes.XLCell('S!B1', None)
    b1.formula = xltypes.XLFormula('=SUM(A1:A3)', 'S')
    model.cells, model.formulae = {'S!A1': a1, 'S!A3': a3, 'S!B1': b1}, {'S!B1': b1.formula}
    model.ranges, model.defined_names = {'S!A1:A3': xltypes.XLRange('S!A1:A3', 'S!A1:A3')}, {'d': a1}
    log = []
    decoded = {'cells': {'C': 1}, 'defined_names': {'D': 1}, 'formulae': {'F': 1}, 'ranges': {'R': 1}, 'extra': {}}

    def opener(kind):
        def op(name, mode, *a, **k):
            log.append(('open', kind, name, mode))
            return FakeFile(log, data='JSON-BYTES')
        return op

    def enc(value, **kw):
        log.append(('encode', value, kw))
        return Encoded(value, kw)

    def dec(data, **kw):
        log.append(('decode', data, kw))
        return decoded

    def bc(self_):
        log.append(('build_code', tuple(id(getattr(self_, t)) for t in TABLES)))
    return model, log, decoded, opener, enc, dec, bc


def run(native, which, build_code=False):
    def call(it, fn, fname):
        # a changed tree may open files by other means than the two openers stubbed here (interpreted or native, the call is real):
        # run inside a scratch directory that is removed afterwards
        import tempfile
        import shutil
        cwd, scratch = os.getcwd(), tempfile.mkdtemp(prefix='pyvc_c12_')
        os.chdir(scratch)
        try:
            return call_(it, fn, fname)
        finally:
            os.chdir(cwd)
            shutil.rmtree(scratch, ignore_errors=True)

    def call_(it, fn, fname):
        import builtins
        import jsonpickle
        from xlcalculator import model as Mo
        model, log, decoded, opener, enc, dec, bc = world(native, fname)
        before = {t: id(getattr(model, t)) for t in TABLES}
        if native:
            real = (gzip.GzipFile, jsonpickle.encode, jsonpickle.decode, Mo.Model.build_code)
            g = Mo.__dict__
            try:
                gzip.GzipFile, jsonpickle.encode, jsonpickle.decode, Mo.Model.build_code = opener('gzip'), enc, dec, bc
                g['open'] = opener('plain')
                if which == 'persist':
                    model.persist_to_json_file(fname)
                else:
                    model.construct_from_json_file(fname, build_code=build_code)
            finally:
                gzip.GzipFile, jsonpickle.encode, jsonpickle.decode, Mo.Model.build_code = real
                g.pop('open', None)
            writes = None                           # frames are only observable on the interpreted run
        else:
            it.call_contracts[gzip.GzipFile] = ModelFn(lambda it_, *a, **k: opener('gzip')(*a, **k), 'gzip.GzipFile')
            it.call_contracts[builtins.open] = ModelFn(lambda it_, *a, **k: opener('plain')(*a, **k), 'open')
            it.call_contracts[jsonpickle.encode] = ModelFn(lambda it_, *a, **k: enc(*a, **k), 'jsonpickle.encode')
            it.call_contracts[jsonpickle.decode] = ModelFn(lambda it_, *a, **k: dec(*a, **k), 'jsonpickle.decode')
            it.call_contracts[Mo.Model.build_code] = ModelFn(lambda it_, s: bc(s), 'Model.build_code')
            it.call_contracts[os.path.splitext] = ModelFn(lambda it_, p: (SPLITEXT_ROOT(p), SPLITEXT_EXT(p)) if is_sym(p) else os.path.splitext(p), 'os.path.splitext')
            it.track_attrs = True
            n0 = len(it.path.events)
            if which == 'persist':
                it.call(Mo.Model.persist_to_json_file, [model, fname], {})
            else:
                it.call(Mo.Model.construct_from_json_file, [model, fname], {'build_code': build_code})
            writes = [a for kind, o, a, v in it.path.events[n0:] if kind == 'write' and o is model]
            it.track_attrs = False
        return dict(model=model, log=log, decoded=decoded, before=before, writes=writes)
    if native:
        return lambda fn, fname: call(None, fn, fname)
    return call


def opened(r, fname, mode):
    """the single open event, as (is_gzip, same path, mode)"""
    opens = [e for e in r['log'] if e[0] == 'open']
    if len(opens) != 1:
        return None
    _, kind, name, m = opens[0]
    if m != mode or not (name is fname or (not is_sym(name) and name == fname)):
        return None
    return kind == 'gzip'


def _same_table(a, b):
    return a is b or (isinstance(a, dict) and isinstance(b, dict) and list(a) == list(b) and all(a[k] is b[k] for k in a))


def persist_ens(fname, out):
    if out.kind != 'ret':
        return False
    r = out.value
    gz = opened(r, fname, 'wb')
    if gz is None:
        return False
    model = r['model']
    encs = [e for e in r['log'] if e[0] == 'encode']
    writes = [e for e in r['log'] if e[0] == 'write']
    if len(encs) != 1 or len(writes) != 1:
        return False
    payload, kw = encs[0][1], encs[0][2]
    if kw != {'keys': True} or not isinstance(payload, dict) or set(payload) != set(TABLES):
        return False
    if any(not _same_table(payload[t], getattr(model, t)) for t in TABLES):
        return False                                          # each key holds the model's own table (or a copy with the very same entries) - none crossed over, nothing left out
    w = writes[0][1]
    if not (isinstance(w, tuple) and w[0] == 'BYTES-OF' and w[1].payload is payload):
        return False
    if r['writes'] or any(id(getattr(model, t)) != r['before'][t] for t in TABLES):
        return False                                          # frame: persisting does not modify the model
    order = [e[0] for e in r['log']]
    if order.index('open') > order.index('write') or order[-1] != 'exit':
        return False
    want = wants_gzip(fname)
    return spec.eq(want, gz) if is_sym(want) else (bool(want) == gz)


def construct_ens(build_code):
    def ens(fname, out):
        if out.kind != 'ret':
            return False
        r = out.value
        gz = opened(r, fname, 'rb')
        if gz is None:
            return False
        model, decoded = r['model'], r['decoded']
        decs = [e for e in r['log'] if e[0] == 'decode']
        if len(decs) != 1 or decs[0][1] != 'JSON-BYTES' or decs[0][2].get('keys') is not True:
            return False
        if any(getattr(model, t) is not decoded[t] for t in TABLES):
            return False                                      # every table restored from the entry of the same name
        if r['writes'] is not None and sorted(set(r['writes'])) != sorted(TABLES):
            return False                                      # frame: exactly the four tables are assigned
        bcs = [e for e in r['log'] if e[0] == 'build_code']
        if len(bcs) != (1 if build_code else 0):
            return False
        if bcs and bcs[0][1] != tuple(id(decoded[t]) for t in TABLES):
            return False                                      # compiled only once the restored tables are in place
        want = wants_gzip(fname)
        return spec.eq(want, gz) if is_sym(want) else (bool(want) == gz)
    return ens


def _key(r):
    if not isinstance(r, dict):
        return repr(r)
    return [e[:2] if e[0] == 'open' else e[0] for e in r['log']]


NAMES = ['m.json', 'm.json.gz', 'M.GZ', 'dir.gz/m.json', 'm.gzip', 'm.Gzip', 'm', '.gz', 'a.b/c', 'm.gz.json', 'm.tgz']
UNITS.append(Unit(ghost=True, 
    id='C12/model.Model.persist_to_json_file', target='xlcalculator.model:Model.persist_to_json_file',
    inputs=[('fname', Prim('str', domain=NAMES))],
    cases=[Case('writes once, to the given path, gzip exactly for a .gz/.gzip extension, the keys=True encoding of exactly the four tables; the model is untouched',
                lambda f: True, persist_ens)],
    canary=Case('canary', lambda f: True, lambda f, out: out.kind == 'ret' and opened(out.value, f, 'wb') is True),
    call=run(False, 'persist'), native_call=run(True, 'persist'), cross_key=_key))
for _bc in (False, True):
    UNITS.append(Unit(ghost=True, 
        id=f'C12/model.Model.construct_from_json_file[build_code={_bc}]', target='xlcalculator.model:Model.construct_from_json_file',
        inputs=[('fname', Prim('str', domain=NAMES))],
        cases=[Case('reads the given path with the opener persist chose for it, decodes with keys=True, restores each of the four tables from the entry of the same name, compiles afterwards iff asked',
                    lambda f: True, construct_ens(_bc))],
        call=run(False, 'construct', _bc), native_call=run(True, 'construct', _bc), cross_key=_key))
