"""C07  Excel errors are values that propagate; typed operands never crash.

Generated from the REAL signatures of everything registered in `xl.FUNCTIONS` (a function added tomorrow gets its
obligations without anybody writing them):

  A  first_error   - every registered function x every scalar parameter position: the leftmost Excel error among
                     the arguments is the result (interpreted through the real `validate_args.validate` loop, or
                     the raw function where the wrapper is absent);
  B  item_error    - aggregating functions: an error among the items of the argument list / of a range is the result;
  C  operators     - all class pairs of {Number int/float, Text, Boolean, Blank, DateTime}: a value or one of
                     #VALUE! #DIV/0! #NUM!, never a Python exception;
  D  node         - OperatorNode.eval for the twelve infix operators: every pair of (error | number) operands,
                     the leftmost error is the result;
  E  inspectors    - ISERROR / ISERR / ISNA / NA / ISNUMBER / ISTEXT / ISBLANK truth tables over the class fork.
"""
import inspect
import typing

from pyvc.engine import Unit, Case, Fork, Xl, XlBlank, XlDate, XlErr, Prim, Const, ERROR_CLASSES
from pyvc import spec, sym as S
from pyvc.sym import Sym, is_sym, And, Or, Not, Implies, Ite

INSPECTORS = {'ISERR', 'ISERROR', 'ISNA', 'NA', 'ISNUMBER', 'ISTEXT', 'ISBLANK', 'COUNT', 'COUNTA'}
LAZY = {'IF', 'AND', 'OR', 'NOT'}          # thunk parameters: C10
VOLATILE = {'RAND', 'RANDBETWEEN', 'NOW', 'TODAY'}


def registry():
    import xlcalculator                                     # noqa: F401  (registers the function modules)
    from xlcalculator.xlfunctions import xl, engineering    # noqa: F401
    return dict(xl.FUNCTIONS)


def T():
    return spec.T()


def benign(annotation):
    """a symbolic value of the kind a parameter expects (cannot itself fail the conversion)"""
    t = T()
    if annotation is t.XlText:
        return Xl('Text', 'str')
    if annotation is t.XlBoolean:
        return Xl('Boolean', 'bool')
    if annotation is t.XlDateTime:
        return XlDate()
    if annotation is t.XlArray:
        return Const(t.Array([[1.0, 2.0]]), 'Array[[1,2]]')
    if annotation is t.Number:
        return Xl('Number', 'int', domain=[1, 2])
    return Xl('Number', 'real', domain=[1.0, 2.5])


def qual(fn):
    f = getattr(fn, '__wrapped__', fn)
    return f'{f.__module__}:{f.__name__}'


UNITS = []
_funcs = registry()

# ---- A: first error among the scalar arguments ----------------------------------------------------------------------
for name, fn in sorted(_funcs.items()):
    if name in INSPECTORS or name in LAZY or name in VOLATILE:
        continue
    sig = inspect.signature(fn)
    params = [p for p in sig.parameters.values()
              if p.kind in (p.POSITIONAL_ONLY, p.POSITIONAL_OR_KEYWORD) and not p.name.startswith('_')]
    for i, p in enumerate(params):
        inputs = []
        for j, q in enumerate(params):
            if j < i:
                inputs.append((q.name, benign(q.annotation)))
            elif j == i:
                inputs.append((q.name, Fork([XlErr('NaExcelError'), XlErr('DivZeroExcelError')])))
            else:
                inputs.append((q.name, XlErr('RefExcelError')))
        UNITS.append(Unit(
            id=f'C07/first_error.{name}#{i + 1}:{p.name}', target=qual(fn), inputs=inputs,
            cases=[Case(f'error at position {i + 1} (leftmost) is the result', lambda *a: True,
                        (lambda k: lambda *a: spec.is_same_object(a[-1], a[k]))(i))],
            canary=(Case('canary', lambda *a: True, (lambda k: lambda *a: spec.is_same_object(a[-1], a[k + 1]))(i))
                    if i + 1 < len(params) else None),
            call=(lambda f: lambda it, fn, *vals: it.call(f, list(vals), {}))(fn),
            native_call=(lambda f: lambda fn, *vals: f(*vals))(fn),
            bounded_domain_cap=50))

# ---- B: error among the items of an aggregate ------------------------------------------------------------------------
AGGREGATES = ['SUM', 'AVERAGE', 'MIN', 'MAX', 'CONCAT', 'CONCATENATE', 'SUMPRODUCT']
for name in AGGREGATES:
    fn = _funcs[name]
    num = (lambda: Xl('Text', 'str', domain=['a', 'b'])) if name.startswith('CONCAT') else (lambda: Xl('Number', 'real', domain=[1.0, 2.0]))
    if name == 'SUMPRODUCT':
        continue        # arrays only: see the range variant below
    for pos in range(3):
        inputs = [(f'x{j}', (Fork([XlErr('NaExcelError'), XlErr('ValueExcelError')]) if j == pos else
                             (num() if j < pos else XlErr('RefExcelError')))) for j in range(3)]
        UNITS.append(Unit(
            id=f'C07/item_error.{name}@arg{pos + 1}', target=qual(fn), inputs=inputs,
            cases=[Case('leftmost error among the arguments is the result', lambda *a: True,
                        (lambda k: lambda *a: spec.is_same_object(a[-1], a[k]))(pos))],
            call=(lambda f: lambda it, fn, *vals: it.call(f, list(vals), {}))(fn),
            native_call=(lambda f: lambda fn, *vals: f(*vals))(fn), bounded_domain_cap=20))


def _range_with_error(pos, text=False):
    t = T()
    e = spec.E().NaExcelError('seeded by pyvc (range item)')
    items = [t.Text('a') if text else t.Number(1.0), t.Text('b') if text else t.Number(2.0), t.Text('c') if text else t.Number(3.0)]
    items[pos] = e
    return t.Array([[items[0]], [items[1]], [items[2]]]), e


for name in AGGREGATES:
    fn = _funcs[name]
    for pos in range(3):
        arr, err = _range_with_error(pos, text=name.startswith('CONCAT'))
        if name == 'SUMPRODUCT':
            inputs = [('range', Const(arr, f'column with #N/A at row {pos + 1}')), ('other', Const(T().Array([[1.0], [2.0], [3.0]]), 'column'))]
        else:
            inputs = [('range', Const(arr, f'column with #N/A at row {pos + 1}')), ('scalar', Xl('Text', 'str', domain=['z']) if name.startswith('CONCAT') else Xl('Number', 'real', domain=[4.0]))]
        UNITS.append(Unit(
            id=f'C07/item_error.{name}@range{pos + 1}', target=qual(fn), inputs=inputs,
            cases=[Case('error held by a cell of the range is the result', lambda *a: True,
                        (lambda e: lambda *a: spec.is_same_object(a[-1], e))(err))],
            call=(lambda f: lambda it, fn, *vals: it.call(f, list(vals), {}))(fn),
            native_call=(lambda f: lambda fn, *vals: f(*vals))(fn), bounded_domain_cap=10))

# ---- C: operators on every pair of scalar classes ---------------------------------------------------------------------
SCALARS = [Xl('Number', 'int', domain=[-2, 0, 3]), Xl('Number', 'real', domain=[-0.5, 0.0, 2.5]),
           Xl('Text', 'str', domain=['', 'abc', '3', '-1.5e2', 'true', '2020-01-31']), Xl('Boolean', 'bool'), XlBlank(), XlDate()]
BINOPS = ['OP_ADD', 'OP_SUB', 'OP_MUL', 'OP_DIV', 'POWER', 'CONCAT', 'OP_LT', 'OP_GT', 'OP_LE', 'OP_GE', 'OP_EQ', 'OP_NE']


def _value_or_typed_error(*a):
    out = a[-1]
    return Or(spec.is_value(out), spec.is_error(out, ('ValueExcelError', 'DivZeroExcelError', 'NumExcelError')))


for name in BINOPS:
    fn = _funcs[name]
    UNITS.append(Unit(
        id=f'C07/operator.{name}', target=qual(fn), fork='product',
        inputs=[('left', Fork(SCALARS)), ('right', Fork(SCALARS))],
        cases=[Case('a value or #VALUE!/#DIV/0!/#NUM!, never a Python exception', lambda *a: True, _value_or_typed_error)],
        call=(lambda f: lambda it, fn, *vals: it.call(f, list(vals), {}))(fn),
        native_call=(lambda f: lambda fn, *vals: f(*vals))(fn), bounded_domain_cap=300, max_paths=400))
for name in ('OP_NEG', 'OP_PERCENT'):
    fn = _funcs[name]
    UNITS.append(Unit(
        id=f'C07/operator.{name}', target=qual(fn), inputs=[('x', Fork(SCALARS))],
        cases=[Case('a value or #VALUE!/#DIV/0!/#NUM!, never a Python exception', lambda *a: True, _value_or_typed_error)],
        call=(lambda f: lambda it, fn, *vals: it.call(f, list(vals), {}))(fn),
        native_call=(lambda f: lambda fn, *vals: f(*vals))(fn)))

# ---- D: the AST node behind the infix operators hands on the LEFTMOST error -------------------------------------------
def _node_units():
    from contracts import c01_precedence as P1

    def ens(l, r, out):
        if out.kind != 'ret':
            return False
        res, log = out.value
        o = type('O', (), {'kind': 'ret', 'value': res})()
        E = spec.E().ExcelError
        if isinstance(l, E):
            return spec.is_same_object(o, l)
        if isinstance(r, E):
            return spec.is_same_object(o, r)
        return True
    errs = [XlErr(c) for c in ERROR_CLASSES]
    for sym_ in P1.BIN:
        call, native = P1._eval_call(sym_)
        yield Unit(
            id=f'C07/ast_nodes.OperatorNode.eval[{sym_}]/leftmost_error', target='xlcalculator.ast_nodes:OperatorNode.eval', fork='product',
            inputs=[('l', Fork(errs + [Xl('Number', 'real', domain=[1.0, 0.0])])), ('r', Fork(errs + [Xl('Number', 'real', domain=[2.0, 0.0])]))],
            cases=[Case(f'"{sym_}" through its AST node: an error operand is the result, the LEFT one when both operands are errors',
                        lambda l, r: True, ens)],
            call=call, native_call=native, bounded_domain_cap=70)


UNITS.extend(_node_units())

# ---- E: the error-inspecting family -----------------------------------------------------------------------------------
ANY = SCALARS[:5] + [XlErr(c) for c in ERROR_CLASSES]


def truth(out, b):
    """the call returned TRUE/FALSE (a Boolean object or a native bool) equal to b"""
    if out.kind != 'ret':
        return False
    v = out.value
    if isinstance(v, T().Boolean):
        v = v.value
    if not (isinstance(v, bool) or (is_sym(v) and v.k == 'bool')):
        return False
    return spec.eq(v, b)


def _is(cls_names):
    def f(x):
        e = spec.E()
        return isinstance(x, tuple(getattr(e, c) for c in cls_names))
    return f


TABLE = {
    'ISERROR': lambda x: isinstance(x, spec.E().ExcelError),
    'ISERR': lambda x: isinstance(x, spec.E().ExcelError) and not isinstance(x, spec.E().NaExcelError),
    'ISNA': lambda x: isinstance(x, spec.E().NaExcelError),
}
for name, pred in TABLE.items():
    fn = _funcs[name]
    UNITS.append(Unit(id=f'C07/inspect.{name}', target=qual(fn), inputs=[('x', Fork(ANY))],
                      cases=[Case(f'{name} truth table', lambda x: True, (lambda p: lambda x, out: truth(out, p(x)))(pred))],
                      canary=Case('canary', lambda x: True, (lambda p: lambda x, out: truth(out, not p(x)))(pred))))
TYPED = {
    'ISNUMBER': lambda x: isinstance(x, T().Number),
    'ISTEXT': lambda x: isinstance(x, T().Text),
    'ISBLANK': lambda x: Or(isinstance(x, T().Blank), spec.eq(x.value, '') if isinstance(x, T().Text) else False),
}
for name, pred in TYPED.items():
    fn = _funcs[name]
    UNITS.append(Unit(id=f'C07/inspect.{name}', target=qual(fn), inputs=[('x', Fork(SCALARS[:5]))],
                      cases=[Case(f'{name} reports the type of a non-error value', lambda x: True,
                                  (lambda p: lambda x, out: truth(out, p(x)))(pred))],
                      call=(lambda f: lambda it, fn, *vals: it.call(f, list(vals), {}))(fn),
                      native_call=(lambda f: lambda fn, *vals: f(*vals))(fn)))
UNITS.append(Unit(id='C07/inspect.NA', target=qual(_funcs['NA']), inputs=[],
                  cases=[Case('NA() yields #N/A', lambda: True, lambda out: spec.is_error(out, 'NaExcelError'))],
                  call=(lambda f: lambda it, fn: it.call(f, [], {}))(_funcs['NA']),
                  native_call=(lambda f: lambda fn: f())(_funcs['NA'])))


# ---- F: a formula that reads the same error cell twice gets the error twice (the memo of a formula's context keeps error values too) ----------
def _double_read(native):
    def call(it, fn, err):
        from xlcalculator import evaluator, model as Mo, xltypes
        m = Mo.Model()
        c = xltypes.XLCell('Sheet1!B1', None)
        c.value = err                                           # a cell holding (or having computed) an error value
        m.cells, m.defined_names, m.ranges = {'Sheet1!B1': c}, {}, {}
        ev = evaluator.Evaluator(m, {})
        if native:
            ctx = evaluator.EvaluatorContext(ev, 'Sheet1!A1')
            r = [ctx.eval_cell('Sheet1!B1'), ctx.eval_cell('Sheet1!B1'), ctx.eval_cell('Sheet1!B1')]
        else:
            ctx = it.instantiate(evaluator.EvaluatorContext, [ev, 'Sheet1!A1'], {})
            r = [it.call(evaluator.EvaluatorContext.eval_cell, [ctx, 'Sheet1!B1'], {}) for _ in range(3)]
        return r
    if native:
        return lambda fn, err: call(None, fn, err)
    return call


UNITS.append(Unit(
    id='C07/evaluator.EvaluatorContext.eval_cell/error_cell_read_again', target='xlcalculator.evaluator:EvaluatorContext.eval_cell',
    inputs=[('err', Fork([XlErr(c) for c in ERROR_CLASSES]))],
    cases=[Case('a formula that mentions an error cell several times is handed that error every time (no Python exception, no cycle report)', lambda err: True,
                lambda err, out: out.kind == 'ret' and len(out.value) == 3 and all(v is err for v in out.value))],
    call=_double_read(False), native_call=_double_read(True)))
