"""C15  Criteria counting and lookups agree with a linear scan of the range.

  CHOOSE   - real source, SYMBOLIC index (int / float) over 3 opaque values: v_i for an index inside 1..n, #VALUE! outside
  MATCH    - real source over a 3-cell column of SYMBOLIC numbers: exact match = first position with equality, #N/A if
             none; approximate match on ascending data = last position whose value does not exceed the lookup value
  VLOOKUP  - real source over a 3x3 table with SYMBOLIC numeric keys: requested column of the FIRST row whose key equals
             the lookup value, #N/A if none, an error value for a column outside the table
  criteria - `xlcriteria.parse_criteria` for each operator prefix with a numeric and a text operand (concrete criterion
             text, the regular expression runs natively) applied to a SYMBOLIC cell of every class: the check holds iff
             the statement's criterion holds (ordering criteria only for cells of the operand's own type); COUNTIF over a
             3-cell column = the number of cells for which it holds.
Bounded in the number of cells (3); unbounded in the values.
"""
import ast as pyast
import z3

from pyvc.engine import Unit, Case, Fork, Xl, XlBlank, Prim, Const
from pyvc.interp import Stub
from pyvc import spec, sym as S, models as M
from pyvc.sym import Sym, is_sym, And, Or, Not, Implies, Ite

UNITS = []
LK = 'xlcalculator.xlfunctions.lookup'


def T():
    return spec.T()


# ---- CHOOSE -------------------------------------------------------------------------------------------------------------------------
def choose_call(native):
    def call(it, fn, idx):
        vals = [T().Text('first'), T().Text('second'), T().Text('third')]
        res = fn(idx, *vals) if native else it.call(fn, [idx] + vals, {})
        for k, v in enumerate(vals):
            if res is v:
                return k + 1
        return res
    if native:
        return lambda fn, idx: call(None, fn, idx)
    return call


def choose_ens(idx, out):
    if out.kind != 'ret':
        return False
    i = idx.value
    r = out.value
    inside = And(i >= 1, i <= 3)
    if isinstance(r, int):
        return And(inside, spec.eq(spec.trunc(i), r))
    return And(Not(inside), isinstance(r, spec.E().ValueExcelError))


UNITS.append(Unit(
    id='C15/lookup.CHOOSE', target=f'{LK}:CHOOSE',
    inputs=[('index', Fork([Xl('Number', 'int', domain=[-1, 0, 1, 2, 3, 4]), Xl('Number', 'real', domain=[0.5, 0.99, 1.0, 1.5, 2.9, 3.0, 3.5])]))],
    cases=[Case('CHOOSE(i, v1..v3) = v_i for i inside 1..3 (a fractional index is truncated), #VALUE! outside', lambda i: True, choose_ens)],
    canary=Case('canary', lambda i: True, lambda i, out: out.kind == 'ret' and out.value == 1),
    call=choose_call(False), native_call=choose_call(True)))


# an Excel error among the alternatives: it is the result only when it is the SELECTED alternative
def choose_err_call(native, pos):
    def call(it, fn, idx):
        vals = [T().Text('first'), T().Text('second'), T().Text('third')]
        vals[pos] = spec.E().DivZeroExcelError('seeded by pyvc (alternative)')
        res = fn(idx, *vals) if native else it.call(fn, [idx] + vals, {})
        for k, v in enumerate(vals):
            if res is v:
                return k + 1
        return res
    if native:
        return lambda fn, idx: call(None, fn, idx)
    return call


for _pos in range(3):
    UNITS.append(Unit(
        id=f'C15/lookup.CHOOSE/error_alternative@{_pos + 1}', target=f'{LK}:CHOOSE',
        inputs=[('index', Fork([Xl('Number', 'int', domain=[-1, 0, 1, 2, 3, 4]), Xl('Number', 'real', domain=[0.5, 1.0, 1.5, 2.9, 3.0, 3.5])]))],
        cases=[Case(f'an error as alternative {_pos + 1} is the result exactly when the index selects it: CHOOSE(i, ...) = v_i inside 1..3, #VALUE! outside',
                    lambda i: True, choose_ens)],
        call=choose_err_call(False, _pos), native_call=choose_err_call(True, _pos)))


# ---- MATCH --------------------------------------------------------------------------------------------------------------------------
def match_call(native, mtype):
    def call(it, fn, key, a, b, c):
        arr = T().Array([[a], [b], [c]])
        return fn(key, arr, mtype) if native else it.call(fn, [key, arr, mtype], {})
    if native:
        return lambda fn, *v: call(None, fn, *v)
    return call


def match_exact(key, a, b, c, out):
    k, vs = key.value, [a.value, b.value, c.value]
    hit = [spec.eq(v, k) for v in vs]
    first = Ite(hit[0], 1, Ite(hit[1], 2, Ite(hit[2], 3, 0))) if any(is_sym(h) for h in hit) else \
        (1 if hit[0] else 2 if hit[1] else 3 if hit[2] else 0)
    none = spec.eq(first, 0)
    return Ite(none, spec.is_error(out, 'NaExcelError'), spec.numeric_result(out, first)) if is_sym(none) else \
        (spec.is_error(out, 'NaExcelError') if none else spec.numeric_result(out, first))


def match_approx(key, a, b, c, out):
    k, vs = key.value, [a.value, b.value, c.value]
    le = [v <= k for v in vs]
    last = Ite(le[2], 3, Ite(le[1], 2, Ite(le[0], 1, 0))) if any(is_sym(x) for x in le) else (3 if le[2] else 2 if le[1] else 1 if le[0] else 0)
    none = spec.eq(last, 0)
    return Ite(none, spec.is_error(out, 'NaExcelError'), spec.numeric_result(out, last)) if is_sym(none) else \
        (spec.is_error(out, 'NaExcelError') if none else spec.numeric_result(out, last))


NUMS = lambda: Fork([Xl('Number', 'int', domain=[1, 3, 5, 7, 9]), Xl('Number', 'real', domain=[2.5, 5.0])])
UNITS.append(Unit(
    id='C15/lookup.MATCH/exact', target=f'{LK}:MATCH', fork='star',
    inputs=[('key', NUMS()), ('a', NUMS()), ('b', NUMS()), ('c', NUMS())],
    cases=[Case('exact MATCH = the first position whose value equals the lookup value, #N/A when there is none', lambda *a: True, match_exact)],
    call=match_call(False, 0), native_call=match_call(True, 0), bounded_domain_cap=700))
UNITS.append(Unit(
    id='C15/lookup.MATCH/approximate', target=f'{LK}:MATCH', fork='star',
    inputs=[('key', NUMS()), ('a', NUMS()), ('b', NUMS()), ('c', NUMS())],
    requires=lambda k, a, b, c: And(a.value <= b.value, b.value <= c.value),
    cases=[Case('approximate MATCH on ascending data (equal neighbours allowed) = the last position whose value does not exceed the lookup value', lambda *a: True, match_approx)],
    call=match_call(False, 1), native_call=match_call(True, 1), bounded_domain_cap=700))


# ---- VLOOKUP ------------------------------------------------------------------------------------------------------------------------
def vl_call(native, col):
    def call(it, fn, key, k1, k2, k3):
        t = T()
        rows = [[k1, t.Text('r1c2'), t.Text('r1c3')], [k2, t.Text('r2c2'), t.Text('r2c3')], [k3, t.Text('r3c2'), t.Text('r3c3')]]
        arr = t.Array(rows)
        res = fn(key, arr, col, False) if native else it.call(fn, [key, arr, col, False], {})
        for i, r in enumerate(rows):
            for j, v in enumerate(r):
                if res is v:
                    return (i + 1, j + 1)
        return res
    if native:
        return lambda fn, *v: call(None, fn, *v)
    return call


def vl_ens(col):
    def ens(key, k1, k2, k3, out):
        if out.kind != 'ret':
            return False
        r = out.value
        if col < 1 or col > 3:
            return isinstance(r, spec.E().ExcelError)
        hit = [spec.eq(k.value, key.value) for k in (k1, k2, k3)]
        cond_none = Not(Or(*hit))
        if isinstance(r, tuple):
            row = r[0]
            firsts = {1: hit[0], 2: And(Not(hit[0]), hit[1]), 3: And(Not(hit[0]), Not(hit[1]), hit[2])}
            return And(firsts[row], r[1] == col)
        return And(cond_none, isinstance(r, spec.E().NaExcelError))
    return ens


KEYS = lambda: Xl('Number', 'int', domain=[1, 2, 3])
for _col in (0, 1, 2, 3, 4):
    UNITS.append(Unit(
        id=f'C15/lookup.VLOOKUP[col={_col}]', target=f'{LK}:VLOOKUP',
        inputs=[('key', KEYS()), ('k1', KEYS()), ('k2', KEYS()), ('k3', KEYS())],
        cases=[Case('VLOOKUP = the requested column of the FIRST row whose key equals the lookup value; #N/A if none; an error for a column outside the table',
                    lambda *a: True, vl_ens(_col))],
        call=vl_call(False, _col), native_call=vl_call(True, _col), bounded_domain_cap=100))


# ---- criteria -------------------------------------------------------------------------------------------------------------------------
CELLS = Fork([Xl('Number', 'int', domain=[-3, 0, 5, 7]), Xl('Number', 'real', domain=[-2.5, 5.0]), Xl('Text', 'str', domain=['apple', 'B', 'b', '']),
              Xl('Boolean', 'bool')])
CRITERIA = [('', 5), ('=', 5), ('<>', 5), ('<', 5), ('<=', 5), ('>', 5), ('>=', 5), ('>', -3), ('<', -2.5), ('<>', -3),
            ('', 'b'), ('=', 'b'), ('<>', 'b'), ('<', 'b'), ('>=', 'B'), ('>', 'apple')]


def crit_holds(cell, prefix, operand):
    """the statement's criterion on a cell (reference semantics)"""
    t = T()
    is_num = isinstance(cell, t.Number)
    is_txt = isinstance(cell, t.Text)
    op_num = not isinstance(operand, str)
    same_kind = (is_num and op_num) or (is_txt and not op_num)
    if prefix in ('', '=', '<>'):
        if not same_kind:
            eq = False
        elif op_num:
            eq = spec.eq(cell.value, operand)
        else:
            eq = spec.eq(M.UPPER(cell.value), operand.upper())
        return eq if prefix != '<>' else Not(eq)
    if not same_kind:
        return False
    x, y = (cell.value, operand) if op_num else (M.UPPER(cell.value), operand.upper())
    cmpop = {'<': pyast.Lt, '<=': pyast.LtE, '>': pyast.Gt, '>=': pyast.GtE}[prefix]
    if is_sym(x):
        return S.cmp(cmpop, x, y)
    return {'<': x < y, '<=': x <= y, '>': x > y, '>=': x >= y}[prefix]


def crit_call(native, prefix, operand):
    text = f'{prefix}{operand}'

    def call(it, fn, cell):
        from xlcalculator.xlfunctions import xlcriteria
        crit = text if prefix or isinstance(operand, str) else operand
        if native:
            return xlcriteria.parse_criteria(crit)(cell)
        check = it.call(xlcriteria.parse_criteria, [crit], {})
        return it.call(check, [cell], {})
    if native:
        return lambda fn, cell: call(None, fn, cell)
    return call


def truthy(out, b):
    if out.kind != 'ret':
        return False
    v = out.value
    if isinstance(v, T().Boolean):
        v = v.value
    if not (isinstance(v, bool) or (is_sym(v) and v.k == 'bool')):
        return False
    return spec.eq(v, b)


for _p, _o in CRITERIA:
    UNITS.append(Unit(
        id=f'C15/xlcriteria.parse_criteria["{_p}{_o}"]', target='xlcalculator.xlfunctions.xlcriteria:parse_criteria',
        inputs=[('cell', CELLS)],
        cases=[Case('the criterion check holds exactly for the cells the statement says it matches', lambda c: True,
                    (lambda p, o: lambda c, out: truthy(out, crit_holds(c, p, o)))(_p, _o))],
        call=crit_call(False, _p, _o), native_call=crit_call(True, _p, _o)))


def countif_call(native, text):
    def call(it, fn, a, b, c):
        arr = T().Array([[a], [b], [c]])
        return fn(arr, text) if native else it.call(fn, [arr, text], {})
    if native:
        return lambda fn, *v: call(None, fn, *v)
    return call


def _count(flags):
    tot = 0
    for f in flags:
        tot = tot + (Ite(f, 1, 0) if is_sym(f) else int(bool(f)))
    return tot


for _p, _o in (('>', 0), ('<>', 5), ('', 'b'), ('<=', -2.5)):
    UNITS.append(Unit(
        id=f'C15/statistics.COUNTIF["{_p}{_o}"]', target='xlcalculator.xlfunctions.statistics:COUNTIF', fork='star',
        inputs=[('a', CELLS), ('b', CELLS), ('c', CELLS)],
        cases=[Case('COUNTIF = the number of cells of the column for which the criterion holds', lambda *a: True,
                    (lambda p, o: lambda a, b, c, out: spec.numeric_result(out, _count([crit_holds(x, p, o) for x in (a, b, c)])))(_p, _o))],
        call=countif_call(False, f'{_p}{_o}'), native_call=countif_call(True, f'{_p}{_o}'), bounded_domain_cap=500))


# ---- COUNTIFS: several criteria are combined conjunctively, position by position ----------------------------------------------------------------
def countifs_call(native, crits, nrows):
    def call(it, fn, *cells):
        t = T()
        n = len(crits)
        cols = [t.Array([[cells[r * n + k]] for r in range(nrows)]) for k in range(n)]
        args = []
        for k in range(n):
            args += [cols[k], crits[k]]
        return fn(*args) if native else it.call(fn, args, {})
    if native:
        return lambda fn, *v: call(None, fn, *v)
    return call


def countifs_ens(crits, nrows):
    parsed = []
    for c_ in crits:
        for pfx in ('<>', '<=', '>=', '<', '>', '='):
            if c_.startswith(pfx):
                parsed.append((pfx, int(c_[len(pfx):])))
                break
        else:
            parsed.append(('', int(c_)))

    def ens(*a):
        out, cells = a[-1], a[:-1]
        n = len(crits)
        rows = []
        for r in range(nrows):
            rows.append(And(*[crit_holds(cells[r * n + k], parsed[k][0], parsed[k][1]) for k in range(n)]))
        return spec.numeric_result(out, _count(rows))
    return ens


INTCELL = lambda: Xl('Number', 'int', domain=[-1, 0, 1, 5])
for _crits, _rows in ((('>0', '<5'), 3), (('>0', '<5', '<>1'), 2), (('>=1', '0', '>-1', '<=5'), 2)):
    UNITS.append(Unit(
        id=f'C15/statistics.COUNTIFS[{",".join(_crits)};{_rows} rows]', target='xlcalculator.xlfunctions.statistics:COUNTIFS',
        inputs=[(f'r{r}c{k}', INTCELL()) for r in range(_rows) for k in range(len(_crits))],
        cases=[Case('COUNTIFS = the number of ROWS in which every column\'s cell satisfies that column\'s criterion (position by position)',
                    lambda *a: True, countifs_ens(_crits, _rows))],
        call=countifs_call(False, _crits, _rows), native_call=countifs_call(True, _crits, _rows), bounded_domain_cap=300, max_paths=6000))
