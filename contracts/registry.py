"""Which contract modules (proof layer) and driver modules (bounded layer) decide which property."""

COMMON_ASSUMPTIONS = [
    'A-float: Python float arithmetic is treated as arithmetic over the reals (no rounding, no NaN/inf) in every proof obligation',
    'A-int: Python int is the unbounded mathematical integer (exact)',
    'A-str: strings are sequences of code points; characters above the solver alphabet are excluded',
    'A-interp: the pyvc interpreter implements the stated Python subset faithfully (guarded on every run by the CPython cross-check of each unit on concrete inputs and by the canaries)',
    'A-solver: z3 5.1.0 / cvc5 1.0.3 answers `unsat` only for unsatisfiable queries',
    'A-import: the modules imported from /repo and the source files parsed for their AST are the same working tree',
]

PROPS = {
    'C17': dict(
        unit_modules=['contracts.c17_text'], driver_modules=['drivers.c17'], level='proof',
        level_text='LEN, LEFT, RIGHT, MID, FIND, REPLACE, UPPER, LOWER, TRIM, EXACT, CONCAT, CONCATENATE are verified from their real source through the real validate_args wrapper for ALL texts, positions and counts (unbounded) per argument class, against the 1-based clipped reference operations of the statement; the four algebraic identities are proved as lemmas over those contracts. FIND\'s minimality ("first" position) and argument lists longer than 3 are bounded only and are not counted.',
        level_note='Trusted: str.upper/lower/strip, str(int), str(float) as uninterpreted functions with natively tested intrinsic axioms; Python slicing, str.index, concatenation are encoded exactly; pyvc interpreter (CPython cross-check + canaries each run); z3/cvc5. Floats as reals.',
        trusted_base=['intrinsic axioms of the uninterpreted builtins (pyvc/models.py UF_AXIOMS), natively tested on every run'],
        assumptions=COMMON_ASSUMPTIONS,
        explanation='C17: proof obligations on the twelve text functions + 4 lemmas; FIND minimality and formula-level use are bounded.',
    ),
    'C19': dict(
        unit_modules=['contracts.c19_engineering'],
        driver_modules=['drivers.c19'],
        level='proof',
        level_text='Every one of the twelve conversion wrappers is verified from its real source for ALL integers, digit strings and places values per argument class (330 obligations, unbounded): decoded value, window test, two\'s-complement wrap, upper-casing, zero padding, every error case. The complete binary window is in addition enumerated natively (bounded layer).',
        level_note='Trusted: Python digit formatting/parsing (bin/oct/hex, int(s,b), str(int), str.upper) as uninterpreted functions under the intrinsic axioms listed in the evidence (each tested natively on every run); pyvc interpreter (cross-checked against CPython on every unit, canaries on every unit); z3/cvc5.',
        trusted_base=['intrinsic axioms of the uninterpreted builtins (pyvc/models.py UF_AXIOMS), natively tested on every run', 'str.zfill and set(s) - DIGITS encoded exactly'],
        assumptions=COMMON_ASSUMPTIONS,
        explanation='C19: every conversion wrapper is interpreted from source through validate_args, convert_bases, handle_places, handle_number, conversion, pad_zeroes for ALL integers / digit strings / places values (unbounded) per argument class.',
    ),
}

PROPS['C09'] = dict(
    unit_modules=['contracts.c09_order'], driver_modules=['drivers.c09'], level='proof',
    level_text='The real OP_LT/OP_GT/OP_LE/OP_GE/OP_EQ/OP_NE, ExcelType rich comparisons, every _sort_key override and tuple comparison are interpreted from source for ALL values of every ordered class pair (and triple) of Number[int], Number[float], Text, Boolean, DateTime: each operator equals the statement\'s order on (type rank, value) keys, and trichotomy, <=, >=, <>, converse and transitivity are proved directly on the real code; the four blank clauses in both operand orders. 810 obligations, unbounded in the values.',
    level_note='Trusted: str.upper as an uninterpreted function (the laws hold for any such function; axioms natively tested); datetime arithmetic on whole days modelled exactly (ordinals), dates restricted to whole days 1900-01-01..9999-12-31; floats as reals; pyvc interpreter (CPython cross-check + canary per unit); z3. Known finding KF-C09-1 (OP_EQ/OP_NE on two native Python operands, pinned by an existing test) lies outside the proved domain (Excel value objects / formulas).',
    trusted_base=['intrinsic axioms of the uninterpreted builtins (pyvc/models.py UF_AXIOMS), natively tested on every run', 'pyvc/models_datetime.py: exact ordinal arithmetic of datetime/timedelta on whole days'],
    assumptions=COMMON_ASSUMPTIONS, job_limit_s=120,
    explanation='C09: per-operator contracts + the order laws proved on the real code per class pair/triple; bounded layer runs the same laws over a 24-value pool through formulas and native library calls.',
)

PROPS['C07'] = dict(
    unit_modules=['contracts.c07_errors'], driver_modules=['drivers.c07'], level='other',
    level_text='Generated from the real signatures: for every registered function x every scalar parameter position the real validate_args loop (or the raw function) is interpreted with an error value at that position, symbolic values before it and a different error after it - the leftmost error is returned (all values, unbounded); aggregates: error among 3 arguments / in a 3-cell range; all 12 binary operators, unary minus and percent over every pair of {Number int/float, Text, Boolean, Blank, DateTime} with symbolic values: a value or #VALUE!/#DIV/0!/#NUM!, never a Python exception; truth tables of the IS* family over the class fork. Claimed as "other": argument lists and ranges are covered for lengths up to 3 only (bounded in length), cell storage/hand-on of errors and the 7 codes through formulas are decided by the bounded layer.',
    level_note='Trusted: int()/float() of text, str.lower, dateutil.parser.parse (returns a datetime or raises ValueError/OverflowError), numpy_financial.pmt/pv, numpy ufuncs as uninterpreted functions; floats as reals (overflow to inf/OverflowError is invisible to the proof and is left to the bounded layer); pandas DataFrame construction of the concrete 3-cell ranges runs natively; pyvc interpreter (CPython cross-check + canaries). Known findings: SUMPRODUCT returns #N/A for any error in its ranges (pinned by an existing test).',
    trusted_base=['intrinsic axioms of the uninterpreted builtins (pyvc/models.py UF_AXIOMS), natively tested on every run', 'assumed contract: dateutil.parser.parse', 'assumed contract: numpy_financial.pmt / pv are total on floats'],
    assumptions=COMMON_ASSUMPTIONS, job_limit_s=120,
    explanation='C07: error propagation and no-crash obligations generated from the real signature table.',
)

PROPS['C01'] = dict(
    unit_modules=['contracts.c01_precedence'], driver_modules=['drivers.c01'], level='other',
    level_text='tbd', level_note='tbd', assumptions=COMMON_ASSUMPTIONS,
)

PROPS['C02'] = dict(
    unit_modules=['contracts.c02_tokenizer'], driver_modules=['drivers.c02'], level='other',
    level_text='tbd', level_note='tbd', assumptions=COMMON_ASSUMPTIONS,
)

PROPS['C03'] = dict(
    unit_modules=['contracts.c03_references'], driver_modules=['drivers.c03'], level='other',
    level_text='tbd', level_note='tbd', assumptions=COMMON_ASSUMPTIONS,
)

PROPS['C04'] = dict(
    unit_modules=['contracts.c04_evaluate'], driver_modules=['drivers.c04'], level='other',
    level_text='tbd', level_note='tbd', assumptions=COMMON_ASSUMPTIONS,
)
PROPS['C05'] = dict(
    unit_modules=['contracts.c04_evaluate'], driver_modules=['drivers.c04'], level='other',
    level_text='tbd', level_note='tbd', assumptions=COMMON_ASSUMPTIONS,
)

PROPS['C06'] = dict(
    unit_modules=['contracts.c04_evaluate'], driver_modules=['drivers.c06'], level='other',
    level_text='tbd', level_note='tbd', assumptions=COMMON_ASSUMPTIONS, driver_budget_s=200,
)

PROPS['C10'] = dict(
    unit_modules=['contracts.c10_logical'], driver_modules=['drivers.c10'], level='other',
    level_text='tbd', level_note='tbd', assumptions=COMMON_ASSUMPTIONS,
)

PROPS['C14'] = dict(
    unit_modules=['contracts.c14_aggregates'], driver_modules=['drivers.c14'], level='other',
    level_text='tbd', level_note='tbd', assumptions=COMMON_ASSUMPTIONS,
)
PROPS['C15'] = dict(
    unit_modules=['contracts.c15_lookup'], driver_modules=['drivers.c15'], level='other',
    level_text='tbd', level_note='tbd', assumptions=COMMON_ASSUMPTIONS,
)

PROPS['C16'] = dict(
    unit_modules=['contracts.c16_math'], driver_modules=['drivers.c16'], level='other',
    level_text='tbd', level_note='tbd', assumptions=COMMON_ASSUMPTIONS,
)

PROPS['C18'] = dict(
    unit_modules=['contracts.c18_dates'], driver_modules=['drivers.c18'], level='other',
    level_text='tbd', level_note='tbd', assumptions=COMMON_ASSUMPTIONS, driver_budget_s=150,
)

PROPS['C20'] = dict(
    unit_modules=['contracts.c20_financial'], driver_modules=['drivers.c20'], level='other',
    level_text='tbd', level_note='tbd', assumptions=COMMON_ASSUMPTIONS,
)

PROPS['C08'] = dict(
    unit_modules=['contracts.c08_coercion'], driver_modules=['drivers.c08'], level='other',
    level_text='tbd', level_note='tbd', assumptions=COMMON_ASSUMPTIONS,
)

PROPS['C13'] = dict(
    unit_modules=['contracts.c13_extract', 'contracts.c04_evaluate'], driver_modules=['drivers.c13'], level='other',
    level_text='tbd', level_note='tbd', assumptions=COMMON_ASSUMPTIONS,
)

PROPS['C12'] = dict(
    unit_modules=['contracts.c12_persist'], driver_modules=['drivers.c12'], level='other',
    level_text='tbd', level_note='tbd', assumptions=COMMON_ASSUMPTIONS,
)

PROPS['C11'] = dict(
    unit_modules=['contracts.c11_reader'], driver_modules=['drivers.c11'], level='other',
    level_text='tbd', level_note='tbd', assumptions=COMMON_ASSUMPTIONS,
)
