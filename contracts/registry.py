"""Which contract modules (proof layer) and driver modules (bounded layer) decide which property."""

COMMON_ASSUMPTIONS = [
    'A-float: Python float arithmetic is treated as arithmetic over the reals (no rounding, no NaN/inf) in every proof obligation',
    'A-int: Python int is the unbounded mathematical integer (exact)',
    'A-str: strings are sequences of code points; characters above the solver alphabet are excluded',
    'A-interp: the pyvc interpreter implements the stated Python subset faithfully (guarded on every run by the CPython cross-check of each unit on concrete inputs and by the canaries)',
    'A-solver: z3 5.1.0 / cvc5 1.0.3 answers `unsat` only for unsatisfiable queries',
    'A-import: the modules imported from /repo and the source files parsed for their AST are the same working tree',
]

PROPS = {
    'C17': dict(
        unit_modules=['contracts.c17_text'], driver_modules=['drivers.c17'], level='proof',
        level_text='LEN, LEFT, RIGHT, MID, FIND, REPLACE, UPPER, LOWER, TRIM, EXACT, CONCAT, CONCATENATE are verified from their real source through the real validate_args wrapper for ALL texts, positions and counts (unbounded) per argument class, against the 1-based clipped reference operations of the statement; the four algebraic identities are proved as lemmas over those contracts. FIND\'s minimality ("first" position) and argument lists longer than 3 are bounded only and are not counted.',
        level_note='Trusted: str.upper/lower/strip, str(int), str(float) as uninterpreted functions with natively tested intrinsic axioms; Python slicing, str.index, concatenation are encoded exactly; pyvc interpreter (CPython cross-check + canaries each run); z3/cvc5. Floats as reals.',
        trusted_base=['intrinsic axioms of the uninterpreted builtins (pyvc/models.py UF_AXIOMS), natively tested on every run'],
        assumptions=COMMON_ASSUMPTIONS,
        explanation='C17: proof obligations on the twelve text functions + 4 lemmas; FIND minimality and formula-level use are bounded.',
    ),
    'C19': dict(
        unit_modules=['contracts.c19_engineering'],
        driver_modules=['drivers.c19'],
        level='proof',
        level_text='Every one of the twelve conversion wrappers is verified from its real source for ALL integers, digit strings and places values per argument class (330 obligations, unbounded): decoded value, window test, two\'s-complement wrap, upper-casing, zero padding, every error case. The complete binary window is in addition enumerated natively (bounded layer).',
        level_note='Trusted: Python digit formatting/parsing (bin/oct/hex, int(s,b), str(int), str.upper) as uninterpreted functions under the intrinsic axioms listed in the evidence (each tested natively on every run); pyvc interpreter (cross-checked against CPython on every unit, canaries on every unit); z3/cvc5.',
        trusted_base=['intrinsic axioms of the uninterpreted builtins (pyvc/models.py UF_AXIOMS), natively tested on every run', 'str.zfill and set(s) - DIGITS encoded exactly'],
        assumptions=COMMON_ASSUMPTIONS,
        explanation='C19: every conversion wrapper is interpreted from source through validate_args, convert_bases, handle_places, handle_number, conversion, pad_zeroes for ALL integers / digit strings / places values (unbounded) per argument class.',
    ),
}

PROPS['C09'] = dict(
    unit_modules=['contracts.c09_order'], driver_modules=['drivers.c09'], level='proof',
    level_text='The real OP_LT/OP_GT/OP_LE/OP_GE/OP_EQ/OP_NE, ExcelType rich comparisons, every _sort_key override and tuple comparison are interpreted from source for ALL values of every ordered class pair (and triple) of Number[int], Number[float], Text, Boolean, DateTime: each operator equals the statement\'s order on (type rank, value) keys, and trichotomy, <=, >=, <>, converse and transitivity are proved directly on the real code; the four blank clauses in both operand orders. 810 obligations, unbounded in the values.',
    level_note='Trusted: str.upper as an uninterpreted function (the laws hold for any such function; axioms natively tested); datetime arithmetic on whole days modelled exactly (ordinals), dates restricted to whole days 1900-01-01..9999-12-31; floats as reals; pyvc interpreter (CPython cross-check + canary per unit); z3. Known finding KF-C09-1 (OP_EQ/OP_NE on two native Python operands, pinned by an existing test) lies outside the proved domain (Excel value objects / formulas).',
    trusted_base=['intrinsic axioms of the uninterpreted builtins (pyvc/models.py UF_AXIOMS), natively tested on every run', 'pyvc/models_datetime.py: exact ordinal arithmetic of datetime/timedelta on whole days'],
    assumptions=COMMON_ASSUMPTIONS, job_limit_s=120,
    explanation='C09: per-operator contracts + the order laws proved on the real code per class pair/triple; bounded layer runs the same laws over a 24-value pool through formulas and native library calls.',
)

PROPS['C07'] = dict(
    unit_modules=['contracts.c07_errors'], driver_modules=['drivers.c07'], level='other',
    level_text='Generated from the real signatures: for every registered function x every scalar parameter position the real validate_args loop (or the raw function) is interpreted with an error value at that position, symbolic values before it and a different error after it - the leftmost error is returned (all values, unbounded); aggregates: error among 3 arguments / in a 3-cell range; all 12 binary operators, unary minus and percent over every pair of {Number int/float, Text, Boolean, Blank, DateTime} with symbolic values: a value or #VALUE!/#DIV/0!/#NUM!, never a Python exception; truth tables of the IS* family over the class fork. Claimed as "other": argument lists and ranges are covered for lengths up to 3 only (bounded in length), cell storage/hand-on of errors and the 7 codes through formulas are decided by the bounded layer.',
    level_note='Trusted: int()/float() of text, str.lower, dateutil.parser.parse (returns a datetime or raises ValueError/OverflowError), numpy_financial.pmt/pv, numpy ufuncs as uninterpreted functions; floats as reals (overflow to inf/OverflowError is invisible to the proof and is left to the bounded layer); pandas DataFrame construction of the concrete 3-cell ranges runs natively; pyvc interpreter (CPython cross-check + canaries). Known findings: SUMPRODUCT returns #N/A for any error in its ranges (pinned by an existing test).',
    trusted_base=['intrinsic axioms of the uninterpreted builtins (pyvc/models.py UF_AXIOMS), natively tested on every run', 'assumed contract: dateutil.parser.parse', 'assumed contract: numpy_financial.pmt / pv are total on floats'],
    assumptions=COMMON_ASSUMPTIONS, job_limit_s=120,
    explanation='C07: error propagation and no-crash obligations generated from the real signature table.',
)

PROPS['C01'] = dict(
    unit_modules=['contracts.c01_precedence'], driver_modules=['drivers.c01'], level='other',
    level_text="Premises of the operator-precedence theorem, each a discharged obligation on the REAL code: the pop rule of the real shunting-yard loop for every ordered pair of the 13 operator tokens (finite, complete); build_ast wiring of infix / prefix / function nodes over opaque operands; OperatorNode.eval for every operator over SYMBOLIC numbers (value, operand order, x/0), and its compositionality (1-3 stacked prefix minuses over every infix node apply to the VALUE of the sub-tree); the tokenizer's prefix/infix decision for a symbolic kind of the preceding token. The conclusion - tree and value equality for every formula - is bounded: all operator pairs and triples in every bracketing, 1500 (quick) / 15000 (thorough) seeded deeper expressions, against an independent precedence-climbing reference and exact rational arithmetic. Claimed 'other': the induction that composes the premises into the statement for formulas of any length is argued in DESIGN.md, not machine-checked.",
    level_note='Trusted: pow() as an uninterpreted function with natively tested axioms; floats as reals (rounding invisible to the proof - the bounded layer compares against float and rational references); the tokenizer loop is entered by slicing one `while` of the real function (anchored by its guard text; if the loop is rewritten the unit goes undecided); pyvc interpreter (CPython cross-check + canaries); z3/cvc5.',
    trusted_base=['intrinsic axioms of the uninterpreted builtins (pyvc/models.py UF_AXIOMS), natively tested on every run', 'loop slicing of tokenizer.getTokens anchored by guard text'],
    explanation='C01: operator-precedence premises proved on the real parser/evaluator code; formulas of bounded depth checked against an independent reference.', assumptions=COMMON_ASSUMPTIONS,
)

PROPS['C02'] = dict(
    unit_modules=['contracts.c02_tokenizer'], driver_modules=['drivers.c02'], level='other',
    level_text="Step contracts of the REAL tokenizer scan loop (one iteration sliced out of ExcelParser.getTokens, nested helpers and token classes real): for ALL (formula, offset, pending token, mode flags) an iteration raises no IndexError and strictly advances without passing the end (with a loop contract for the inner blank-skipping loop: invariant + variant); inside a string literal / quoted sheet name every character is kept, a doubled quote stands for one, the closing quote emits the literal unchanged / ends the name; the opening quote only switches the mode whatever follows it; outside every mode an operator character, a two-character comparator, '(' , ')' and ',' each flush the pending operand exactly once and become exactly ONE token of the right kind (function start carrying the name / sub-expression start / stop token of the innermost construct / argument separator or union operator / a placeholder for an omitted argument), and an ordinary character joins the pending token - with the scientific-notation test decided exactly (the regular expression is translated to a z3 regular expression, the translation self-tested against `re`). By induction over the literal these give 'each string literal keeps its exact characters' and 'one token per written construct'. Everything else of the statement (one node per construct, argument counts, whitespace, scientific notation, function nesting) is BOUNDED: a systematic grammar enumeration and seeded random formulas compared with an independent recursive-descent reference parser. Claimed 'other'.",
    level_note="Trusted: facts about well-formed input used as preconditions (formula does not end in ',', '%' follows a numeric literal); string theory of z3/cvc5 (per-path queries, 20 s); float(token) as uninterpreted; loop slicing anchored by the guard text; pyvc interpreter (cross-check + canary).",
    trusted_base=['intrinsic axioms of the uninterpreted builtins (pyvc/models.py UF_AXIOMS), natively tested on every run', 'loop slicing of tokenizer.getTokens anchored by guard text', 'reference parser in drivers/c02.py (bounded layer oracle)'],
    explanation='C02: index safety/progress and literal-preservation step contracts proved on the real scan loop; tree equality bounded against a reference parser.', assumptions=COMMON_ASSUMPTIONS,
)

PROPS['C03'] = dict(
    unit_modules=['contracts.c03_references'], driver_modules=['drivers.c03'], level='other',
    level_text="On the real code, for ALL strings/values: EvalContext gives a cell's formula the sheet of its own address; RangeNode.full_address drops $ markers and prefixes the context sheet unless qualified; a single-cell reference looks up exactly the canonical address and restores the context sheet; a range evaluates each address of its extent exactly once in row-major order through an opaque logged eval_cell, and every stored non-empty or formula cell lies inside the evaluated extent however many empty cells precede it (symbolic content of the far cell). Which addresses a range text denotes (utils.resolve_ranges) is decided by a COMPLETE sweep over every starting column 1..18278 for widths <= 4, and the column-letter bijection over all 18278 columns; sheets needing quotes, $-spellings, sparse ranges up to 400 cells, names and cross-sheet chains are bounded. Claimed 'other'.",
    level_note='Trusted: openpyxl range_boundaries/get_column_letter (swept, not proved); regular expressions run natively on concrete sheet names; shapes of ranges are concrete per unit (values symbolic); pyvc interpreter (cross-check + canary); z3/cvc5.',
    trusted_base=['intrinsic axioms of the uninterpreted builtins (pyvc/models.py UF_AXIOMS), natively tested on every run', 'openpyxl.utils (range_boundaries, get_column_letter) - external'],
    explanation='C03: reference-resolution contracts proved per function on the real code for all values; range geometry swept completely per column.', assumptions=COMMON_ASSUMPTIONS,
)

PROPS['C04'] = dict(
    unit_modules=['contracts.c04_evaluate', 'contracts.c03_references'], driver_modules=['drivers.c04'], level='other',
    level_text="The contract of the real Evaluator.evaluate / resolve_names / EvaluatorContext / Model.set_cell_value, interpreted from source on real Model, XLCell and XLFormula objects whose compiled tree is an opaque logged collaborator yielding SYMBOLIC values: the result is what the tree yields under a context for THIS cell and becomes the stored value; a defined name evaluates its cell; set_cell_value by address, by name (also when the name keeps its own copy of the cell) or on a cell that did not exist writes exactly the addressed cell; and 3-step histories 'evaluate; change an input (address / name / new cell); evaluate' yield what a fresh evaluation of the current inputs yields - for ALL values of every primitive type. Longer histories over real formulas (6 small models, every history up to length 3-4 plus 1500/20000 random ones up to length 8, two evaluators) are BOUNDED, compared with freshly compiled models. Claimed 'other': the statement quantifies over all histories and all formula graphs.",
    level_note='Trusted: the formula tree as an opaque collaborator (its own behaviour is C01/C03/C07...); read frames (stale value / need_update never read) are proof devices stronger than the statement and never escalate to a violation on their own; pyvc interpreter (cross-check + canary); z3.',
    trusted_base=['intrinsic axioms of the uninterpreted builtins (pyvc/models.py UF_AXIOMS), natively tested on every run', 'opaque collaborator: XLFormula.ast.eval(context)'],
    explanation='C04: evaluate/set_cell_value contracts and 3-step histories proved for all values; longer histories bounded against fresh models.', assumptions=COMMON_ASSUMPTIONS,
)
PROPS['C05'] = dict(
    unit_modules=['contracts.c04_evaluate'], driver_modules=['drivers.c04'], level='other',
    level_text="On the real code for ALL values: a constant cell yields its value and nothing is written or evaluated; an address without a cell reads as blank and no cell appears; the memo of evaluated cells belongs to one EvaluatorContext (each cell once per context, another context shares nothing); histories 'evaluate; set; evaluate; a second Evaluator' agree with a fresh evaluation for every way of setting (address, name, new cell, none); no function or class on the evaluation path carries a process-lifetime memo (finite scan of the real modules for lru_cache/cache decorators - the footprint clause). Order independence over real formulas (every permutation of the cells of 7 models on 3 evaluators, random repeated orders) and the measured footprint after 3000/12000 evaluations are BOUNDED. Claimed 'other'.",
    level_note='Trusted: opaque formula tree; tracemalloc measurement in the bounded layer (threshold, not proof); decorator scan covers the six modules named in the unit; pyvc interpreter (cross-check + canary).',
    trusted_base=['intrinsic axioms of the uninterpreted builtins (pyvc/models.py UF_AXIOMS), natively tested on every run', 'opaque collaborator: XLFormula.ast.eval(context)'],
    explanation='C05: read-only/idempotence contracts of evaluate and per-context memo proved; orders and footprint bounded.', assumptions=COMMON_ASSUMPTIONS,
)

PROPS['C06'] = dict(
    unit_modules=['contracts.c04_evaluate'], driver_modules=['drivers.c06'], level='other',
    level_text="Ghost state = the evaluator's path of cells being evaluated. On the real Evaluator.evaluate: a cell already on the path raises a cycle report BEFORE its formula is touched (self, below, above); the path is restored on every exit (value, failure); other cells on the path never make a cell a cycle (diamonds, repeats); a failing formula leaves the stored value alone; and len(report) <= len(report from below) + len(address) + len(formula) + 60 for ALL message and formula texts (symbolic strings) - linear growth per level, hence polynomial overall. That every cyclic dependency graph reaches such a state promptly, and that acyclic graphs never do, is BOUNDED: all digraphs on <= 4 cells with cell and range edges, chains up to depth 400/900 in child processes with a memory limit, wall-time and message-size fits. Claimed 'other'.",
    level_note='Trusted: ghost attribute `_evaluating` of Evaluator (if renamed the units go undecided); opaque formula tree (a formula-shape-dependent shortcut inside evaluate is only visible to the bounded layer); RLIMIT_AS / timing thresholds of the bounded layer; pyvc interpreter.',
    trusted_base=['intrinsic axioms of the uninterpreted builtins (pyvc/models.py UF_AXIOMS), natively tested on every run', 'opaque collaborator: XLFormula.ast.eval(context)'],
    explanation='C06: cycle-detection and message-growth step contracts proved on evaluate; whole-graph behaviour bounded.', assumptions=COMMON_ASSUMPTIONS, driver_budget_s=200,
)

PROPS['C10'] = dict(
    unit_modules=['contracts.c10_logical'], driver_modules=['drivers.c10'], level='other',
    level_text="The real logical.IF/AND/OR/NOT, interpreted through the real validate_args wrapper with logged argument thunks yielding SYMBOLIC values of every class (Boolean, Number int/float, Blank, errors): IF evaluates the condition once and exactly the selected branch, returns it (FALSE / 0 defaults when omitted), an error condition is the result; AND/OR over 1-3 arguments follow the statement's truth rules, skip text/blank as stated and return the first error; NOT negates the truth value; FunctionNode.eval hands thunks to lazy parameters and evaluates nothing itself. 422 obligations, unbounded in the values; argument lists are covered up to length 3 and formula-level use (nesting, ranges as arguments, 1/0 in the unselected branch) is BOUNDED. Claimed 'other' because of the length bound.",
    level_note="Trusted: argument thunks as specification stubs (their evaluation is C04's contract); floats as reals; pyvc interpreter (cross-check + canary); z3.",
    trusted_base=['intrinsic axioms of the uninterpreted builtins (pyvc/models.py UF_AXIOMS), natively tested on every run'],
    explanation='C10: laziness (ghost log of thunk calls) and truth rules proved on the real functions for all values, lists up to 3.', assumptions=COMMON_ASSUMPTIONS,
)

PROPS['C14'] = dict(
    unit_modules=['contracts.c14_aggregates'], driver_modules=['drivers.c14'], level='other',
    level_text="The real SUM, AVERAGE, MIN, MAX, COUNT, COUNTA interpreted through validate_args / _validate / flatten on a 3-cell range whose cells fork over {number int/float with SYMBOLIC value, blank, text} plus a scalar: the result is the reference fold of exactly the numeric (non-empty) values - all values, every fill pattern of the 3 cells; SUMPRODUCT: differently shaped ranges (also with equal cell counts) give #VALUE!, equal shapes the sum of position-wise products (symbolic 2x2). Permutation invariance, additivity over splits and MIN <= AVERAGE <= MAX follow from those equalities. Longer ranges (up to 400 cells), every fill pattern of 2x3 blocks, permutations and splits through formulas are BOUNDED. Claimed 'other': bounded in the number of cells. Known finding: COUNT/COUNTA stop at 255 values (pinned by existing tests).",
    level_note='Trusted: pandas/numpy array plumbing of the concrete 3-cell ranges runs natively; floats as reals (Python 3.12 compensated sum differs from the left fold by rounding only: tolerance in the bounded layer); pyvc interpreter (cross-check + canary).',
    trusted_base=['intrinsic axioms of the uninterpreted builtins (pyvc/models.py UF_AXIOMS), natively tested on every run', 'numpy / pandas containers (native)'],
    explanation='C14: fold equalities proved for all values on 3+1 cells; longer ranges and rearrangements bounded.', assumptions=COMMON_ASSUMPTIONS,
)
PROPS['C15'] = dict(
    unit_modules=['contracts.c15_lookup'], driver_modules=['drivers.c15'], level='other',
    level_text="On the real code with SYMBOLIC numbers: CHOOSE (index inside 1..n truncated, #VALUE! outside); MATCH over a 3-cell column - exact match = first equal position or #N/A, approximate match on ascending data = last position not exceeding the key; VLOOKUP over a 3x3 table - requested column of the FIRST row whose key equals the lookup value, #N/A if none, an error for a column outside; xlcriteria.parse_criteria for 16 criteria (every operator prefix, numeric and text operands) applied to a symbolic cell of every class - holds exactly when the statement's criterion holds; COUNTIF over a 3-cell column = the number of cells for which it holds. Unbounded in the values, BOUNDED in the number of cells (3); longer columns, duplicates, text keys in other letter case, wildcards-free criteria sweeps and SUMIF-style use are bounded against a linear scan. Claimed 'other'.",
    level_note="Trusted: str.upper as uninterpreted; the criterion's regular expression runs natively on the concrete criterion text; pandas/numpy containers; floats as reals; pyvc interpreter (cross-check + canary).",
    trusted_base=['intrinsic axioms of the uninterpreted builtins (pyvc/models.py UF_AXIOMS), natively tested on every run', 'numpy / pandas containers (native)'],
    explanation='C15: lookup and criteria contracts proved for all values on 3 cells; longer scans bounded.', assumptions=COMMON_ASSUMPTIONS,
)

PROPS['C16'] = dict(
    unit_modules=['contracts.c16_math'], driver_modules=['drivers.c16'], level='other',
    level_text="What a proof over the reals can decide, on the real math functions: wiring - each elementary function hands the right argument(s) to the right numpy/math routine (ATAN2(x,y)=atan2(y,x), LOG(x,b)=ln x/ln b, ...); domain - arguments outside the domain give an Excel error value, never a Python exception (ACOS/ASIN/ACOSH/SQRT/SQRTPI/FACT/FACTDOUBLE/LN/LOG10/LOG/MOD); exact - ABS, SIGN, EVEN, TRUNC(x), MOD(x,y) = x - y*floor(x/y) with the sign-of-divisor lemma; the rounding family on an exact model of decimal.Decimal - ROUND (half away from zero), ROUNDUP, ROUNDDOWN, TRUNC(x,n) for digit counts -2..3, INT, and CEILING / FLOOR for five significances, for ALL real x: the real `_round`, the local decimal context's rounding mode, round(d, n) and to_integral_value are interpreted, the reference is floor / ceiling of |x|*10^n written independently. The statement's actual content - agreement with correctly rounded IEEE-754 reference values to a few ulp for MOD/POWER and the elementary functions, and every effect of the binary representation on the rounding family (Decimal(str(x)) is identified with x) - is NOT provable with floats as reals and is BOUNDED: against `decimal` and mpmath on boundary and seeded inputs. Claimed 'other'.",
    level_note="Assumption A-float is decisive here: ulp accuracy, overflow and every decimal-representation effect are invisible to the proof layer. Trusted: numpy/math routines as uninterpreted functions; pyvc/models_decimal.py (exact real arithmetic and the seven rounding modes of decimal; precision ignored - the repository sets 400 digits); decimal / mpmath as the bounded layer's oracle.",
    trusted_base=['intrinsic axioms of the uninterpreted builtins (pyvc/models.py UF_AXIOMS), natively tested on every run', 'numpy ufuncs / math functions as uninterpreted (wiring only)', 'mpmath + decimal (bounded oracle)'],
    explanation='C16: wiring, domain and exact-arithmetic facts proved; numerical accuracy bounded against decimal/mpmath.', assumptions=COMMON_ASSUMPTIONS,
)

PROPS['C18'] = dict(
    unit_modules=['contracts.c18_dates'], driver_modules=['drivers.c18'], level='other',
    level_text="On the real code for EVERY whole serial (symbolic integer) over an exact day-ordinal model of datetime: number_to_datetime / datetime_to_number realise the 1900 system's offset (serial 1 = 1900-01-01, 59 = 1900-02-28, 61 = 1900-03-01), are monotone and mutually inverse for every whole serial but 60; YEAR/MONTH/DAY/ISOWEEKNUM select the respective field of that date; WEEKDAY applies the right rotation for each return type; DAYS is the difference of serials. The Gregorian field functions of an ordinal (datetime's own arithmetic), relativedelta and the yearfrac package are assumed dependencies: DATE, EDATE, EOMONTH, DATEDIF, YEARFRAC and the time-of-day fraction are BOUNDED (exhaustive over all 2,958,465 serials in the thorough tier; boundary and seeded serials in the quick tier). Claimed 'other'. Known finding: TIME fractions (pinned).",
    level_note='Trusted: pyvc/models_datetime.py (ordinal arithmetic; YEAR_OF/MONTH_OF/DAY_OF/ISOWEEK_OF uninterpreted with range axioms); dateutil.relativedelta, yearfrac - external, bounded only; whole days only in the proof layer.',
    trusted_base=['intrinsic axioms of the uninterpreted builtins (pyvc/models.py UF_AXIOMS), natively tested on every run', 'pyvc/models_datetime.py: exact ordinal arithmetic of datetime/timedelta on whole days', 'dateutil.relativedelta, yearfrac (external; bounded only)'],
    explanation='C18: serial/ordinal bijection and field selection proved for all whole serials; calendar arithmetic of dependencies bounded (exhaustive in thorough).', assumptions=COMMON_ASSUMPTIONS, driver_budget_s=150,
)

PROPS['C20'] = dict(
    unit_modules=['contracts.c20_financial'], driver_modules=['drivers.c20'], level='other',
    level_text="The real NPV, SLN, XNPV (+_xnpv), PMT, PV, IRR interpreted from source for SYMBOLIC rates, flows and dates with pow uninterpreted (natively tested axioms): NPV = sum c_i (1+r)^-i and XNPV = sum v_i/(1+r)^((d_i-d_1)/365) term by term with the RIGHT flow, rate and position (lists/ranges of length 1-3), NPV at rate 0 is the plain sum, linearity as a lemma; SLN = (cost - salvage)/life; PMT/PV hand (rate, nper, pv|pmt, fv, timing) to numpy_financial in the right places; IRR hands the root finder exactly the given flows in order (a zero flow keeps its period). The closed forms inside numpy_financial, the root finders (IRR/XIRR within 1e-6 of the bisection root of the reference NPV/XNPV) and series up to 30 flows are BOUNDED. Claimed 'other'. Known finding: XIRR drops zero flows (pinned).",
    level_note='Trusted/assumed: numpy_financial pmt/pv/irr (external; uninterpreted or logged collaborator), scipy-free bisection as the bounded oracle; pow axioms; floats as reals; rates restricted to (-0.9, 10] as in the statement.',
    trusted_base=['intrinsic axioms of the uninterpreted builtins (pyvc/models.py UF_AXIOMS), natively tested on every run', 'assumed contract: numpy_financial.pmt / pv / irr'],
    explanation='C20: defining equations proved term by term for all rates/flows up to 3 terms; closed forms of the dependency and root finding bounded.', assumptions=COMMON_ASSUMPTIONS,
)

PROPS['C08'] = dict(
    unit_modules=['contracts.c08_coercion'], driver_modules=['drivers.c08'], level='other',
    level_text="On the real code: Number.cast and Text.cast (the conversions validate_args applies) over every spelling class with SYMBOLIC content - native int/float/bool/str/None, Number, Boolean, Blank, Text: numbers stay, TRUE=1, FALSE=0, blank=0, numeric text is the number it reads as, other text gives #VALUE!, the text form does not depend on the spelling; OP_ADD/SUB/MUL/DIV over all pairs of {Number int/float, Boolean, Blank, numeric Text}; FunctionNode.eval looks the function up under the upper-case name without an _xlfn. prefix and hands its arguments over once, in order (6 spellings interpreted; every registered name x 12 spellings by a finite scan of the real registry); every scalar parameter of every registered function is annotated with a converting alias and no conversion is memoised by argument equality (finite scans). Agreement of whole function calls across spellings (all registered functions, text spellings, formulas) is BOUNDED. Claimed 'other'.",
    level_note='Trusted: int()/float()/str() of text and numbers, str.lower, dateutil.parser.parse as uninterpreted functions with natively tested axioms; floats as reals; scans read the registry as imported in the check process; pyvc interpreter (cross-check + canary).',
    trusted_base=['intrinsic axioms of the uninterpreted builtins (pyvc/models.py UF_AXIOMS), natively tested on every run', 'assumed contract: dateutil.parser.parse'],
    explanation='C08: conversion contracts proved per spelling class for all contents; registry-wide facts by finite scans; cross-spelling agreement of whole calls bounded.', assumptions=COMMON_ASSUMPTIONS,
)

PROPS['C13'] = dict(
    unit_modules=['contracts.c13_extract', 'contracts.c04_evaluate'], driver_modules=['drivers.c13'], level='other',
    level_text="The real ModelCompiler.extract (worklist loop interpreted from source, copy.deepcopy by its structural model, build_code an opaque logged collaborator) on 6 dependency shapes x 2-3 focus lists with SYMBOLIC constant cells of every primitive type: the extracted model holds the hand-written dependency closure of the focus (references, cells of ranges, what names stand for, quoted sheets); every extracted cell carries the original's value, formula text and terms; names and ranges are carried over; nothing is shared with the original (fresh objects), the original's tables and cell contents are unchanged and none of its attributes is written; build_code runs once, last, on the extracted model. Model.set_cell_value writes the cell AT the address also when a name keeps its own copy of the cell (as after extraction). Unbounded in the values, BOUNDED in the dependency shape; equality of evaluated values after input changes (by address and by name) is bounded: 6 models x every non-empty focus subset x change sets. Claimed 'other'.",
    level_note="Trusted: structural model of copy.deepcopy (no class of the repository defines __deepcopy__; checked); the composition 'same closure + same contents => same values' relies on C03/C04 and is argued in DESIGN.md; pyvc interpreter (cross-check + canary).",
    trusted_base=['intrinsic axioms of the uninterpreted builtins (pyvc/models.py UF_AXIOMS), natively tested on every run', 'pyvc model of copy.deepcopy'],
    explanation='C13: closure/freshness/frame contract of extract proved for all values on fixed shapes; value equivalence bounded.', assumptions=COMMON_ASSUMPTIONS,
)

PROPS['C12'] = dict(
    unit_modules=['contracts.c12_persist'], driver_modules=['drivers.c12'], level='other',
    level_text="On the real Model.persist_to_json_file / construct_from_json_file with the file system and jsonpickle as logged opaque collaborators, for ALL file names (symbolic string, os.path.splitext uninterpreted): both ends choose gzip by the SAME predicate (lower-cased extension .gz/.gzip) and open the same path in binary mode; exactly the four tables cells/defined_names/formulae/ranges - the model's own objects - are encoded with keys=True and written once, the model is untouched; the four tables are restored from the entries of the same names, decoded with keys=True, and build_code runs afterwards iff requested. Together with the ASSUMED round-trip contract of jsonpickle for the repository's dataclasses this gives the statement; that assumption and 'every cell evaluates to the same value' are BOUNDED: 5 models (all value types, non-ASCII, huge/tiny floats, dates, errors, ranges, names, sheets) x 5 points of the history x 4 extensions. Claimed 'other'.",
    level_note='Trusted/assumed: jsonpickle.encode/decode round-trip structurally (external; bounded only); gzip/open; os.path.splitext as an uninterpreted function; pyvc interpreter; z3.',
    trusted_base=['intrinsic axioms of the uninterpreted builtins (pyvc/models.py UF_AXIOMS), natively tested on every run', 'assumed contract: jsonpickle.decode(jsonpickle.encode(x, keys=True), keys=True) is structurally x'],
    explanation='C12: opener symmetry and payload frames proved for all file names; value fidelity through jsonpickle bounded.', assumptions=COMMON_ASSUMPTIONS,
)

PROPS['C11'] = dict(
    unit_modules=['contracts.c11_reader'], driver_modules=['drivers.c11'], level='other',
    level_text="The repository's own part of loading, on the real code: Reader.read_cells over a workbook of two sheets x two stored cells with SYMBOLIC sheet titles, values, formula texts and cached values, every storage class (value / formula / array formula) and an arbitrary ignored title - one cell per stored cell of every sheet not ignored, addressed title!coordinate, holding its constant or its formula (made for ITS OWN sheet) with the cached result, ignored sheets contribute nothing; read_defined_names hands over every visible name with its target (symbolic); parse_archive makes the tables read the model's tables and binds names, links cells, builds ranges in that order; build_defined_names binds a (symbolic) name for every shape of target. The XML side (openpyxl + the cached-value patch), shared-formula expansion and evaluation equality are BOUNDED: raw SpreadsheetML workbooks written by the check (1-4 sheets, all cell storage forms, names, every ignore subset). Claimed 'other'.",
    level_note='Trusted: openpyxl (XML parsing, shared-formula translation) and mock.patch - external, exercised only by the bounded layer; XLCell/XLFormula constructors are opaque in the read_cells unit (their own contracts: C02/C03); pyvc interpreter; z3/cvc5 strings.',
    trusted_base=['intrinsic axioms of the uninterpreted builtins (pyvc/models.py UF_AXIOMS), natively tested on every run', 'openpyxl reader + xlcalculator.patch (external / bounded only)'],
    explanation='C11: reader glue proved for all titles/values on a fixed workbook shape; file-level fidelity bounded on generated SpreadsheetML.', assumptions=COMMON_ASSUMPTIONS,
)
