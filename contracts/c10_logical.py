"""C10  IF/AND/OR/NOT select lazily and follow Excel's truth rules.

Ghost `log`: the sequence of thunks called.  The real `logical.IF/AND/OR/NOT` are interpreted through the real
`validate_args` wrapper with argument thunks (`func_xltypes.Expr`) whose callables are specification stubs that log
their evaluation and yield SYMBOLIC values of a forked class; the real `FunctionNode.eval` is interpreted with opaque
argument nodes to show that it hands over thunks and evaluates nothing itself.
"""
import z3

from pyvc.engine import Unit, Case, Fork, Xl, XlBlank, XlErr, Prim, Const, OMITTED
from pyvc.interp import Stub, ModelFn
from pyvc import spec, sym as S
from pyvc.sym import Sym, is_sym, And, Or, Not, Implies, Ite

MOD = 'xlcalculator.xlfunctions.logical'
VALS = [Xl('Boolean', 'bool'), Xl('Number', 'int', domain=[-2, 0, 1, 5]), Xl('Number', 'real', domain=[-0.5, 0.0, 2.5]), XlBlank()]
ERRS = [XlErr('NaExcelError'), XlErr('DivZeroExcelError')]
UNITS = []


def T():
    return spec.T()


def truth(x):
    """the statement's truth value of a logical / numeric / blank scalar"""
    t = T()
    if isinstance(x, t.Boolean):
        return x.value
    if isinstance(x, t.Number):
        return Not(spec.eq(x.value, 0))
    if isinstance(x, t.Blank):
        return False
    raise AssertionError(x)


def is_err(x):
    return isinstance(x, spec.E().ExcelError)


def thunk(it, tag, value, log):
    t = T()
    if it is None:
        def f():
            log.append(tag)
            return value
        return t.Expr(f)
    return t.Expr(ModelFn(lambda it_, *a: (log.append(tag), value)[1], f'thunk:{tag}'))


def _fn(name):
    import importlib
    return getattr(importlib.import_module(MOD), name)


def boolean_result(out, b):
    """returned TRUE/FALSE (a Boolean object or a native bool) equal to b"""
    if out.kind != 'ret':
        return False
    v = out.value
    if isinstance(v, T().Boolean):
        v = v.value
    if not (isinstance(v, bool) or (is_sym(v) and v.k == 'bool')):
        return False
    return spec.eq(v, b)


class R:
    """(result, log) as an outcome over the result"""

    def __init__(self, out):
        self.kind = out.kind
        self.value = out.value[0] if out.kind == 'ret' else out.value
        self.log = list(out.value[1]) if out.kind == 'ret' else None


# ---- IF -----------------------------------------------------------------------------------------------------------------
def if_call(native):
    def call(it, fn, test, has_else):
        log = []
        THEN, ELSE = Stub('then-value'), Stub('else-value')
        itx = None if native else it
        args = [thunk(itx, 'test', test, log), thunk(itx, 'then', THEN, log)]
        if has_else:
            args.append(thunk(itx, 'else', ELSE, log))
        res = _fn('IF')(*args) if native else it.call(_fn('IF'), args, {})
        tag = 'then' if res is THEN else ('else' if res is ELSE else res)
        return tag, tuple(log)
    if native:
        return lambda fn, test, has_else: call(None, fn, test, has_else)
    return call


def if_ens(test, has_else, out):
    if out.kind != 'ret':
        return False
    r = R(out)
    if is_err(test):
        return r.value is test and r.log == ['test']
    tr = truth(test)
    sel_then = (r.value == 'then') if isinstance(r.value, str) else False
    sel_else = (r.value == 'else') if isinstance(r.value, str) else False
    if has_else:
        good_then = sel_then and r.log == ['test', 'then']
        good_else = sel_else and r.log == ['test', 'else']
    else:
        good_then = sel_then and r.log == ['test', 'then']
        good_else = (not isinstance(r.value, str)) and r.log == ['test'] and boolean_result(_as_out(r.value), False)
    return Ite(tr, good_then, good_else) if is_sym(tr) else (good_then if tr else good_else)


class _as_out:
    def __init__(self, v):
        self.kind, self.value = 'ret', v


UNITS.append(Unit(
    id='C10/logical.IF', target=f'{MOD}:IF', fork='product',
    inputs=[('test', Fork(VALS + ERRS)), ('has_else', Fork([Const(True, 'else given'), Const(False, 'else omitted')]))],
    cases=[Case('the selected branch (only) is evaluated and is the result; an error condition is the result', lambda t, h: True, if_ens)],
    canary=Case('canary', lambda t, h: True, lambda t, h, out: out.kind == 'ret' and R(out).log == ['test', 'then', 'else']),
    call=if_call(False), native_call=if_call(True)))


# ---- AND / OR ----------------------------------------------------------------------------------------------------------
def andor_call(name, native):
    def call(it, fn, *vals):
        log = []
        itx = None if native else it
        args = [thunk(itx, i, v, log) for i, v in enumerate(vals)]
        res = _fn(name)(*args) if native else it.call(_fn(name), args, {})
        return res, tuple(log)
    if native:
        return lambda fn, *vals: call(None, fn, *vals)
    return call


def andor_expected(name, vals):
    """-> list of (condition, kind, payload) alternatives in evaluation order: the first whose condition holds applies"""
    alts = []
    live = True           # condition that evaluation got this far
    deciding = (name == 'OR')
    for i, v in enumerate(vals):
        if is_err(v):
            alts.append((live, 'err', v, i))
            return alts
        if isinstance(v, T().Blank):
            continue
        tr = truth(v)
        dec = tr if name == 'OR' else Not(tr)
        alts.append((And(live, dec), 'bool', deciding, i))
        live = And(live, Not(dec))
    alts.append((live, 'bool', not deciding, len(vals) - 1))
    return alts


def andor_ens(name):
    def ens(*a):
        out = a[-1]
        vals = a[:-1]
        if out.kind != 'ret':
            return False
        r = R(out)
        clauses = []
        for cond, kind, payload, upto in andor_expected(name, vals):
            if kind == 'err':
                ok = r.value is payload
            else:
                ok = boolean_result(_as_out(r.value), payload)
            # every thunk is called at most once, in order, and none beyond the deciding one
            ok = And(ok, r.log == list(range(upto + 1)))
            clauses.append(Implies(cond, ok))
        return And(*clauses)
    return ens


for _name in ('AND', 'OR'):
    for _k in (1, 2, 3):
        shapes = VALS + ERRS[:1] if _k < 3 else VALS[:2] + [XlBlank()] + ERRS[:1]
        UNITS.append(Unit(
            id=f'C10/logical.{_name}#{_k}', target=f'{MOD}:{_name}', fork='product',
            inputs=[(f'v{i}', Fork(shapes)) for i in range(_k)],
            cases=[Case(f'{_name} = the connective over the truth values of the non-blank elements, lazily, first error wins',
                        lambda *a: True, andor_ens(_name))],
            call=andor_call(_name, False), native_call=andor_call(_name, True), bounded_domain_cap=200))


# ---- AND / OR over a RANGE argument: the cells of the range count like separate arguments, an error cell is the result ---------------------
def andor_range_call(name, native):
    def call(it, fn, a, b, c):
        log = []
        itx = None if native else it
        arr = T().Array([[a], [b], [c]])
        args = [thunk(itx, 0, arr, log)]
        res = _fn(name)(*args) if native else it.call(_fn(name), args, {})
        return res, tuple(log)
    if native:
        return lambda fn, *vals: call(None, fn, *vals)
    return call


def andor_range_ens(name):
    def ens(a, b, c, out):
        if out.kind != 'ret':
            return False
        r = R(out)
        if r.log != [0]:
            return False                                   # the range is evaluated exactly once
        clauses = []
        for cond, kind, payload, upto in andor_expected(name, [a, b, c]):
            ok = (r.value is payload) if kind == 'err' else boolean_result(_as_out(r.value), payload)
            clauses.append(Implies(cond, ok))
        return And(*clauses)
    return ens


for _name in ('AND', 'OR'):
    UNITS.append(Unit(
        id=f'C10/logical.{_name}/range', target=f'{MOD}:{_name}', fork='product',
        inputs=[(f'c{i}', Fork([Xl('Boolean', 'bool'), Xl('Number', 'int', domain=[0, 1, 5]), XlBlank(), XlErr('DivZeroExcelError')])) for i in range(3)],
        # (a range of blanks only is not in the statement)
        requires=lambda a, b, c: not all(isinstance(x, T().Blank) for x in (a, b, c)),
        cases=[Case(f'{_name} over a 3-cell range = the connective over the truth values of its non-blank cells in order; an error cell met before the result is decided is the result',
                    lambda *a: True, andor_range_ens(_name))],
        call=andor_range_call(_name, False), native_call=andor_range_call(_name, True), bounded_domain_cap=120))


# ---- NOT -----------------------------------------------------------------------------------------------------------------
def not_call(native):
    def call(it, fn, v):
        log = []
        args = [thunk(None if native else it, 'x', v, log)]
        res = _fn('NOT')(*args) if native else it.call(_fn('NOT'), args, {})
        return res, tuple(log)
    if native:
        return lambda fn, v: call(None, fn, v)
    return call


def not_ens(v, out):
    if out.kind != 'ret':
        return False
    r = R(out)
    if is_err(v):
        return r.value is v
    return And(boolean_result(_as_out(r.value), Not(truth(v))), r.log == ['x'])


# an empty cell that a range of some formula covers is stored with the value '' and reads as the empty text: it is blank for NOT as it
# is for IF / AND / OR
UNITS.append(Unit(id='C10/logical.NOT/empty_cell_held_as_empty_text', target=f'{MOD}:NOT',
                  inputs=[('v', Const(spec.T().Text(''), "Text('') - an empty cell held as ''"))],
                  cases=[Case('NOT of an empty cell is TRUE (blank counts as FALSE), also when the model holds the cell as the empty text', lambda v: True,
                              lambda v, out: out.kind == 'ret' and boolean_result(_as_out(R(out).value), True) and R(out).log == ['x'])],
                  call=not_call(False), native_call=not_call(True)))
UNITS.append(Unit(id='C10/logical.NOT', target=f'{MOD}:NOT', inputs=[('v', Fork(VALS + ERRS))],
                  cases=[Case('NOT negates the truth value; an error is the result', lambda v: True, not_ens)],
                  canary=Case('canary', lambda v: True, lambda v, out: out.kind == 'ret' and boolean_result(_as_out(R(out).value), True)),
                  call=not_call(False), native_call=not_call(True)))


# ---- FunctionNode.eval hands over thunks ------------------------------------------------------------------------------------
def thunking_call(name, nargs, native):
    def call(it, fn):
        from xlcalculator import ast_nodes, tokenizer
        from xlcalculator.xlfunctions import xl
        log = []
        real = xl.FUNCTIONS[name]
        seen = {}

        def spy(*args):
            seen['args'] = args
            seen['log_at_call'] = list(log)
            return 'RESULT'
        nodes = []
        for i in range(nargs):
            if native:
                class N:
                    def __init__(self, i):
                        self.i = i

                    def eval(self, ctx):
                        log.append(self.i)
                        return self.i
                nodes.append(N(i))
            else:
                nodes.append(Stub(f'arg{i}', eval=ModelFn((lambda j: lambda it_, ctx: (log.append(j), j)[1])(i), f'arg{i}.eval')))
        node = ast_nodes.FunctionNode(tokenizer.f_token(name.lower() if nargs % 2 else '_xlfn.' + name, 'function', ''))
        node.args = nodes
        if native:
            import functools
            wrapper = functools.wraps(real)(lambda *a: spy(*a))
            ctx = type('Ctx', (), {'namespace': {name: wrapper}, 'ref': 'Sheet1!A1'})()
            res = node.eval(ctx)
        else:
            ctx = Stub('ctx', namespace={name: real}, ref='Sheet1!A1')
            it.call_contracts[real] = ModelFn(lambda it_, *a: spy(*a), f'spy:{name}')
            try:
                res = it.call(ast_nodes.FunctionNode.eval, [node, ctx], {})
            finally:
                del it.call_contracts[real]
        Expr = T().Expr
        return (res, len(seen.get('args', ())), all(isinstance(a, Expr) for a in seen.get('args', ())), seen.get('log_at_call'),
                [getattr(a, 'callable', None) is not None for a in seen.get('args', ())])
    if native:
        return lambda fn: call(None, fn)
    return call


for _name, _n in (('IF', 3), ('IF', 2), ('AND', 3), ('OR', 2), ('NOT', 1)):
    UNITS.append(Unit(
        id=f'C10/ast_nodes.FunctionNode.eval/thunking[{_name}/{_n}]', target='xlcalculator.ast_nodes:FunctionNode.eval', inputs=[],
        cases=[Case('every argument reaches the function as an unevaluated expression; the name is matched case-insensitively / without _xlfn.',
                    lambda: True,
                    (lambda n: lambda out: out.kind == 'ret' and out.value[0] == 'RESULT' and out.value[1] == n and out.value[2] is True
                     and out.value[3] == [])(_n))],
        call=thunking_call(_name, _n, False), native_call=thunking_call(_name, _n, True)))
