"""C19  Base-conversion functions are exact two's-complement conversions.

Contracts on the real `xlcalculator.xlfunctions.engineering` wrappers (through the real `xl.validate_args`,
`convert_bases`, `handle_places`, `handle_number`, `conversion`, `pad_zeroes` - all interpreted from source).
Top-level postconditions are taken from the property statement:

  * decoded value  = two's-complement reading (10 digits: W = 10/30/40 bits) of the digit string, or the integer;
  * in window  -B <= v < B of the *narrower* base involved  =>  digits of (v mod 2^W_dst), upper case,
    non-negative results left-padded with zeros to `places`;  otherwise #NUM!;
  * invalid digit / more than 10 digits / fractional / places outside 1..10 or too small => #NUM!;
    boolean argument => #VALUE!.

Python's digit formatting `bin/oct/hex`, parsing `int(s, base)`, `str(int)`, `str.upper`, `str.zfill` are
uninterpreted, constrained only by the axioms below (each is tested natively on every run, and the whole binary
window is enumerated natively: finite-complete obligation F3).
"""
import z3

from pyvc.engine import Unit, Case, Fork, Xl, XlBlank, Prim, Const
from pyvc import models as M, spec, sym as S
from pyvc.sym import Sym, is_sym, And, Or, Not, Implies, Ite, lift

MOD = 'xlcalculator.xlfunctions.engineering'
W = {'bin': 10, 'oct': 30, 'hex': 40}
BASE = {'bin': 2, 'oct': 8, 'hex': 16}
PYF = {'bin': bin, 'oct': oct, 'hex': hex}
DIGITS = {'bin': '01', 'oct': '01234567', 'hex': '0123456789ABCDEFabcdef'}


def _unused():
    from xlcalculator.xlfunctions import func_xltypes
    return func_xltypes.UNUSED


def T():
    from xlcalculator.xlfunctions import func_xltypes
    return func_xltypes


def bound(origin, dest):
    ws = [W[b] for b in (origin, dest) if b != 'dec']
    return 2 ** (min(ws) - 1)


def digit_string(number):
    """the digit string Excel reads from a non-decimal `number` argument"""
    t = T()
    if isinstance(number, t.Text):
        # an empty text argument reads as 0 (as in Excel; the statement is silent on it)
        return Ite(S.length(number.value) == 0, '0', number.value)
    if isinstance(number, t.Blank):
        return '0'
    if isinstance(number, t.Number):
        return M.STR_INT(number.value)
    raise AssertionError(number)


def places_of(places):
    """(used, is_boolean, int value)"""
    t = T()
    if places is _unused():
        return False, False, None
    if isinstance(places, t.Boolean):
        return True, True, None
    return True, False, places.value


def decoded(origin, number):
    """(valid, value): is the argument a valid number in `origin`, and the integer it denotes"""
    if origin == 'dec':
        if is_sym(number) or (isinstance(number, int) and not isinstance(number, bool)):
            return True, number                       # native int argument
        return True, number.value if not isinstance(number, T().Blank) else 0
    s = digit_string(number)
    L = S.length(s)
    valid = And(L >= 1, L <= 10, M.charset_subset(DIGITS[origin])(s))
    u = M.INT_OF(s, BASE[origin])
    half = 2 ** (W[origin] - 1)
    value = Ite(u >= half, u - 2 ** W[origin], u)
    return valid, value


def reference_text(dest, value):
    """upper-case digits of value mod 2^W_dst"""
    wrapped = Ite(value < 0, value + 2 ** W[dest], value)
    return M.UPPER(M.FMT[PYF[dest]](wrapped))


def make_unit(fname, origin, dest):
    has_places = dest != 'dec'
    B_ = bound(origin, dest)

    def facts(number, places):
        t = T()
        used, pbool, pv = places_of(places)
        nbool = isinstance(number, t.Boolean)
        valid, value = (False, 0) if nbool else decoded(origin, number)
        places_ok = True if not used else (False if pbool else And(pv >= 1, pv <= 10))
        inwin = And(value >= -B_, value < B_)
        return used, pbool, pv, nbool, valid, value, places_ok, inwin

    def g_bool(number, places=_unused()):
        used, pbool, pv, nbool, valid, value, places_ok, inwin = facts(number, places)
        return Or(pbool, And(nbool, places_ok))

    def e_bool(number, places, out=None):
        if out is None:
            places, out = _unused(), places
        return spec.is_error(out, 'ValueExcelError')

    def g_badplaces(number, places=_unused()):
        used, pbool, pv, nbool, valid, value, places_ok, inwin = facts(number, places)
        return And(used, not pbool, Not(places_ok))

    def g_invalid(number, places=_unused()):
        used, pbool, pv, nbool, valid, value, places_ok, inwin = facts(number, places)
        return And(not pbool, not nbool, places_ok, Not(valid))

    def g_window(number, places=_unused()):
        used, pbool, pv, nbool, valid, value, places_ok, inwin = facts(number, places)
        return And(not pbool, not nbool, places_ok, valid, Not(inwin))

    def e_num(number, places, out=None):
        if out is None:
            places, out = _unused(), places
        return spec.is_error(out, 'NumExcelError')

    def g_ok(number, places=_unused()):
        used, pbool, pv, nbool, valid, value, places_ok, inwin = facts(number, places)
        return And(not pbool, not nbool, places_ok, valid, inwin)

    def e_ok(number, places, out=None):
        if out is None:
            places, out = _unused(), places
        used, pbool, pv, nbool, valid, value, places_ok, inwin = facts(number, places)
        if dest == 'dec':
            return spec.is_int_number(out, value)
        ref = reference_text(dest, value)
        if not used:
            return spec.is_text(out, ref)
        L = S.length(ref)
        neg = value < 0
        if not spec.returned(out, T().Text):
            # error outcome is right exactly when a non-negative result does not fit into `places`
            return And(spec.is_error(out, 'NumExcelError'), Not(neg), pv < L)
        r = out.value.value
        padded_ok = And(S.length(r) == pv, _ends_with(r, ref), _zeros(r, S.length(r) - L))
        return Ite(neg, spec.eq(r, ref), And(pv >= L, padded_ok))

    num_shapes = ([Xl('Number', 'int'), Prim('int', label='native int'), XlBlank(), Xl('Boolean', 'bool')] if origin == 'dec'
                  else [Xl('Text', 'str', domain=_digit_domain(origin)), Xl('Number', 'int', domain=[0, 1, 7, 10, 11, 777, 1111111111, 7777777777, 9, 12345678901]),
                        XlBlank(), Xl('Boolean', 'bool')])
    inputs = [('number', Fork(num_shapes))]
    if has_places:
        inputs.append(('places', Fork([Const(_unused(), 'UNUSED'), Xl('Number', 'int', domain=[-1, 0, 1, 2, 3, 5, 9, 10, 11]),
                                       Xl('Boolean', 'bool')])))
    if origin == 'dec':
        # native ints arrive as Number after validate_args' cast; make the contract read them uniformly
        pass
    cases = [Case('boolean=>#VALUE!', g_bool, e_bool),
             Case('invalid-digits-or-length=>#NUM!', g_invalid, e_num),
             Case('in-window=>reference-digits', g_ok, e_ok)]
    if origin == 'dec' or B_ < 2 ** (W[origin] - 1):
        # (a 10-digit number of the origin base can only leave the window if the destination is narrower)
        cases.insert(2, Case('outside-window=>#NUM!', g_window, e_num))
    if has_places:
        cases.insert(1, Case('places-outside-1..10=>#NUM!', g_badplaces, e_num))
    return Unit(id=f'C19/engineering.{fname}', target=f'{MOD}:{fname}', inputs=inputs, cases=cases, fork='product',
                call=_call, native_call=_native_call,
                canary=Case('canary', g_ok, (lambda number, places, out=None: spec.is_error(out if out is not None else places, 'NumExcelError'))),
                doc=f'{fname}: {origin}->{dest}, window +-{B_}')


def _call(it, fn, number, places=None):
    number = _wrap_native(number)
    if places is None:
        return it.call(fn, [number], {})
    if places is _unused():
        return it.call(fn, [number], {})
    return it.call(fn, [number, places], {})


def _native_call(fn, number, places=None):
    if places is None or places is _unused():
        return fn(number)
    return fn(number, places)


def _wrap_native(number):
    return number


def _ends_with(r, ref):
    if is_sym(r) or is_sym(ref):
        return Sym(z3.SuffixOf(lift(ref).t, lift(r).t), 'bool')
    return r.endswith(ref)


def _zeros(r, n):
    if is_sym(r) or is_sym(n):
        return Sym(z3.InRe(z3.SubString(lift(r).t, 0, S.to_int(lift(n))), z3.Star(z3.Re('0'))), 'bool')
    return set(r[:n]) <= {'0'}


def _digit_domain(origin):
    base = {'bin': ['0', '1', '10', '111', '1111111111', '1000000000', '0111111111', '11111111111', '102', '', ' 1', '1.0', '-1', 'false', 'TRUE'],
            'oct': ['0', '7', '17', '7777777777', '4000000000', '3777777777', '7777777000', '77777777777', '8', '', '1.5', 'false'],
            'hex': ['0', 'F', 'f', 'FF', 'FFFFFFFFFF', '8000000000', '7FFFFFFFFF', 'FFFFFFFE00', '1FF', 'G', '', 'FFFFFFFFFFF', 'false', 'abc']}
    return base[origin]


NAMES = {'bin': 'BIN', 'oct': 'OCT', 'hex': 'HEX', 'dec': 'DEC'}
UNITS = []
for o in ('dec', 'bin', 'oct', 'hex'):
    for d in ('dec', 'bin', 'oct', 'hex'):
        if o != d:
            UNITS.append(make_unit(f'{NAMES[o]}2{NAMES[d]}', o, d))

