"""C17  Text functions agree with 1-based string reference semantics.

Contracts on the real `xlcalculator.xlfunctions.text` functions through the real `xl.validate_args` wrapper
(`_validate`, `TYPE_TO_CAST`, `Text.cast`, `Number.cast`, `ExcelType.__new__`, `__int__` ... are interpreted from
source).  Strings and counts are unbounded.  Postconditions are the statement's reference operations
(pyvc.spec.left/right/mid: 1-based positions, counts clipped at the end of the text).
"""
import z3

from pyvc.engine import (Unit, Case, Lemma, Fork, Xl, XlBlank, Prim, Const, OMITTED, call_dropping_omitted,
                         native_dropping_omitted)
from pyvc import models as M, spec, sym as S
from pyvc.sym import Sym, is_sym, And, Or, Not, Implies, Ite, lift

MOD = 'xlcalculator.xlfunctions.text'
tf = spec.text_form

TEXTS = Fork([Xl('Text', 'str'), Prim('str', label='native str')])
TEXTLIKE = Fork([Xl('Text', 'str'), Prim('str', label='native str'), Xl('Number', 'int', domain=[0, 7, -12, 100]),
                 Xl('Boolean', 'bool'), XlBlank()])
# for the case functions: representative texts incl. letters whose lower case is not their case-folded form
CASE_DOM = ['', 'abc', 'Hello World', 'Straße µg ﬁn ς', 'naïve café', 'ÀÉ']
CASELIKE = Fork([Xl('Text', 'str', domain=CASE_DOM), Prim('str', label='native str', domain=CASE_DOM), Xl('Number', 'int', domain=[0, 7, -12, 100]),
                 Xl('Boolean', 'bool'), XlBlank()])
CNT_DOM = [-2, -1, 0, 1, 2, 3, 5, 6, 7, 12]
COUNTS = Fork([Xl('Number', 'int', domain=CNT_DOM), Prim('int', domain=CNT_DOM, label='native int'),
               Xl('Number', 'real', domain=[-1.5, -0.5, 0.0, 0.5, 1.0, 2.5, 3.0, 6.9])])
COUNTS_OPT = Fork(COUNTS.shapes + [Const(OMITTED, 'omitted')])


def cnt(n, default=None):
    """truncated count/position denoted by the argument"""
    if n is OMITTED:
        return default
    return spec.trunc(spec.num_form(n))


def unit(name, inputs, cases, **kw):
    return Unit(id=f'C17/text.{name}', target=f'{MOD}:{name}', inputs=inputs, cases=cases,
                call=call_dropping_omitted, native_call=native_dropping_omitted, **kw)


UNITS = []

# ---- LEN / UPPER / LOWER / EXACT ------------------------------------------------------------------------------------
UNITS.append(unit('LEN', [('text', TEXTLIKE)], [
    Case('LEN=length of the text form', lambda text: True, lambda text, out: spec.is_number(out, S.length(tf(text))))],
    canary=Case('canary', lambda text: True, lambda text, out: spec.is_number(out, S.length(tf(text)) + 1))))
UNITS.append(unit('UPPER', [('text', CASELIKE)], [
    Case('UPPER=upper-cased text', lambda text: True, lambda text, out: spec.is_text(out, M.UPPER(tf(text))))],
    canary=Case('canary', lambda text: True, lambda text, out: spec.is_text(out, M.LOWER(tf(text))))))
UNITS.append(unit('LOWER', [('text', CASELIKE)], [
    Case('LOWER=lower-cased text', lambda text: True, lambda text, out: spec.is_text(out, M.LOWER(tf(text))))]))
UNITS.append(unit('EXACT', [('text1', TEXTLIKE), ('text2', TEXTLIKE)], [
    Case('EXACT=case-sensitive equality', lambda a, b: True, lambda a, b, out: spec.is_bool(out, spec.eq(tf(a), tf(b))))],
    canary=Case('canary', lambda a, b: True, lambda a, b, out: spec.is_bool(out, True))))

# ---- LEFT / RIGHT ---------------------------------------------------------------------------------------------------
UNITS.append(unit('LEFT', [('text', TEXTLIKE), ('num_chars', COUNTS_OPT)], [
    Case('count>=0=>first n characters (clipped)', lambda t, n: cnt(n, 1) >= 0,
         lambda t, n, out: spec.is_text(out, spec.left(tf(t), cnt(n, 1)))),
    Case('count<0=>error value', lambda t, n: cnt(n, 1) < 0, lambda t, n, out: spec.is_error(out))],
    canary=Case('canary', lambda t, n: cnt(n, 1) >= 0, lambda t, n, out: spec.is_text(out, spec.right(tf(t), cnt(n, 1))))))
UNITS.append(unit('RIGHT', [('text', TEXTLIKE), ('num_chars', COUNTS_OPT)], [
    Case('count>=0=>last n characters (clipped)', lambda t, n: cnt(n, 1) >= 0,
         lambda t, n, out: spec.is_text(out, spec.right(tf(t), cnt(n, 1)))),
    Case('count<0=>error value', lambda t, n: cnt(n, 1) < 0, lambda t, n, out: spec.is_error(out))],
    canary=Case('canary', lambda t, n: cnt(n, 1) >= 0, lambda t, n, out: spec.is_text(out, spec.left(tf(t), cnt(n, 1))))))

# ---- MID ------------------------------------------------------------------------------------------------------------
LIMIT = 32767
UNITS.append(unit('MID', [('text', TEXTLIKE), ('start_num', COUNTS), ('num_chars', COUNTS)], [
    Case('start>=1,count>=0=>n characters from start (clipped)',
         lambda t, p, n: And(cnt(p) >= 1, cnt(n) >= 0, S.length(tf(t)) <= LIMIT),
         lambda t, p, n, out: spec.is_text(out, spec.mid(tf(t), cnt(p) - 1, cnt(n)))),
    Case('start<1 or count<0=>error value', lambda t, p, n: Or(cnt(p) < 1, cnt(n) < 0),
         lambda t, p, n, out: spec.is_error(out))],
    canary=Case('canary', lambda t, p, n: And(cnt(p) >= 1, cnt(n) >= 0),
                lambda t, p, n, out: spec.is_text(out, spec.mid(tf(t), cnt(p), cnt(n))))))

# ---- REPLACE --------------------------------------------------------------------------------------------------------
UNITS.append(unit('REPLACE', [('old_text', TEXTLIKE), ('start_num', COUNTS), ('num_chars', COUNTS), ('new_text', TEXTS)], [
    Case('start>=1,count>=0=>LEFT(s,p-1)&t&MID(s,p+k,LEN(s))',
         lambda s, p, k, t: And(cnt(p) >= 1, cnt(k) >= 0),
         lambda s, p, k, t, out: spec.is_text(out, S.concat(spec.left(tf(s), cnt(p) - 1), tf(t),
                                                            spec.mid(tf(s), cnt(p) - 1 + cnt(k), S.length(tf(s)))))),
    Case('start<1 or count<0=>error value', lambda s, p, k, t: Or(cnt(p) < 1, cnt(k) < 0),
         lambda s, p, k, t, out: spec.is_error(out))],
    canary=Case('canary', lambda s, p, k, t: And(cnt(p) >= 1, cnt(k) >= 0), lambda s, p, k, t, out: spec.is_text(out, tf(s))),
    timeout_ms=20000))


# ---- FIND -----------------------------------------------------------------------------------------------------------
def _occurs_at(s, t, r):
    """t occurs in s at 1-based position r"""
    if is_sym(s) or is_sym(t) or is_sym(r):
        s, t, r = lift(s), lift(t), lift(r)
        return Sym(z3.And(r.t >= 1, r.t - 1 + z3.Length(t.t) <= z3.Length(s.t),
                          z3.SubString(s.t, r.t - 1, z3.Length(t.t)) == t.t), 'bool')
    return r >= 1 and s[r - 1:r - 1 + len(t)] == t and r - 1 + len(t) <= len(s)


def _find_result(out):
    v = out.value
    if isinstance(v, spec.T().Number):
        v = v.value
    return v


def _found(t, s, p, out):
    if out.kind != 'ret' or isinstance(out.value, spec.E().ExcelError):
        return False
    r = _find_result(out)
    if not (is_sym(r) or (isinstance(r, int) and not isinstance(r, bool))):
        return False
    return And(r >= cnt(p, 1), _occurs_at(tf(s), tf(t), r))


def _exists_from(t, s, p):
    """t occurs in s at some position >= p  (IndexOf from p-1)"""
    ss, tt, pp = tf(s), tf(t), cnt(p, 1)
    if is_sym(ss) or is_sym(tt) or is_sym(pp):
        return Sym(z3.IndexOf(lift(ss).t, lift(tt).t, S.to_int(lift(pp - 1))) >= 0, 'bool')
    return pp - 1 <= len(ss) and ss.find(tt, pp - 1) >= 0


def _first(t, s, p, out):
    ss, tt, pp = tf(s), tf(t), cnt(p, 1)
    r = _find_result(out)
    if out.kind != 'ret' or not isinstance(r, int) or isinstance(r, bool):
        return False
    return r - 1 == ss.find(tt, pp - 1)


UNITS.append(unit('FIND', [('find_text', TEXTS), ('within_text', TEXTS), ('start_num', COUNTS_OPT)], [
    Case('start>=1,occurs=>a position >= start at which find_text occurs',
         lambda t, s, p: And(cnt(p, 1) >= 1, _exists_from(t, s, p)), _found),
    Case('start>=1,absent=>#VALUE!', lambda t, s, p: And(cnt(p, 1) >= 1, Not(_exists_from(t, s, p))),
         lambda t, s, p, out: spec.is_error(out, 'ValueExcelError')),
    Case('start<1=>error value', lambda t, s, p: cnt(p, 1) < 1, lambda t, s, p, out: spec.is_error(out)),
    Case('start>=1,occurs=>FIRST such position (minimality; bounded only)',
         lambda t, s, p: cnt(p, 1) >= 1 and _exists_from(t, s, p), _first, proof=False)],
    canary=Case('canary', lambda t, s, p: And(cnt(p, 1) >= 1, _exists_from(t, s, p)),
                lambda t, s, p, out: spec.numeric_result(out, cnt(p, 1))),
    timeout_ms=30000))


# ---- TRIM -----------------------------------------------------------------------------------------------------------
def _trimmed(text, out):
    if not spec.returned(out, spec.T().Text):
        return False
    r = out.value.value
    s = tf(text)
    if is_sym(r) or is_sym(s):
        # no leading / trailing blank; characters kept in order: r is s with only blanks removed at both ends
        return And(Not(Sym(z3.PrefixOf(z3.StringVal(' '), lift(r).t), 'bool')),
                   Not(Sym(z3.SuffixOf(z3.StringVal(' '), lift(r).t), 'bool')),
                   spec.eq(r, M.STRIP(s)))
    inner = s.strip(' ')
    return not r.startswith(' ') and not r.endswith(' ') and r.replace(' ', '') == s.replace(' ', '') and inner.startswith(r[:1]) and (r == '' or r[0] == inner[0] and r[-1] == inner[-1])


UNITS.append(unit('TRIM', [('text', TEXTLIKE)], [
    Case('TRIM=no leading/trailing blank, other characters kept in order', lambda text: True, _trimmed)]))

# ---- CONCAT / CONCATENATE (argument lists of length 1..3; unbounded in the texts) --------------------------------------
for fname in ('CONCAT', 'CONCATENATE'):
    for k in (1, 2, 3):
        names = [f't{i}' for i in range(1, k + 1)]
        UNITS.append(Unit(id=f'C17/text.{fname}#{k}', target=f'{MOD}:{fname}',
                          inputs=[(n, TEXTLIKE if k < 3 else TEXTS) for n in names],
                          cases=[Case(f'{fname}=text forms joined left to right', lambda *a: True,
                                      lambda *a: spec.is_text(a[-1], S.concat(*[tf(x) for x in a[:-1]])))],
                          canary=Case('canary', lambda *a: True,
                                      lambda *a: spec.is_text(a[-1], S.concat(*[tf(x) for x in reversed(a[:-1])]))) if k > 1 else None))


# ---- the algebraic identities of the statement, as lemmas over the contracts above ------------------------------------
def _t():
    from xlcalculator.xlfunctions import text
    return text


def _v(x):
    return x.value if hasattr(x, 'value') else x


S_ = Prim('str')
N_ = Prim('int', domain=[0, 1, 2, 3, 5, 6, 7, 11, 12])
UNITS += [
    Lemma('C17/lemma.LEFT&RIGHT=s', [('s', S_), ('n', N_)],
          requires=lambda s, n: And(n >= 0, n <= S.length(s)),
          statement=lambda s, n: spec.eq(S.concat(spec.left(s, n), spec.right(s, S.length(s) - n)), s),
          native=lambda s, n: _v(_t().CONCAT(_t().LEFT(s, n), _t().RIGHT(s, _v(_t().LEN(s)) - n))) == s),
    Lemma('C17/lemma.MID(s,1,n)=LEFT(s,n)', [('s', S_), ('n', N_)], requires=lambda s, n: n >= 0,
          statement=lambda s, n: spec.eq(spec.mid(s, 0, n), spec.left(s, n)),
          native=lambda s, n: _v(_t().MID(s, 1, n)) == _v(_t().LEFT(s, n))),
    Lemma('C17/lemma.LEN(a&b)=LEN(a)+LEN(b)', [('a', S_), ('b', S_)],
          statement=lambda a, b: spec.eq(S.length(S.concat(a, b)), S.length(a) + S.length(b)),
          native=lambda a, b: _v(_t().LEN(_t().CONCAT(a, b))) == _v(_t().LEN(a)) + _v(_t().LEN(b))),
    Lemma('C17/lemma.REPLACE=LEFT&t&MID', [('s', S_), ('p', Prim('int', domain=[1, 2, 3, 4, 7, 8])), ('k', N_), ('t', Prim('str', domain=['', 'X', 'ab']))],
          requires=lambda s, p, k, t: And(p >= 1, k >= 0),
          statement=lambda s, p, k, t: spec.eq(
              S.concat(spec.left(s, p - 1), t, spec.mid(s, p - 1 + k, S.length(s))),
              S.concat(spec.left(s, p - 1), t, spec.right(s, S.maximum(S.length(s) - (p - 1 + k), 0)))),
          native=lambda s, p, k, t: _v(_t().REPLACE(s, p, k, t)) == _v(_t().CONCAT(_t().LEFT(s, p - 1), t, _t().MID(s, p + k, _v(_t().LEN(s)))))),
]
